"""Canonical JSON forms shared with the Lean driver (lean/Ypv/Drv/Codec.lean): path segments,
documents, addresses.  Converts real yamlpath / ruamel objects to those forms and back."""
from __future__ import annotations

import datetime
from decimal import Decimal


# --------------------------------------------------------------------------- segments

def seg_to_json(seg):
    from yamlpath.path import SearchTerms, CollectorTerms
    from yamlpath.path.searchkeywordterms import SearchKeywordTerms
    stype, attrs = seg
    tname = stype.name if stype is not None else "NONE"
    if attrs is None:
        a = None
    elif isinstance(attrs, bool):
        a = {"other": repr(attrs)}
    elif isinstance(attrs, int):
        a = {"int": str(attrs)}
    elif isinstance(attrs, str):
        a = attrs
    elif isinstance(attrs, SearchTerms):
        a = {"search": {"inv": bool(attrs.inverted), "m": attrs.method.name,
                        "attr": attrs.attribute, "term": attrs.term}}
    elif isinstance(attrs, SearchKeywordTerms):
        a = {"keyword": {"inv": bool(attrs.inverted), "kw": attrs.keyword.name,
                         "params": attrs._parameters}}
    elif isinstance(attrs, CollectorTerms):
        a = {"collector": {"expr": attrs.expression, "op": attrs.operation.name}}
    else:
        a = {"other": repr(attrs)}
    return [tname, a]


def segs_to_json(segs):
    return [seg_to_json(s) for s in segs]


# --------------------------------------------------------------------------- scalars / documents

def float_to_me(f: float):
    """(m, e) with f == m * 10**e exactly as printed by repr(f); None if not a finite decimal."""
    r = repr(float(f))
    if r in ("nan", "inf", "-inf"):
        return None
    d = Decimal(r)
    sign, digits, exp = d.as_tuple()
    m = int("".join(map(str, digits)))
    while m != 0 and m % 10 == 0:
        m //= 10
        exp += 1
    if m == 0:
        exp = 0
    return (-m if sign else m, exp)


def key_to_json(k):
    if isinstance(k, bool) or not isinstance(k, (str, int)):
        raise OutOfModel("key " + repr(k))
    if isinstance(k, int):
        return int(k)
    return str(k)


class OutOfModel(Exception):
    pass


def anchor_of(node):
    a = getattr(node, "anchor", None)
    v = getattr(a, "value", None) if a is not None else None
    return v if v else None


def scalar_to_json(v):
    if v is None:
        return {"k": "null"}
    if isinstance(v, bool):
        return {"k": "bool", "v": bool(v)}
    # ruamel ScalarBoolean is an int subclass
    if type(v).__name__ == "ScalarBoolean":
        return {"k": "bool", "v": bool(v)}
    if isinstance(v, int):
        return {"k": "int", "v": str(int(v))}
    if isinstance(v, float):
        me = float_to_me(v)
        if me is None:
            raise OutOfModel("float " + repr(v))
        return {"k": "float", "m": str(me[0]), "e": me[1]}
    if isinstance(v, str):
        return {"k": "str", "v": str(v)}
    if isinstance(v, (datetime.date, datetime.datetime)):
        return {"k": "opaque", "v": str(v)}
    if type(v).__name__ == "TaggedScalar":
        return {"k": "opaque", "v": str(v.value)}
    raise OutOfModel("scalar " + type(v).__name__)


def node_to_json(n, anchors=True):
    """ruamel / plain Python data -> canonical document JSON."""
    from ruamel.yaml.comments import CommentedSet
    if isinstance(n, (CommentedSet, set, frozenset)):
        out = {"k": "set", "m": [key_to_json(m) for m in n]}
    elif isinstance(n, dict):
        out = {"k": "map", "e": [[key_to_json(k), node_to_json(v, anchors)] for k, v in n.items()]}
    elif isinstance(n, (list, tuple)):
        out = {"k": "seq", "i": [node_to_json(v, anchors) for v in n]}
    else:
        out = scalar_to_json(n)
    if anchors:
        a = anchor_of(n)
        if a:
            out["a"] = a
    return out


def strip_anchors(j):
    if isinstance(j, dict):
        return {k: strip_anchors(v) for k, v in j.items() if k != "a"}
    if isinstance(j, list):
        return [strip_anchors(x) for x in j]
    return j


def json_to_plain(j):
    """canonical document JSON -> plain Python data (dict / list / set / scalars), no anchors."""
    k = j["k"]
    if k == "map":
        return {kk: json_to_plain(v) for kk, v in j["e"]}
    if k == "seq":
        return [json_to_plain(v) for v in j["i"]]
    if k == "set":
        return set(j["m"])
    if k == "null":
        return None
    if k == "bool":
        return j["v"]
    if k == "int":
        return int(j["v"])
    if k == "float":
        return float(Decimal(int(j["m"])).scaleb(j["e"]))
    if k in ("str", "opaque"):
        return j["v"]
    raise ValueError(k)


def json_to_ruamel(j, anchor_objs=None):
    """canonical document JSON -> ruamel round-trip objects (CommentedMap / CommentedSeq /
    CommentedSet, plain scalars; anchored scalars become ruamel scalar wrappers sharing one
    Python object per anchor name, as the loader produces for aliases)."""
    from ruamel.yaml.comments import CommentedMap, CommentedSeq, CommentedSet
    from ruamel.yaml.scalarstring import PlainScalarString
    from ruamel.yaml.scalarint import ScalarInt
    from ruamel.yaml.scalarfloat import ScalarFloat
    from ruamel.yaml.scalarbool import ScalarBoolean
    if anchor_objs is None:
        anchor_objs = {}
    a = j.get("a")
    if a is not None and a in anchor_objs:
        return anchor_objs[a]
    k = j["k"]
    if k == "map":
        out = CommentedMap()
        if a is not None:
            out.yaml_set_anchor(a, always_dump=True)
            anchor_objs[a] = out
        for kk, v in j["e"]:
            out[kk] = json_to_ruamel(v, anchor_objs)
        return out
    if k == "seq":
        out = CommentedSeq()
        if a is not None:
            out.yaml_set_anchor(a, always_dump=True)
            anchor_objs[a] = out
        for v in j["i"]:
            out.append(json_to_ruamel(v, anchor_objs))
        return out
    if k == "set":
        out = CommentedSet()
        for m in j["m"]:
            out.add(m)
        if a is not None:
            out.yaml_set_anchor(a, always_dump=True)
            anchor_objs[a] = out
        return out
    plain = json_to_plain(j)
    if a is None:
        if k == "float":
            # the loader yields ScalarFloat for floats
            r = repr(plain)
            if "e" in r or "E" in r or "inf" in r or "nan" in r:
                return plain
            whole, _, frac = r.lstrip("-").partition(".")
            return ScalarFloat(plain, width=len(r), prec=len(whole) if not r.startswith("-") else len(whole) + 1,
                               m_sign="-" if r.startswith("-") else False, m_lead0=0, exp=None, e_width=None,
                               e_sign=None, underscore=None)
        return plain
    if k == "str" or k == "opaque":
        out = PlainScalarString(plain, anchor=a)
    elif k == "int":
        out = ScalarInt(plain, anchor=a)
    elif k == "float":
        r = repr(plain)
        whole, _, frac = r.lstrip("-").partition(".")
        out = ScalarFloat(plain, width=len(r), prec=len(whole) if not r.startswith("-") else len(whole) + 1,
                          m_sign="-" if r.startswith("-") else False, m_lead0=0, exp=None, e_width=None,
                          e_sign=None, underscore=None, anchor=a)
    elif k == "bool":
        out = ScalarBoolean(plain, anchor=a)
    elif k == "null":
        raise OutOfModel("anchored null")
    else:
        raise ValueError(k)
    out.yaml_anchor().always_dump = True
    anchor_objs[a] = out
    return out


# --------------------------------------------------------------------------- addresses

def build_addr_table(root):
    """id(container) -> address, for every container reachable from root (first occurrence)."""
    table = {}

    def walk(n, addr):
        from ruamel.yaml.comments import CommentedSet
        if isinstance(n, (CommentedSet, set)):
            table.setdefault(id(n), addr)
        elif isinstance(n, dict):
            if id(n) in table:
                return
            table[id(n)] = addr
            for k, v in n.items():
                walk(v, addr + [["k", key_to_json(k)]])
        elif isinstance(n, list):
            if id(n) in table:
                return
            table[id(n)] = addr
            for i, v in enumerate(n):
                walk(v, addr + [["i", i]])
    walk(root, [])
    return table


def ref_of(parent, parentref):
    from ruamel.yaml.comments import CommentedSet
    if isinstance(parent, (CommentedSet, set)):
        return ["m", key_to_json(parentref)]
    if isinstance(parent, dict):
        return ["k", key_to_json(parentref)]
    if isinstance(parent, list):
        if isinstance(parentref, bool) or not isinstance(parentref, int):
            raise OutOfModel("list ref " + repr(parentref))
        return ["i", int(parentref)]
    raise OutOfModel("parent " + type(parent).__name__)
