"""C18 — multi-document merges combine documents as the selected mode defines."""
from __future__ import annotations

import io
import json
import os
import random
import re
import signal
import sys

from harness import core, codec
from harness.props import merging as mg
from harness.props import c05

RULE = ("pairs of document streams of lengths 1..4 (documents: empty/null documents, scalars, and seeded random maps, lists, "
        "arrays-of-hashes and sets, right-hand documents often derived from left-hand ones so that keys and identities "
        "collide) x the three multi-document modes x sampled C05 configurations (command-line values; [rules]/[keys]/[defaults] "
        "for a part).  All 4 x 4 length pairs x 3 modes are covered for every seed.  Each case runs yaml_merge.merge_docs on real "
        "Merger objects (right-hand stream handed over through get_doc_mergers: in memory for the bulk, through a real "
        "multi-document YAML file for a sample) and, for a further sample, the yaml-merge main() in-process on real files with "
        "stdout parsed back as a document stream.  Direct checks on the real code: no exception other than SystemExit escapes; "
        "with status 0 the number of output documents is 1 / max(|L|,|R|) / |L|.  Correspondence: return state / exit status, "
        "number, order and content of the resulting documents equal the Lean model's (the model instantiated with C05's pairwise "
        "merge).  Files that hold NO document (empty, blank lines only, comments only, BOM only; each form is parsed with the "
        "real loader first and used as a zero-document file only when it yields no document - forms like a lone `---` that "
        "yield one null document are used as one-null-document files): for every mode, every file count 2..4 and every "
        "placement of zero-document files among them (first, middle, last, several; at least one file holds documents), with "
        "document-holding files of 1..3 documents, yaml-merge main() runs on the real files; a zero-document stream "
        "contributes no pairwise step, so state, number (1 / max length / length of the left stream), order and content of the "
        "output must equal the model's on the file list without the zero-document files (MATRIX_MERGE with a zero-document "
        "FIRST file is run for crashes only: the statement does not say which stream is the left one then; file lists "
        "without any document are not run).  Streams with Anchors merged at or below the root: yaml-merge main() on 2..3 real files of 1..3 "
        "documents whose values are scalars, scalar Anchor definitions and Aliases (three names, so that documents of one run "
        "share names), x 3 modes x --mergeat in {/, /base, /base/sub, /apps/web} x 4 Anchor policies x arrays all|unique; the "
        "outcome (refusal or the written documents: data and the (name, value) of every Anchor definition) must be that of the "
        "mode's chain of pairwise merges, each step run by a Merger and MergerConfig of its own that have merged nothing before.  "
        "Output renderings: 1 920 (quick) stream pairs of JSON-representable documents (all 4 x 4 length pairs x 3 modes) through "
        "yaml-merge main() with --document-format yaml|json|auto x --json-indent absent|-1|0|2|4 x STDOUT | --output FILE | "
        "--overwrite FILE (.json/.yaml, existing or not), a single-document left file sometimes being JSON text; the stream read "
        "back from where the command wrote it (a sequence of JSON values, else YAML) must hold 1 / max(|L|,|R|) / |L| documents "
        "(direct: the number and order depend on the mode and the stream lengths alone, not on the rendering) and they must be "
        "the model's documents as plain data.  "
        "distinct_nontrivial = cases with status 0 in which at least one pairwise merge changed a document.")

MODES = ["condense_all", "merge_across", "matrix_merge"]


class Timeout(Exception):
    pass


def _alarm(_s, _f):
    raise Timeout()


def rand_streams(rng, nl, nr):
    base = [mg.rand_doc(rng, rng.choice([1, 2]), rng.choice(["map", "map", "aoh", "seq", "set", None])) for _ in range(2)]

    def doc():
        x = rng.random()
        if x < 0.12:
            return mg.S(None)
        if x < 0.2:
            return mg.rand_scalar(rng)
        b = rng.choice(base)
        if x < 0.75:
            return mg.mutate(rng, b, 2)
        return mg.rand_doc(rng, 2)
    return [doc() for _ in range(nl)], [doc() for _ in range(nr)]


def rand_cfg(rng, R):
    if rng.random() < 0.25 and R:
        return mg.rand_policy(rng, rng.choice(R), with_rules=True)
    return mg.rand_policy(rng, mg.S(1), with_rules=False)


def dump_stream(docs, path):
    from yamlpath.common import Parsers
    y = Parsers.get_yaml_editor()
    data = [codec.json_to_ruamel(d) for d in docs]
    with open(path, "w", encoding="utf-8") as fh:
        y.explicit_start = True
        y.dump_all(data, fh)


def file_safe(docs):
    """Streams that survive a YAML dump/load round trip unchanged (checked, not assumed)."""
    from yamlpath.common import Parsers
    try:
        buf = io.StringIO()
        y = Parsers.get_yaml_editor()
        y.explicit_start = True
        y.dump_all([codec.json_to_ruamel(d) for d in docs], buf)
        back = [codec.node_to_json(d, anchors=False) for d in Parsers.get_yaml_editor().load_all(buf.getvalue())]
        return back == docs
    except Exception:  # noqa
        return False


def impl_docs(mode, L, R, cfg, how, limit_s=10.0):
    """yaml_merge.merge_docs on real Mergers -> {"state": n, "docs": [...]} | {"err": class, "site"}."""
    from yamlpath.merger import Merger
    from yamlpath.commands import yaml_merge
    from yamlpath.common import Parsers
    old = signal.signal(signal.SIGVTALRM, _alarm)
    signal.setitimer(signal.ITIMER_VIRTUAL, limit_s)
    saved = yaml_merge.get_doc_mergers
    o_err, o_out = sys.stderr, sys.stdout
    try:
        sys.stderr = io.StringIO()      # merge errors are logged to stderr/stdout even by a quiet logger
        sys.stdout = io.StringIO()
        mc = mg.make_config(cfg, "kw", extra_args={"multi_doc_mode": mode})
        log = mc.log
        lhs = [Merger(log, codec.json_to_ruamel(d), mc) for d in L]
        ed = Parsers.get_yaml_editor()
        if how == "file":
            path = os.path.join(mg._tmpdir(), "rhs-%d.yaml" % os.getpid())
            dump_stream(R, path)
        else:
            path = "in-memory"
            yaml_merge.get_doc_mergers = lambda _l, _e, _c, _f: ([Merger(log, codec.json_to_ruamel(d), mc) for d in R], True)
        state = yaml_merge.merge_docs(log, ed, mc, lhs, path)
        return {"state": state, "docs": [codec.node_to_json(m.data, anchors=False) for m in lhs]}
    except Timeout:
        return {"err": "timeout"}
    except codec.OutOfModel:
        return {"oom": 1}
    except Exception as e:  # noqa
        return mg.classify_exc(e)
    finally:
        sys.stderr, sys.stdout = o_err, o_out
        yaml_merge.get_doc_mergers = saved
        signal.setitimer(signal.ITIMER_VIRTUAL, 0)
        signal.signal(signal.SIGVTALRM, old)


def impl_main(mode, files, cfg, limit_s=20.0, texts=None):
    """yaml-merge main() in-process on real files -> {"state": exit status, "docs": stdout parsed}.
    `texts[i]`, when a string, is written verbatim as file i (zero-document / lone-marker files)."""
    from yamlpath.commands import yaml_merge
    from yamlpath.common import Parsers
    d = mg._tmpdir()
    paths = []
    for i, docs in enumerate(files):
        p = os.path.join(d, "f%d-%d.yaml" % (os.getpid(), i))
        if texts and texts[i] is not None:
            with open(p, "w", encoding="utf-8") as fh:
                fh.write(texts[i])
        else:
            dump_stream(docs, p)
        paths.append(p)
    argv = ["yaml-merge", "--nostdin", "--quiet", "-D", "yaml", "-M", mode]
    for n, opt in (("hash", "-H"), ("array", "-A"), ("aoh", "-O"), ("set", "-E")):
        if cfg.get(n):
            argv += [opt, cfg[n]]
    if mg.needs_ini(cfg) or cfg.get("rules") or cfg.get("keys"):
        ini = os.path.join(d, "main-%d.ini" % os.getpid())
        mg.write_ini(cfg, ini)
        argv += ["-c", ini]
    argv += paths
    old = signal.signal(signal.SIGVTALRM, _alarm)
    signal.setitimer(signal.ITIMER_VIRTUAL, limit_s)
    o_argv, o_out, o_err = sys.argv, sys.stdout, sys.stderr
    out = io.StringIO()
    try:
        sys.argv, sys.stdout, sys.stderr = argv, out, io.StringIO()
        try:
            yaml_merge.main()
            code = 0
        except SystemExit as se:
            code = se.code if isinstance(se.code, int) else (0 if se.code is None else 1)
        finally:
            sys.argv, sys.stdout, sys.stderr = o_argv, o_out, o_err
        docs = None
        if code == 0:
            docs = [codec.node_to_json(x, anchors=False) for x in Parsers.get_yaml_editor().load_all(out.getvalue())]
        return {"state": code, "docs": docs}
    except Timeout:
        return {"err": "timeout"}
    except codec.OutOfModel:
        return {"oom": 1}
    except Exception as e:  # noqa
        return mg.classify_exc(e)
    finally:
        sys.argv, sys.stdout, sys.stderr = o_argv, o_out, o_err
        signal.setitimer(signal.ITIMER_VIRTUAL, 0)
        signal.signal(signal.SIGVTALRM, old)


def _passthrough_hits(n, key):
    """Does Processor._get_nodes_by_key find `key` in n when it reaches n by traversing a list?"""
    k = n["k"]
    if k == "map":
        return any(kk == key or str(kk) == key for kk, _v in n["e"])
    if k == "seq":
        return any(_passthrough_hits(x, key) for x in n["i"])
    if k == "set":
        return any(m == key or str(m) == key for m in n["m"])
    return False


def addr_is_plain(doc, addr):
    """Is a rule/key path of key and index segments resolved against `doc` by the real Processor the way the model's
    `resolve` does it (one child per segment, or no match)?  False when a segment is answered by one of the Processor's
    other behaviours: a key segment that meets a list (bare-index reading, or the pass-through search of an array of
    hashes, which may attach the rule to several nodes), a key segment that names a member of a set, an index segment on
    a set (YAMLPathException), an integer-looking key.  Structural test on the document only; the real code is not asked."""
    n = doc
    for t, v in addr:
        k = n["k"]
        if t == "k":
            if re.fullmatch(r"[-+]?[0-9_ ]+", str(v)):
                return False
            if k == "map":
                nxt = [vv for kk, vv in n["e"] if kk == v]
                if not nxt:
                    return True
                n = nxt[0]
            elif k == "seq":
                return not _passthrough_hits(n, v)
            elif k == "set":
                return not _passthrough_hits(n, v)
            else:
                return True
        else:
            if k == "seq":
                if not (0 <= v < len(n["i"])):
                    return v >= 0
                n = n["i"][v]
            elif k == "set":
                return False
            else:
                return True
    return True


def rules_in_model(c):
    """The configured rule and key paths are prepared against every document that serves as right-hand side of a
    pairwise merge (under CONDENSE_ALL also the left-hand stream's documents).  The model resolves plain paths only."""
    cfg = c["cfg"]
    addrs = [a for a, _v in cfg.get("rules", [])] + [a for a, _v in cfg.get("keys", [])]
    if not addrs:
        return True
    docs = list(c["rhs"]) + [d for f in c.get("files", [])[1:] for d in f]
    if c["mode"] == "condense_all":
        docs += list(c["lhs"]) + [d for f in c.get("files", [])[:1] for d in f]
    return all(addr_is_plain(d, a) for d in docs for a in addrs)


# candidate texts of files without a document; what each really holds is decided by the real loader
BLANK_TEXTS = ["", "\n", "  \n\n", "# only a comment\n", "# first\n\n  # second\n", "\ufeff", "# no newline at the end",
               "---\n", "---", "--- # comment\n", "---\n...\n", "%YAML 1.2\n---\n", "# c\n---\n# d\n"]
_BLANKS = None


def blank_forms():
    """(texts that parse to zero documents, texts that parse to exactly one null document)"""
    global _BLANKS
    if _BLANKS is None:
        from yamlpath.common import Parsers
        zero, null = [], []
        for t in BLANK_TEXTS:
            try:
                docs = list(Parsers.get_yaml_editor().load_all(t))
            except Exception:  # noqa
                continue
            if docs == []:
                zero.append(t)
            elif docs == [None]:
                null.append(t)
        _BLANKS = (zero, null)
    return _BLANKS


def empty_file_cases(rng, reps):
    """every mode x file count 2..4 x every placement of zero-document files (not all of them) x `reps` fillings"""
    zero, null = blank_forms()
    cases = []
    if not zero:
        return cases
    for mode in MODES:
        for nf in (2, 3, 4):
            for mask in range(1, 2 ** nf - 1):                # bit i set: file i holds no document
                for rep in range(reps):
                    files, texts = [], []
                    cfg = mg.rand_policy(rng, mg.S(1), with_rules=False)
                    first_full = True
                    for i in range(nf):
                        if mask >> i & 1:
                            files.append([])
                            texts.append(zero[rng.randrange(len(zero))])
                            continue
                        if null and rng.random() < 0.12:
                            files.append([mg.S(None)])
                            texts.append(null[rng.randrange(len(null))])
                            first_full = False
                            continue
                        # the left stream has 2-3 documents in most cases: that is where folding shows
                        n = rng.choice([2, 3, 3, 1] if first_full else [1, 1, 2, 3])
                        first_full = False
                        for _try in range(6):
                            docs = rand_streams(rng, n, 1)[0]
                            if file_safe(docs):
                                break
                        else:
                            docs = [mg.M(("k%d" % j, mg.S(j))) for j in range(n)]
                        files.append(docs)
                        texts.append(None)
                    full = [f for f in files if f]
                    cases.append({"mode": mode, "lhs": full[0], "rhs": full[1] if len(full) > 1 else [], "cfg": cfg,
                                  "how": "main-empty", "files": files, "texts": texts})
    return cases


# --------------------------------------------------------------------------- streams with Anchors, merged below the root

A_NAMES = ["port", "host", "port_1"]
A_VALUES = ["8080", "9090", "web", "true", "1.5"]
A_KEYS = ["blue", "green", "name", "probe", "listen", "k1"]


def anchored_doc(rng, shape=None):
    """YAML text of a small Hash (or Array) document whose values are plain scalars, scalar Anchor definitions (&port 8080)
    and Aliases (*port) of names from a pool of three, nested one level for a part."""
    defined = []

    def slot():
        x = rng.random()
        if x < 0.45:
            n = rng.choice(A_NAMES)
            if n not in defined:
                defined.append(n)
                return "&%s %s" % (n, rng.choice(A_VALUES))
        if x < 0.75 and defined:
            return "*%s" % rng.choice(defined)
        return rng.choice(A_VALUES + ["7"])
    shape = shape or rng.choice(["map", "map", "map", "nest", "nest", "seq"])
    keys = rng.sample(A_KEYS, rng.randint(1, 3))
    if shape == "map":
        return "".join("%s: %s\n" % (k, slot()) for k in keys)
    if shape == "nest":
        out = ""
        for k in keys:
            if rng.random() < 0.6:
                out += "%s:\n" % k + "".join("  %s: %s\n" % (k2, slot()) for k2 in rng.sample(A_KEYS, rng.randint(1, 2)))
            else:
                out += "%s: %s\n" % (k, slot())
        return out
    return "".join("- %s\n" % slot() for _ in keys)


def anchored_case(rng, i):
    """A run of yaml-merge over 2..3 files (streams of 1..3 documents with Anchors) with --mergeat at or below the root, an
    Anchor policy, a multi-document mode and an Array policy."""
    mode = MODES[i % 3]
    mergeat = rng.choice(["/", "/base", "/base", "/base/sub", "/apps/web"])
    left0 = "base:\n  name: app\n" + ("  sub:\n    k0: 0\n" if rng.random() < 0.5 else "") + \
        ("apps:\n  web:\n    k0: 0\n" if mergeat == "/apps/web" or rng.random() < 0.3 else "") + anchored_doc(rng, rng.choice(["map", "nest"]))
    nfiles = rng.choice([2, 2, 3])
    files = []
    for f in range(nfiles):
        n = rng.randint(1, 3)
        docs = []
        for d in range(n):
            if f == 0:
                docs.append(left0 if d == 0 or mode != "condense_all" else anchored_doc(rng, rng.choice(["map", "nest"])))
            else:
                docs.append(anchored_doc(rng, rng.choice(["map", "map", "nest"])))
        files.append(docs)
    return {"how": "anchored", "mode": mode, "mergeat": mergeat, "anchors": rng.choice(["stop", "left", "right", "rename", "rename"]),
            "arrays": rng.choice(["all", "unique"]), "texts": files}


def _doc_view(data):
    """What the property compares of one output document: its data, and the (name, value) of every Anchor definition."""
    from harness.props import c10
    return [c10.plain_json(data), sorted((n, json.dumps(c10.vj(nd), sort_keys=True)) for n, nd, _i in c10.anchored_nodes(data))]


def pairwise_chain(case, log):
    """The mode's definition spelled out as a chain of independent pairwise merges: every step is
    Merger(left, fresh MergerConfig).merge_with(right) on a Merger that has merged nothing before.
    -> ("refused", step) | ("ok", [document views])."""
    from copy import deepcopy
    from types import SimpleNamespace
    from yamlpath.common import Parsers
    from yamlpath.merger import Merger, MergerConfig
    from yamlpath.merger.exceptions import MergeException
    from yamlpath.exceptions import YAMLPathException

    def loadall(texts):
        return [Parsers.get_yaml_editor().load(t) for t in texts]

    def step(l, r):
        mc = MergerConfig(log, SimpleNamespace(mergeat=case["mergeat"], anchors=case["anchors"], arrays=case["arrays"],
                                               multi_doc_mode=case["mode"]))
        m = Merger(log, l, mc)
        m.merge_with(r)
        return m.data
    mode = case["mode"]
    cur = loadall(case["texts"][0])
    try:
        for ftexts in case["texts"][1:]:
            R = loadall(ftexts)
            if mode == "condense_all":
                acc = cur[0]
                for d in cur[1:] + R:
                    acc = step(acc, d)
                cur = [acc]
            elif mode == "merge_across":
                for k, d in enumerate(R):
                    if k < len(cur):
                        cur[k] = step(cur[k], d)
                    else:
                        cur.append(d)
            else:
                for k in range(len(cur)):
                    for d in R:
                        cur[k] = step(cur[k], deepcopy(d))
        if mode == "condense_all" and len(cur) > 1:
            acc = cur[0]
            for d in cur[1:]:
                acc = step(acc, d)
            cur = [acc]
    except (MergeException, YAMLPathException) as e:
        return ("refused", type(e).__name__)
    out = []
    for d in cur:
        y = Parsers.get_yaml_editor()
        m = Merger(log, d, MergerConfig(log, SimpleNamespace()))
        m.prepare_for_dump(y, "")
        buf = io.StringIO()
        y.dump(m.data, buf)
        out.append(_doc_view(Parsers.get_yaml_editor().load(buf.getvalue())))
    return ("ok", out)


def run_anchored(case):
    """-> (verdicts [(kind, sig, what)], nontrivial?)."""
    import warnings
    from harness.props import cli_common as cc
    from yamlpath.common import Parsers
    log = core.quiet_logger()
    d = mg._tmpdir()
    paths = []
    for i, docs in enumerate(case["texts"]):
        p = os.path.join(d, "a%d-%d.yaml" % (os.getpid(), i))
        with open(p, "w", encoding="utf-8") as fh:
            fh.write("".join("---\n" + t for t in docs))
        paths.append(p)
    argv = ["--nostdin", "-D", "yaml", "-M", case["mode"], "-m", case["mergeat"], "-a", case["anchors"], "-A", case["arrays"]] + paths
    desc = "yaml-merge %s on the files %s" % (" ".join(argv[1:-len(paths)]), json.dumps(case["texts"]))
    old = signal.signal(signal.SIGVTALRM, _alarm)
    signal.setitimer(signal.ITIMER_VIRTUAL, 20.0)
    try:
        with warnings.catch_warnings():
            warnings.simplefilter("ignore")
            want = pairwise_chain(case, log)
    except Timeout:
        return [("violation", "timeout", desc + ": the pairwise chain did not finish")], False
    except Exception as e:  # noqa: a crash of a single pairwise merge is C05's/C10's/C11's to report
        return [], False
    finally:
        signal.setitimer(signal.ITIMER_VIRTUAL, 0)
        signal.signal(signal.SIGVTALRM, old)
    res = cc.run_inproc("merge", argv)
    if res.get("timeout"):
        return [("violation", "timeout", desc + " did not finish")], False
    if "crash" in res:
        return [("violation", "%s@%s" % (res["crash"], res.get("site", "?")), desc + " let %s escape" % res["crash"])], False
    if want[0] == "refused":
        if res["rc"] == 0:
            return [("violation", "anchored:%s:accepted:anchors=%s" % (case["mode"], case["anchors"]),
                     "%s exits 0 and writes %r; a pairwise step of the mode (each a merge by a Merger of its own) is refused (%s)" % (
                         desc, res["out"], want[1]))], False
        return [], False
    if res["rc"] != 0:
        return [("violation", "anchored:%s:refused:anchors=%s" % (case["mode"], case["anchors"]),
                 "%s exits %d; every pairwise step of the mode (each a merge by a Merger of its own) is defined" % (desc, res["rc"]))], False
    try:
        with warnings.catch_warnings():
            warnings.simplefilter("ignore")
            got = [_doc_view(x) for x in Parsers.get_yaml_editor().load_all(res["out"])]
    except Exception as e:  # noqa
        return [("violation", "anchored:%s:output-does-not-load" % case["mode"], "%s wrote %r, which does not load (%s)" % (
            desc, res["out"], type(e).__name__))], False
    if got != want[1]:
        what = "docs" if [g[0] for g in got] != [w[0] for w in want[1]] else "anchors"
        return [("violation", "anchored:%s:%s:anchors=%s" % (case["mode"], what, case["anchors"]),
                 "%s wrote %r: documents/Anchors %s; the chain of pairwise merges (each by a Merger of its own) gives %s" % (
                     desc, res["out"], json.dumps(got), json.dumps(want[1])))], True
    return [], True


# --------------------------------------------------------------------------- the written stream under every output rendering

R_FORMATS = ["json", "json", "json", "auto", "auto", "yaml"]
R_INDENTS = [None, -1, 0, 2, 4]
R_TARGETS = ["stdout", "stdout", "output", "overwrite"]


def render_case(rng, i):
    """Streams of JSON-representable documents (text keys, no sets) x mode x an output rendering: --document-format
    yaml | json | auto, --json-indent absent | -1 | 0 | 2 | 4, written to STDOUT, to a new --output file or to an --overwrite
    file (existing or not) whose name ends in .json or .yaml; a single-document left file is sometimes itself JSON text (so
    that `auto` follows the first document)."""
    nl, nr = 1 + (i % 4), 1 + ((i // 4) % 4)
    mode = MODES[(i // 16) % 3]
    while True:
        L, R = rand_streams(rng, nl, nr)
        L, R = [c05._no_sets(d) for d in L], [c05._no_sets(d) for d in R]
        if file_safe(L) and file_safe(R):
            break
    cfg = {k: v for k, v in mg.rand_policy(rng, mg.S(1), with_rules=False).items() if k in ("hash", "array", "aoh", "set")}
    render = {"format": rng.choice(R_FORMATS), "indent": rng.choice(R_INDENTS), "to": rng.choice(R_TARGETS),
              "ext": rng.choice([".json", ".json", ".yaml"]), "exists": rng.random() < 0.5,
              "json_input": nl == 1 and rng.random() < 0.3}
    return {"mode": mode, "lhs": L, "rhs": R, "cfg": cfg, "how": "render", "files": [L, R], "render": render}


def parse_rendered(text):
    """The written text as a stream of plain documents: a sequence of JSON values (one per line or indented), else YAML."""
    from harness.props import cli_common as cc
    from yamlpath.common import Parsers
    dec, pos, docs = json.JSONDecoder(), 0, []
    try:
        while True:
            while pos < len(text) and text[pos].isspace():
                pos += 1
            if pos >= len(text):
                break
            obj, pos = dec.raw_decode(text, pos)
            docs.append(obj)
        if docs:
            return "json", docs
    except ValueError:
        pass
    return "yaml", [cc.plain_json(codec.node_to_json(x, anchors=False)) for x in Parsers.get_yaml_editor().load_all(text)]


def impl_render(case, limit_s=20.0):
    """yaml-merge main() in-process with the case's output rendering -> {"state", "docs": plain documents read back from
    where the command wrote them, "as": json|yaml}."""
    from yamlpath.commands import yaml_merge
    from harness.props import cli_common as cc
    rd = case["render"]
    d = mg._tmpdir()
    paths = []
    for i, docs in enumerate(case["files"]):
        p = os.path.join(d, "r%d-%d.yaml" % (os.getpid(), i))
        if i == 0 and rd.get("json_input") and len(docs) == 1:
            cc.dump_json(docs, p)
        else:
            dump_stream(docs, p)
        paths.append(p)
    argv = ["yaml-merge", "--nostdin", "-D", rd["format"], "-M", case["mode"]]
    if rd["indent"] is not None:
        argv += ["-J", str(rd["indent"])]
    outp = None
    if rd["to"] != "stdout":
        outp = os.path.join(d, "rout-%d%s" % (os.getpid(), rd["ext"]))
        if os.path.exists(outp):
            os.remove(outp)
        if rd["to"] == "overwrite" and rd.get("exists"):
            with open(outp, "w") as fh:
                fh.write("old: content\n")
        argv += ["-o" if rd["to"] == "output" else "-w", outp]
    else:
        argv.insert(2, "--quiet")
    for n, opt in (("hash", "-H"), ("array", "-A"), ("aoh", "-O"), ("set", "-E")):
        if case["cfg"].get(n):
            argv += [opt, case["cfg"][n]]
    argv += paths
    old = signal.signal(signal.SIGVTALRM, _alarm)
    signal.setitimer(signal.ITIMER_VIRTUAL, limit_s)
    o_argv, o_out, o_err = sys.argv, sys.stdout, sys.stderr
    out = io.StringIO()
    try:
        sys.argv, sys.stdout, sys.stderr = argv, out, io.StringIO()
        try:
            yaml_merge.main()
            code = 0
        except SystemExit as se:
            code = se.code if isinstance(se.code, int) else (0 if se.code is None else 1)
        finally:
            sys.argv, sys.stdout, sys.stderr = o_argv, o_out, o_err
        if code != 0:
            return {"state": code, "docs": None}
        if outp is not None:
            with open(outp, encoding="utf-8") as fh:
                text = fh.read()
        else:
            text = out.getvalue()
        kind_, docs = parse_rendered(text)
        return {"state": 0, "docs": docs, "as": kind_, "text": text[:600]}
    except Timeout:
        return {"err": "timeout"}
    except codec.OutOfModel:
        return {"oom": 1}
    except Exception as e:  # noqa
        return mg.classify_exc(e)
    finally:
        sys.argv, sys.stdout, sys.stderr = o_argv, o_out, o_err
        signal.setitimer(signal.ITIMER_VIRTUAL, 0)
        signal.signal(signal.SIGVTALRM, old)
        if outp is not None and os.path.exists(outp):
            os.remove(outp)


def render_class(rd, wrote_as):
    ind = "default" if rd["indent"] is None else ("single-line" if rd["indent"] < 0 else "indented")
    return "%s-written:json-indent=%s:%s" % (wrote_as or rd["format"], ind, "stdout" if rd["to"] == "stdout" else "file")


def run_render(cases):
    """Clause: the number and order of the output documents is determined by the mode and the stream lengths alone - not
    by how the result is rendered.  Direct: with status 0 the stream read back from STDOUT / the output file holds
    1 / max(|L|,|R|) / |L| documents.  Correspondence: they are the model's documents (as plain data), in its order."""
    from harness.props import cli_common as cc
    stats, findings, hist, nontrivial = {"n": 0, "oom": 0}, [], {}, 0
    reqs, prepared = [], []
    for c in cases:
        try:
            mc = mg.model_cfg(c["cfg"], c["lhs"] + c["rhs"])
        except codec.OutOfModel:
            stats["oom"] += 1
            continue
        reqs.append({"op": "C18.main", "mode": c["mode"], "files": c["files"], "cfg": mc})
        prepared.append(c)
    model = core.Driver().ask(reqs) if reqs else []
    for c, mo in zip(prepared, model):
        im = impl_render(c)
        stats["n"] += 1
        rd, mode = c["render"], c["mode"]
        argv_desc = "-D %s%s, written to %s" % (rd["format"], "" if rd["indent"] is None else " -J %d" % rd["indent"],
                                               "STDOUT" if rd["to"] == "stdout" else "--%s FILE%s" % (rd["to"], rd["ext"]))
        desc = "%s of %s with %s under %s (yaml-merge main, %s)" % (mode, [c05._show(d) for d in c["lhs"]], [c05._show(d) for d in c["rhs"]],
                                                                   json.dumps(c["cfg"], sort_keys=True), argv_desc)
        if "oom" in im or mo.get("err") == "outOfModel":
            stats["oom"] += 1
            continue
        if "err" in im:
            if im["err"] != "config" and len(findings) < 40:
                findings.append(("violation", "%s@%s" % (im["err"], im.get("site", "?")), "%s raised %s at %s" % (desc, im["err"], im.get("site")), dict(c, impl=im)))
            continue
        cls = render_class(rd, im.get("as"))
        k = "render:%s:%s" % (mode, cls)
        hist[k] = hist.get(k, 0) + 1
        if im["state"] != 0:
            if mo.get("state") == 0 and len(findings) < 40:
                findings.append(("violation", "state:%s:impl=%d,model=0:render" % (mode, im["state"]),
                                 "%s ended with state %d; every pairwise merge is defined, the mode defines state 0" % (desc, im["state"]), dict(c, impl=im, model=mo)))
            continue
        n, want_n = len(im["docs"]), expected_count(mode, len(c["lhs"]), len(c["rhs"]))
        if n != want_n:
            if len(findings) < 40:
                findings.append(("violation", "count:%s:%s" % (mode, cls),
                                 "%s wrote %d document(s) %r; the mode and the stream lengths define %d" % (desc, n, im.get("text"), want_n),
                                 dict(c, impl=im, model=mo)))
            continue
        if mo.get("state") != 0 or "docs" not in mo:
            if "state" in mo and mo["state"] != 0 and len(findings) < 40:
                findings.append(("violation", "state:%s:impl=0,model=%d:render" % (mode, mo["state"]),
                                 "%s ended with state 0; a pairwise merge is impossible, the mode defines state %d" % (desc, mo["state"]), dict(c, impl=im, model=mo)))
            continue
        want = [cc.plain_json(x) for x in mo["docs"]]
        if want != [cc.plain_json(x) for x in c["lhs"]][:len(want)] or len(want) != len(c["lhs"]):
            nontrivial += 1
        if im["docs"] != want and len(findings) < 40:
            findings.append(("violation", "docs:%s:%s" % (mode, cls),
                             "%s wrote %s; the mode defines %s" % (desc, json.dumps(im["docs"]), json.dumps(want)), dict(c, impl=im, model=mo)))
    return stats, findings, [], nontrivial, hist


def expected_count(mode, nl, nr):
    return 1 if mode == "condense_all" else (max(nl, nr) if mode == "merge_across" else nl)


def judge(case, im, mo):
    """mo None: the case's rule paths are outside the model — only the direct checks on the real code are made."""
    mode, L, R, cfg, how = case["mode"], case["lhs"], case["rhs"], case["cfg"], case["how"]
    desc = "%s of %s with %s under %s (%s)" % (mode, [c05._show(d) for d in L], [c05._show(d) for d in R],
                                               json.dumps(cfg, sort_keys=True), how)
    if how == "main-empty":
        desc = "%s of the files %s under %s (yaml-merge main)" % (mode, [
            ("<no document: %r>" % t) if not f else ([c05._show(d) for d in f] if t is None else "<%r>" % t)
            for f, t in zip(case["files"], case["texts"])], json.dumps(cfg, sort_keys=True))
    out = []
    if "oom" in im or (mo is not None and mo.get("err") == "outOfModel"):
        return None
    if "err" in im and im["err"] != "config":
        out.append(("violation", "%s@%s" % (im["err"], im.get("site", "?")), "%s raised %s at %s" % (desc, im["err"], im.get("site"))))
        return out
    if mo is None:
        if "err" not in im and im["state"] == 0 and how != "main-multi":
            n = len(im["docs"])
            want_n = expected_count(mode, len(L), len(R))
            if n != want_n:
                out.append(("violation", "count:%s" % mode, "%s left %d documents; the mode and the stream lengths define %d" % (desc, n, want_n)))
        return out
    if "err" in im or "err" in mo:
        if im.get("err") != mo.get("err"):
            out.append(("disagreement", "uncaught:%s-vs-%s" % (im.get("err"), mo.get("err")), "%s: impl %s, model %s" % (
                desc, im.get("err", "state %s" % im.get("state")), mo.get("err", "state %s" % mo.get("state")))))
        return out
    if how == "main-empty":
        if mode == "matrix_merge" and not case["files"][0]:
            return "matrix-empty-first"
        full = [f for f in case["files"] if f]
        if im["state"] == 0:
            n = len(im["docs"])
            want_n = 1 if mode == "condense_all" else (max(len(f) for f in full) if mode == "merge_across" else len(full[0]))
            if n != want_n:
                out.append(("violation", "count:%s:zero-document-file" % mode,
                            "%s left %d documents; the mode and the stream lengths %s define %d" % (
                                desc, n, [len(f) for f in case["files"]], want_n)))
                return out
    elif im["state"] == 0 and how != "main-multi":
        n = len(im["docs"])
        want_n = expected_count(mode, len(L), len(R))
        if n != want_n:
            out.append(("violation", "count:%s" % mode, "%s left %d documents; the mode and the stream lengths define %d" % (desc, n, want_n)))
            return out
    if mo["state"] != im["state"]:
        if mo["state"] == 0:
            out.append(("violation", "state:%s:impl=%d,model=0" % (mode, im["state"]),
                        "%s ended with state %d; every pairwise merge is defined, the mode defines state 0" % (desc, im["state"])))
        elif im["state"] == 0:
            out.append(("violation", "state:%s:impl=0,model=%d" % (mode, mo["state"]),
                        "%s ended with state 0; a pairwise merge is impossible, the mode defines state %d" % (desc, mo["state"])))
        elif mode == "merge_across":
            out.append(("disagreement", "state:%s:impl=%d,model=%d" % (mode, im["state"], mo["state"]),
                        "%s: state impl %d, model %d" % (desc, im["state"], mo["state"])))
        else:
            # CONDENSE_ALL and MATRIX_MERGE go on after a failed pairwise merge, with a left-hand document that
            # the failed merge has partly changed (the model keeps it unchanged); both sides report failure, no
            # output is written, only which later step failed last may differ.  Counted, not judged.
            return "after-failure"
        return out
    if mo["state"] != 0:
        return out
    if im["docs"] == mo["docs"]:
        return out
    if len(im["docs"]) != len(mo["docs"]) or not all(mg.content_eq(a, b) for a, b in zip(im["docs"], mo["docs"])):
        out.append(("violation", "docs:%s" % mode, "%s gave %s; the mode defines %s" % (
            desc, [c05._show(d) for d in im["docs"]], [c05._show(d) for d in mo["docs"]])))
    else:
        out.append(("disagreement", "interleaving", "%s: key interleaving differs: impl %s, model %s" % (
            desc, [c05._show(d) for d in im["docs"]], [c05._show(d) for d in mo["docs"]])))
    return out


def run_cases(cases):
    drv = core.Driver()
    reqs, prepared = [], []
    stats = {"n": 0, "oom": 0}
    for c in cases:
        try:
            alldocs = c["lhs"] + c["rhs"] + [d for f in c.get("files", []) for d in f]
            mc = mg.model_cfg(c["cfg"], alldocs)
        except codec.OutOfModel:
            stats["oom"] += 1
            continue
        if c["how"] == "main-empty":
            reqs.append({"op": "C18.main", "mode": c["mode"], "files": [f for f in c["files"] if f], "cfg": mc})
        elif c["how"].startswith("main"):
            reqs.append({"op": "C18.main", "mode": c["mode"], "files": c["files"], "cfg": mc})
        else:
            reqs.append({"op": "C18.docs", "mode": c["mode"], "lhs": c["lhs"], "rhs": c["rhs"], "cfg": mc})
        prepared.append(c)
    model = drv.ask(reqs)
    # rule/key paths that the real Processor does not resolve segment by segment against some right-hand document
    # (key pass-through into an array of hashes, set members, ...) are outside the model's `resolve`: the real code is
    # still run and checked directly (exceptions, document count); the model's answer is not compared.
    model = [mo if rules_in_model(c) else None for c, mo in zip(prepared, model)]
    findings, samples, hist = [], [], {}
    nontrivial = 0
    for c, mo in zip(prepared, model):
        if c["how"].startswith("main"):
            im = impl_main(c["mode"], c["files"], c["cfg"], texts=c.get("texts"))
        else:
            im = impl_docs(c["mode"], c["lhs"], c["rhs"], c["cfg"], c["how"])
        stats["n"] += 1
        key = "case:%s:%dx%d:%s" % (c["mode"], len(c["lhs"]), len(c["rhs"]), "main" if c["how"].startswith("main") else c["how"])
        if c["how"] == "main-empty":
            key = "case:%s:zero-document-files-at:%s" % (c["mode"], "".join("0" if not f else "d" for f in c["files"]))
        hist[key] = hist.get(key, 0) + 1
        st = "state:%s" % (im.get("state") if "state" in im else im.get("err", "oom"))
        hist[st] = hist.get(st, 0) + 1
        j = judge(c, im, mo)
        if mo is None:
            stats["oom"] += 1
            hist["rule_path_not_plain(direct checks only)"] = hist.get("rule_path_not_plain(direct checks only)", 0) + 1
        elif j is None:
            stats["oom"] += 1
        if j is None:
            continue
        if j == "matrix-empty-first":
            hist["matrix_zero_document_first_file_crash_check_only"] = hist.get("matrix_zero_document_first_file_crash_check_only", 0) + 1
            continue
        if j == "after-failure":
            hist["state_differs_after_first_failure"] = hist.get("state_differs_after_first_failure", 0) + 1
            continue
        if im.get("state") == 0 and im.get("docs") and im["docs"][:len(c["lhs"])] != c["lhs"]:
            nontrivial += 1
            if not samples and len(c["lhs"]) > 1 and len(c["rhs"]) > 1:
                samples.append({"case": {k: c[k] for k in ("mode", "lhs", "rhs", "cfg", "how")}, "impl": im, "model": mo})
            if c["how"] == "main-empty" and len(samples) < 2 and len(c["lhs"]) > 1 and not c["files"][-1]:
                samples.append({"case": {k: c[k] for k in ("mode", "files", "texts", "cfg", "how")}, "impl": im, "model": mo})
        for kind_, sig, what in j:
            if len(findings) < 40:
                findings.append((kind_, sig, what, dict(c, impl=im, model=mo)))
    return stats, findings, samples, nontrivial, hist


def _job(job):
    tag = job[0]
    if tag == "RAND":
        _t, seed, n, p_file, p_main = job
        rng = random.Random(seed)
        cases = []
        for i in range(n):
            nl, nr = 1 + (i % 4), 1 + ((i // 4) % 4)
            mode = MODES[(i // 16) % 3]
            L, R = rand_streams(rng, nl, nr)
            cfg = rand_cfg(rng, R)
            x = rng.random()
            how = "mem"
            files = []
            if x < p_main:
                if rng.random() < 0.3:
                    extra = rand_streams(rng, rng.randint(1, 3), 1)[0]
                    files = [L, R, extra]
                    how = "main-multi"
                elif rng.random() < 0.2:
                    files = [L]
                    R = []
                    how = "main-multi"
                else:
                    files = [L, R]
                    how = "main"
                if not all(file_safe(f) for f in files):
                    how, files = "mem", []
                    if not R:
                        R = [mg.S(None)]
            elif x < p_main + p_file:
                how = "file" if file_safe(R) else "mem"
            cases.append({"mode": mode, "lhs": L, "rhs": R, "cfg": cfg, "how": how, "files": files})
        return run_cases(cases)
    if tag == "RENDER":
        rng = random.Random(job[1])
        return run_render([render_case(rng, job[3] + i) for i in range(job[2])])
    if tag == "EMPTY":
        return run_cases(empty_file_cases(random.Random(job[1]), job[2]))
    if tag == "ANCH":
        rng = random.Random(job[1])
        stats, findings, hist, nontrivial = {"n": 0, "oom": 0}, [], {}, 0
        for i in range(job[2]):
            c = anchored_case(rng, i)
            v, nt = run_anchored(c)
            stats["n"] += 1
            nontrivial += 1 if nt else 0
            k = "anchored:%s:mergeat=%s" % (c["mode"], "root" if c["mergeat"] == "/" else "below-root")
            hist[k] = hist.get(k, 0) + 1
            for kind_, sig, what in v:
                if len(findings) < 40:
                    findings.append((kind_, sig, what, c))
        return stats, findings, [], nontrivial, hist
    return run_cases(job[1])


CORPUS = [
    {"mode": "matrix_merge", "lhs": [mg.M(), mg.M()], "rhs": [mg.M(("x", mg.L(mg.S(1)))), mg.M(("x", mg.L(mg.S(2))))], "cfg": {}},
    {"mode": "matrix_merge", "lhs": [mg.M(), mg.M()], "rhs": [mg.M(("x", mg.M(("a", mg.S(1))))), mg.M(("x", mg.M(("b", mg.S(2)))))], "cfg": {}},
    {"mode": "merge_across", "lhs": [mg.M(("a", mg.S(1)))], "rhs": [mg.M(("b", mg.S(2))), mg.M(("c", mg.S(3))), mg.S(None)], "cfg": {}},
    {"mode": "merge_across", "lhs": [mg.M(("a", mg.S(1))), mg.L(), mg.S(None)], "rhs": [mg.M(("b", mg.S(2)))], "cfg": {}},
    {"mode": "condense_all", "lhs": [mg.M(("a", mg.S(1))), mg.M(("b", mg.S(1))), mg.M(("c", mg.S(1)))], "rhs": [mg.M(("d", mg.S(2))), mg.M(("a", mg.S(3)))], "cfg": {}},
    {"mode": "condense_all", "lhs": [mg.M(("a", mg.S(1))), mg.L(mg.S(1))], "rhs": [mg.M(("d", mg.S(2)))], "cfg": {}},
    {"mode": "condense_all", "lhs": [mg.M(("a", mg.S(1)))], "rhs": [mg.L(mg.S(1)), mg.M(("d", mg.S(2)))], "cfg": {}},
    {"mode": "merge_across", "lhs": [mg.M(("a", mg.S(1))), mg.M()], "rhs": [mg.L(mg.S(1)), mg.M(("d", mg.S(2)))], "cfg": {}},
    {"mode": "matrix_merge", "lhs": [mg.M(("a", mg.S(1))), mg.L()], "rhs": [mg.L(mg.S(1)), mg.M(("d", mg.S(2)))], "cfg": {}},
]


def run(chk: core.Check):
    core.use_repo()
    tier = chk.tier
    if chk.replay_in:
        rp = json.load(open(chk.replay_in))
        c = rp.get("case", rp)
        if "mode" not in c:
            print("replay: nothing to run for", json.dumps(c)[:300])
            return chk
        if c.get("how") == "render":
            res = run_render([c])
            for kind_, sig, what, case in res[1]:
                print("replay:", sig, "::", what[:800])
                chk.violation(sig, what, case)
            chk.evaluations += 1
            return chk
        if c.get("how") == "anchored":
            v, _nt = run_anchored(c)
            for kind_, sig, what in v:
                print("replay:", sig, "::", what[:800])
                chk.violation(sig, what, c)
            chk.evaluations += 1
            return chk
        case = {"mode": c["mode"], "lhs": c["lhs"], "rhs": c["rhs"], "cfg": c.get("cfg", {}), "how": c.get("how", "mem"), "files": c.get("files", []),
                "texts": c.get("texts")}
        results = [run_cases([case])]
        for f in results[0][1]:
            print("replay:", f[1], "::", f[2][:600])
    else:
        from yamlpath.merger.enums import MultiDocModes
        chk.evaluations += 1
        if sorted(n.lower() for n in MultiDocModes.get_names()) != sorted(MODES):
            chk.disagreement("table:MultiDocModes", "mode names are %s" % MultiDocModes.get_names(), {"enum": "MultiDocModes"})
        jobs = [("CORPUS", [dict(c, how=h, files=[]) for c in CORPUS for h in ("mem", "file")] +
                 [dict(c, how="main", files=[c["lhs"], c["rhs"]]) for c in CORPUS])]
        n = int(os.environ.get("YPV_NRAND") or (36000 if tier == "quick" else 400000))   # override: developer runs only
        per = 480
        p_file, p_main = (0.05, 0.04) if tier == "quick" else (0.05, 0.04)
        jobs += [("RAND", chk.seed * 7919 + i, per, p_file, p_main) for i in range(n // per)]
        n_empty = 4 if tier == "quick" else 12
        jobs += [("EMPTY", chk.seed * 104729 + 17 + i, 2) for i in range(n_empty)]
        n_anch = 1800 if tier == "quick" else 18000
        jobs += [("ANCH", chk.seed * 15485863 + 5 + i, 60) for i in range(n_anch // 60)]
        n_rend = int(os.environ.get("YPV_NRENDER") or (1920 if tier == "quick" else 19200))
        jobs += [("RENDER", chk.seed * 32452843 + 11 + i, 96, i * 96) for i in range(n_rend // 96)]
        chk.extra_cov["output_rendering_runs"] = n_rend
        chk.extra_cov["anchored_below_root_runs"] = n_anch
        chk.extra_cov["zero_document_file_runs"] = n_empty * 2 * 3 * (2 + 6 + 14)
        chk.extra_cov["stream_pairs"] = n
        chk.extra_cov["coverage_note"] = "every (|L|,|R|) in 1..4 x 1..4 and every mode occurs in each block of 48 consecutive cases"
        results = core.pmap(_job, jobs)
    for stats, findings, samples, nontrivial, hist in results:
        chk.evaluations += stats["n"]
        chk.out_of_model += stats["oom"]
        chk.nontrivial_extra += nontrivial
        for k, v in hist.items():
            chk.count(k, v)
        for s in samples:
            chk.sample(s)
        for kind_, sig, what, case in findings:
            if kind_ == "violation":
                chk.violation(sig, what, case)
            else:
                chk.disagreements_checked += 1
                chk.disagreement(sig, what, case)
    return chk
