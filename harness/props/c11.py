"""C11 — a merge aimed at a path changes only what lies under that path."""
from __future__ import annotations

import io
import json
import os
import random
import shutil
import sys
import tempfile

from harness import core, codec
from harness.props import merging as mg
from harness.props import editing as ed

RULE = ("left documents x merge paths x right documents x policies.  Small part: every left document with <= 3 nodes "
        "(thorough: also all with 4 nodes against the <= 2-node right documents) over scalars null 1 2 'a' true 1.0, keys a b, set members a b 1, each with its path "
        "vocabulary {root, the exact path of every node, the wildcard over the children of every container (multiple "
        "targets), a missing key / index below every container (creatable: one and two segments, list padding), a key below "
        "every scalar and a search that matches nothing (not creatable)} x every right document with <= 2 nodes (every root kind; "
        "thorough: also every one with 3 nodes) x 4 of the 180 hash x array x aoh x set combinations rotating through all of them "
        "(quick) / 60 of the 180 for the <= 2-node right documents (thorough: every hash x array x aoh combination for every left x path x right, "
        "the set policy rotating through its 3 values from case to case; all 180 = 23.6 M cases made the thorough run 37 min).  Random part: left documents of up to ~25 nodes (maps, lists, arrays-of-hashes, sets, "
        "empty containers), a target chosen in them, merge paths {exact in dot or slash notation, wildcard / search / "
        "attribute-search / slice / traversal variants yielding several targets, missing creatable tails of 1-3 segments, "
        "not creatable}, right documents derived from the targeted node (shared keys, kind clashes) or random of every root "
        "kind incl. re-typable text, random configurations (command line, [defaults] through a real INI file, [rules] and "
        "[keys] written against the LEFT document below the merge path, i.e. re-based by strip_path_prefix, or against the "
        "right document).  The target addresses are obtained by running the real optional query on a twin of the left "
        "document (straight KEY/INDEX paths are followed and created by the model itself).  Every case runs "
        "Merger(l, mergeat=path).merge_with(r) on freshly built ruamel documents under a timer.  Direct checks on the real "
        "result: FRAME — every node of the left document whose address neither lies under nor above a target is unchanged, "
        "and every container above an existing target keeps its kind, key list / length; TARGETS — the node at every target "
        "address equals the C05 model merge (mergeWith, the root merge proved against its specification) of the node that "
        "stood there and the right document; a created path holds the right document; outcome class (document, merge error, "
        "YAML Path error) equals the model's, any other exception is a violation.  Correspondence: Merger.data equals the "
        "Lean mergeAt exactly.  A sample runs through the yaml-merge main() with real files: an output file exists iff the "
        "merge succeeded; 600 more runs use a MULTI-DOCUMENT left file (2-4 documents) in each --multi-doc-mode (condense_all, "
        "merge_across, matrix_merge) at a merge path that matches nothing and cannot be created (a Scalar in the way, a search that "
        "matches nothing, an index into a Scalar) in exactly one document - the first, a middle or the last one - (also none, two, "
        "all): when the library's own Merger refuses one of the merges the run consists of, the tool must exit non-zero and write no "
        "output file; when all succeed, exit 0 and the file.  Integer keys: left documents in which mapping keys are integers (0 1 2 22 443 8080 -1), merge paths "
        "written with the digits that end at / pass through such a key (the node named is the single target), right documents "
        "of every root kind; judged like every other case (FRAME incl. the key lists of the containers above the target — no new "
        "sibling key —, TARGETS, outcome class).  Several parents, missing final key: a list or mapping of 2-5 records (some "
        "holding the key already, some children that are no mappings) standing at the root / below string or integer keys, a "
        "prefix that selects several of them (attribute / key-name / regex / has_child searches, `*`), a tail of one or two "
        "missing keys, right documents that are mappings holding arrays / arrays-of-hashes, arrays, arrays-of-hashes, scalars; "
        "judged on the real code alone: where the real optional query (run on a twin) creates the tail, the merged document "
        "holds exactly the right-hand document there, and apart from the created nodes (and the targets that existed, which are "
        "not judged in this part) it equals the left document as data; the merge must not be refused.  Sequences on ONE Merger / MergerConfig (12 000 quick): one or two earlier steps - a merge at the root (often under a right / unique policy, which replaces the root object), an aimed merge, or an assignment to Merger.data - with mergeat and policies rewritten per step, then an ordinary aimed merge judged like every other case on the document that step starts from (computed with a fresh Merger per step; sequences that leave one container object at two places are counted out of model).  Empty left document with a path through a search that nothing can match (600 API cases, 80 yaml-merge runs with an empty left file): a merge / YAML Path error, non-zero exit and no output file are demanded.  Created tails include keys with dots (dot notation escapes them); a Hash above a created node may gain only the one key the path names.  strip_path_prefix is compared with the model on a grid of key paths.  Random part: 160 000 cases "
        "(quick) / 300 000 (thorough; trimmed from 2 000 000 - a random case costs ~12 small-layer cases and the thorough run needed "
        "> 14 000 CPU-seconds, > 45 min on the shared machine; the complete small layers are untouched).  distinct_nontrivial = "
        "distinct (l, path, r, policy) cases whose result differs from the left document.")

SCAL_R = [1, 5, 0, "x", "b", "new", True, False, 2.5, "", "5", "true", "1.50", "-3", "False", "long text"]


# --------------------------------------------------------------------------- small helpers

def get_at(j, addr):
    for t, v in addr:
        if j is None:
            return None
        if t == "k":
            if j["k"] != "map":
                return None
            for kk, c in j["e"]:
                if kk == v and isinstance(kk, str) == isinstance(v, str):
                    j = c
                    break
            else:
                return None
        elif t == "i":
            if j["k"] != "seq" or not (0 <= v < len(j["i"])):
                return None
            j = j["i"][v]
        else:
            return None
    return j


def all_nodes(j, pre=()):
    out = [(pre, j)]
    if j["k"] == "map":
        for k, v in j["e"]:
            out += all_nodes(v, pre + (("k", k),))
    elif j["k"] == "seq":
        for i, v in enumerate(j["i"]):
            out += all_nodes(v, pre + (("i", i),))
    return out


def tup(addr):
    return tuple((a[0], a[1]) for a in addr)


def is_prefix(a, b):
    return len(a) <= len(b) and tuple(b[:len(a)]) == tuple(a)


def seg_path(segs, slash=False):
    if not segs:
        return "/"
    if slash:
        out = ""
        for t, v in segs:
            out += ("/%s" % str(v).replace("/", "\\/")) if t == "k" else ("[%d]" % v)
        return out if out.startswith("/") else "/" + out
    out = ""
    for t, v in segs:
        if t == "k":
            out += ("." if out else "") + str(v).replace(".", "\\.")
        else:
            out += "[%d]" % v
    return out


def show(d):
    return mg_show(d)


def mg_show(d):
    def plain(j):
        k = j["k"]
        if k == "map":
            return {(str(kk) if isinstance(kk, int) else "'%s'" % kk if kk.lstrip("-").isdigit() else kk): plain(v)
                    for kk, v in j["e"]}
        if k == "seq":
            return [plain(v) for v in j["i"]]
        if k == "set":
            return {"!!set": list(j["m"])}
        return codec.json_to_plain(j)
    return json.dumps(plain(d))


def shape(j):
    """What a container above a target must keep: kind and key list / length."""
    if j is None:
        return None
    if j["k"] == "map":
        return ("map", tuple((type(k).__name__, k) for k, _ in j["e"]))
    if j["k"] == "seq":
        return ("seq", len(j["i"]))
    return (j["k"],)


# --------------------------------------------------------------------------- the real code

def real_cfg(case):
    """The policy JSON handed to the real MergerConfig: rules written against the left document
    (lrules / lkeys: lists of key names) become absolute key paths."""
    cfg = dict(case.get("cfg") or {})
    rules = list(cfg.get("rules") or [])
    keys = list(cfg.get("keys") or [])
    for ks, nm in case.get("lrules") or []:
        rules.append([[["k", k] for k in ks], nm])
    for ks, nm in case.get("lkeys") or []:
        keys.append([[["k", k] for k in ks], nm])
    if rules:
        cfg["rules"] = rules
    if keys:
        cfg["keys"] = keys
    return cfg


def plan_for(case):
    """What the optional query does on a twin of the left document.
    -> ("segs", segs) | ("targets", addrs) | ("skip", why) | ("qerr", class)."""
    if case.get("targets") is not None:
        # an exact KEY / INDEX path written by the generator (through integer keys): the node it names is the target
        return ("targets", case["targets"])
    if case.get("segs") is not None:
        return ("segs", case["segs"])
    from yamlpath import Processor
    from yamlpath.wrappers import NodeCoords
    lj = case["l"]
    if lj["k"] == "null":
        return ("skip", "null-lhs-nonstraight")
    twin = ed.build(lj)
    rtwin = ed.build(case["r"])
    table = codec.build_addr_table(twin)
    proc = Processor(core.quiet_logger(), twin)
    res = ed.guarded(lambda: list(proc.get_nodes(case["path"], default_value=rtwin)))
    if res[0] != "ok":
        return ("qerr", res[0])
    try:
        if ed.snapshot(twin) != lj:
            return ("skip", "query-created-nodes")
        addrs = []
        for nc in res[1]:
            if isinstance(nc.node, NodeCoords) or (isinstance(nc.node, list) and nc.node and isinstance(nc.node[0], NodeCoords)):
                return ("skip", "virtual-result")
            ad = ed.addr_of(nc, table)
            if get_at(lj, ad) != codec.node_to_json(nc.node, anchors=False):
                return ("skip", "not-located")      # (parent, parentref) does not lead to the node: C02's subject
            addrs.append(ad)
    except codec.OutOfModel as e:
        return ("skip", "oom:" + str(e)[:30])
    ts = [tup(a) for a in addrs]
    if len(set(ts)) != len(ts):
        return ("skip", "duplicate-targets")
    for a in ts:
        for b in ts:
            if a != b and is_prefix(a, b):
                return ("skip", "nested-targets")
        if a and a[-1][0] == "m":
            return ("skip", "set-member-target")
    return ("targets", addrs)


def shared_containers(data):
    """Addresses (pairs) at which one non-empty container OBJECT occurs twice in the result."""
    seen, out = {}, []

    def walk(n, addr):
        if isinstance(n, (dict, list)) and not isinstance(n, (str, bytes)):
            if len(n) > 0:
                if id(n) in seen:
                    out.append([seen[id(n)], addr])
                    return
                seen[id(n)] = addr
            if isinstance(n, dict):
                for k, v in n.items():
                    walk(v, addr + [["k", k if isinstance(k, (str, int)) else str(k)]])
            else:
                for i, v in enumerate(n):
                    walk(v, addr + [["i", i]])
    walk(data, [])
    return out[:3]


def aliased_containers(data):
    """Does one container object (empty ones included) stand at two places of the document?"""
    seen = set()

    def walk(n):
        if isinstance(n, (dict, list, set)) and not isinstance(n, (str, bytes)):
            if id(n) in seen:
                return True
            seen.add(id(n))
            kids = n.values() if isinstance(n, dict) else (n if isinstance(n, list) else ())
            return any(walk(v) for v in kids)
        return False
    return walk(data)


def impl_run(case, via="kw"):
    """Merger(l, mergeat=path).merge_with(r): {"ok": doc} | {"err": class, "site"} | {"oom": 1}."""
    from yamlpath.merger import Merger

    def go():
        if case.get("pre"):
            return go_seq()
        mc = mg.make_config(real_cfg(case), via, extra_args={"mergeat": case["path"]})
        m = Merger(mc.log, codec.json_to_ruamel(case["l"]), mc)
        m.merge_with(codec.json_to_ruamel(case["r"]))
        return codec.node_to_json(m.data, anchors=False), shared_containers(m.data)

    def go_seq():
        # ONE Merger and ONE MergerConfig for the whole sequence: the earlier steps (case["pre"]: merges with their own
        # --mergeat / policies written into the same args namespace, or an assignment to Merger.data), then the judged step
        names = {"hash": "hashes", "array": "arrays", "aoh": "aoh", "set": "sets"}
        steps = list(case["pre"]) + [case]
        first = steps[0]
        mc = mg.make_config({k: v for k, v in (first.get("cfg") or {}).items() if k in names}, "kw",
                            extra_args={"mergeat": first.get("path", "/")})
        m = Merger(mc.log, codec.json_to_ruamel(case["l0"]), mc)
        for st in steps:
            if "setdata" in st:
                m.data = codec.json_to_ruamel(st["setdata"])
                continue
            for k, attr in names.items():
                if (st.get("cfg") or {}).get(k):
                    setattr(mc.args, attr, st["cfg"][k])
                elif hasattr(mc.args, attr):
                    delattr(mc.args, attr)
            mc.args.mergeat = st["path"]
            if st is case and aliased_containers(m.data):
                # an earlier step left ONE container object at two places of the document (padding, records appended by
                # reference): a document the value model cannot describe - counted, not judged
                raise codec.OutOfModel("aliased containers after the earlier steps")
            m.merge_with(codec.json_to_ruamel(st["r"]))
        return codec.node_to_json(m.data, anchors=False), shared_containers(m.data)
    try:
        res = ed.guarded(go, 5.0)
    except codec.OutOfModel:
        return {"oom": 1}
    if res[0] == "ok":
        return {"ok": res[1][0], "shared": res[1][1]}
    if res[0] == "timeout":
        return {"err": "timeout"}
    e = res[2]
    if isinstance(e, codec.OutOfModel):
        return {"oom": 1}
    if isinstance(e, NameError) and res[1].endswith(":from_str"):
        return {"err": "config"}
    return {"err": res[0], "site": res[1]}


def model_req(case, plan):
    docs = [case["l"], case["r"]]
    cfg = mg.model_cfg(case.get("cfg") or {}, docs)
    req = {"op": "C11.mergeat", "l": case["l"], "r": case["r"], "cfg": cfg,
           "plan": {"segs": plan[1]} if plan[0] == "segs" else {"targets": plan[1]}}
    if case.get("lrules"):
        req["lrules"] = case["lrules"]
    if case.get("lkeys"):
        req["lkeys"] = case["lkeys"]
    if case.get("at") is not None:
        req["at"] = case["at"]
    return req


# --------------------------------------------------------------------------- judging

def err_family(s):
    return s.split(":")[0] if s else s


def judge(case, plan, im, mo_full):
    """-> None (out of model) | list of (kind, sig, what)."""
    mo = mo_full["model"]
    l, r = case["l"], case["r"]
    desc = "%s <- %s at '%s' under %s" % (show(l), show(r), case["path"], json.dumps(real_cfg(case), sort_keys=True))
    if case.get("pre"):
        desc += " [step %d on ONE Merger that started from %s; earlier steps: %s]" % (len(case["pre"]) + 1, show(case["l0"]), "; ".join(
            ("Merger.data = %s" % show(st["setdata"])) if "setdata" in st else
            ("merge_with(%s) at '%s' under %s" % (show(st["r"]), st["path"], json.dumps(st["cfg"], sort_keys=True))) for st in case["pre"]))
    if "oom" in im or mo.get("err") == "outOfModel":
        return None
    out = []
    if "err" in im and im["err"] not in ("merge", "ypath", "config"):
        out.append(("violation", "%s@%s" % (im["err"], im.get("site", "?")),
                    "merge %s raised %s at %s" % (desc, im["err"], im.get("site"))))
        return out
    if "err" in im:
        if "ok" in mo:
            out.append(("violation", "refused-%s:%s<-%s" % (im["err"], plan[0], mg.kind(r)),
                        "merge %s raised a %s error; the property defines the result %s" % (desc, im["err"], show(mo["ok"]))))
        elif err_family(mo["err"]) != im["err"]:
            out.append(("disagreement", "errclass:%s-vs-%s" % (im["err"], mo["err"]),
                        "merge %s: impl %s, model %s" % (desc, im["err"], mo["err"])))
        return out
    res = im["ok"]
    if "err" in mo:
        if r["k"] != "null":
            out.append(("violation", "accepted-%s:%s<-%s" % (err_family(mo["err"]), plan[0], mg.kind(r)),
                        "merge %s silently produced %s; the property demands a %s error" % (desc, show(res), mo["err"])))
        return out
    # ---- direct checks on the real result
    targets = mo_full.get("targets") or []
    taddrs = [tup(t["addr"]) for t in targets]
    if r["k"] != "null":
        for t in targets:
            a = tup(t["addr"])
            got = get_at(res, a)
            old = get_at(l, a) if l["k"] != "null" else None
            if t.get("fresh"):
                want = r
            else:
                c5 = t.get("c05")
                if not c5 or "ok" not in c5:
                    continue
                want = c5["ok"]
            if got is None:
                sig = "created-without-rhs" if t.get("fresh") else "target-gone"
                out.append(("violation", sig, "merge %s gave %s: nothing stands at the target %s; expected %s there" % (
                    desc, show(res), seg_path(a), show(want))))
                continue
            if got == want or mg.content_eq(got, want):
                continue
            if r["k"] == "str" and got["k"] in ("int", "float", "bool"):
                sig = "scalar-rhs-retyped"
            elif t.get("fresh"):
                sig = "created-without-rhs"
            elif im.get("shared") and len(targets) > 1:
                sig = "targets-share-rhs-nodes"
            elif old is not None and got == old:
                sig = "target-unchanged:%s<-%s" % (mg.kind(old), mg.kind(r))
            else:
                sig = "target-content:%s<-%s" % (mg.kind(old) if old is not None else "none", mg.kind(r))
            out.append(("violation", sig, "merge %s gave %s: the target %s holds %s; its policy-defined merge with the "
                        "right-hand document is %s" % (desc, show(res), seg_path(a), show(got), show(want))))
    if l["k"] != "null":
        fresh = any(t.get("fresh") for t in targets)
        for b, n in all_nodes(l):
            if r["k"] != "null" and any(is_prefix(t, b) for t in taddrs):
                continue
            above = r["k"] != "null" and any(is_prefix(b, t) for t in taddrs)
            got = get_at(res, b)
            if above and fresh and len(taddrs) == 1 and got is not None and got["k"] == n["k"] == "map":
                # creation: a Hash above the created node gains at most the ONE key the path names there, nothing else
                nxt = taddrs[0][len(b)]
                okeys = [(type(k).__name__, k) for k, _ in n["e"]]
                gkeys = [(type(k).__name__, k) for k, _ in got["e"]]
                extra = [k for k in gkeys if k not in okeys and not (nxt[0] == "k" and k == (type(nxt[1]).__name__, nxt[1]))]
                if extra:
                    out.append(("violation", "frame:stray-node-created", "merge %s gave %s: the Hash at %s above the created node %s "
                                "gained the key(s) %s, which the merge path does not name" % (
                                    desc, show(res), seg_path(b), seg_path(taddrs[0]), [k for _t, k in extra])))
                    break
            if above:
                if not fresh and shape(got) != shape(n):
                    out.append(("violation", "frame:spine-changed", "merge %s gave %s: the container at %s above the target "
                                "changed its keys / length" % (desc, show(res), seg_path(b))))
                    break
                continue
            if got != n:
                out.append(("violation", "frame:outside-changed", "merge %s gave %s: the node at %s lies outside every target "
                            "and was %s" % (desc, show(res), seg_path(b), show(n))))
                break
    if not out and im.get("shared") and plan[0] == "targets" and len(targets) > 1:
        a, b = im["shared"][0]
        out.append(("violation", "targets-share-rhs-nodes", "merge %s gave %s in which %s and %s are ONE object (dumped as "
                    "&id001 / *id001): a later change aimed at one of them changes the other" % (
                        desc, show(res), seg_path(tup(a)), seg_path(tup(b)))))
    if out:
        return out
    if res != mo["ok"] and r["k"] == "str" and retype_only(res, mo["ok"], r):
        # CPython hands out one object for equal short texts: `target_node is rhs` then holds for a
        # pre-existing equal Scalar and the (re-typing) set_value is skipped — inside the known
        # finding `scalar-rhs-retyped`, and here the real result is the demanded one
        return [("note", "retype-skipped-by-identity", "")]
    if res != mo["ok"]:
        out.append(("disagreement", "result-differs", "merge %s: impl %s, model %s" % (desc, show(res), show(mo["ok"]))))
    return out


def retype_only(a, b, r):
    """a and b differ only where a holds the text r and b a re-typed Scalar."""
    if a == b:
        return True
    if a["k"] != b["k"]:
        return a == r and b["k"] in ("int", "float", "bool")
    if a["k"] == "map":
        return len(a["e"]) == len(b["e"]) and all(x[0] == y[0] and retype_only(x[1], y[1], r) for x, y in zip(a["e"], b["e"]))
    if a["k"] == "seq":
        return len(a["i"]) == len(b["i"]) and all(retype_only(x, y, r) for x, y in zip(a["i"], b["i"]))
    return False


def run_cases(cases):
    """Worker: cases -> (stats, findings, samples, nontrivial keys, hist)."""
    drv = core.Driver()
    stats = {"n": 0, "oom": 0}
    hist = {}

    def cnt(k, n=1):
        hist[k] = hist.get(k, 0) + n
    prepared, reqs = [], []
    direct_findings = []
    for case in cases:
        if case.get("cat") == "emptyleft":
            judge_emptyleft(case, stats, cnt, direct_findings)
            continue
        if case.get("cat") == "mcreate":
            try:
                judge_mcreate(case, stats, cnt, direct_findings)
            except codec.OutOfModel:
                stats["oom"] += 1
                cnt("mcreate:skipped:oom")
            continue
        try:
            plan = plan_for(case)
        except Exception as e:  # noqa
            cnt("plan-failed:" + type(e).__name__)
            continue
        if plan[0] == "skip":
            stats["oom"] += 1
            cnt("skipped:" + plan[1].split(":")[0])
            continue
        if plan[0] == "qerr" and plan[1] not in ("ypath", "merge"):
            # the evaluator itself crashes on this path (C15's subject): not a merge outcome
            stats["oom"] += 1
            cnt("skipped:query-" + plan[1].split(":")[0])
            continue
        if plan[0] == "qerr":
            # the optional query itself fails (e.g. a search below a missing key): only the outcome
            # class of the real merge is judged
            im = impl_run(case, case.get("via", "kw"))
            stats["n"] += 1
            cnt("query-error")
            if "err" in im and im["err"] not in ("merge", "ypath", "config", "timeout"):
                prepared.append((case, plan, im, None))
            elif "ok" in im:
                prepared.append((case, plan, im, None))
            continue
        try:
            reqs.append(model_req(case, plan))
        except codec.OutOfModel:
            stats["oom"] += 1
            cnt("skipped:tv")
            continue
        prepared.append((case, plan, None, len(reqs) - 1))
    model = drv.ask(reqs) if reqs else []
    findings, samples, nontrivial = list(direct_findings), [], set()
    nontrivial.update(stats.pop("_nt", ()))
    for case, plan, im, mi in prepared:
        if mi is None:
            if "ok" in im:
                findings.append(("violation", "accepted-after-query-error",
                                 "the optional query for '%s' fails (%s) yet the merge produced %s" % (
                                     case["path"], plan[1], show(im["ok"])), dict(case, impl=im)))
            else:
                findings.append(("violation", "%s@%s" % (im["err"], im.get("site", "?")),
                                 "merge at '%s' raised %s at %s" % (case["path"], im["err"], im.get("site")), dict(case, impl=im)))
            continue
        mo = model[mi]
        im = impl_run(case, case.get("via", "kw"))
        stats["n"] += 1
        oc = "ok" if "ok" in im else ("oom" if "oom" in im else im["err"].split(":")[0])
        cnt("impl_outcome:" + oc)
        cnt("path:" + case.get("cat", "?"))
        cnt("rhs:" + mg.kind(case["r"]))
        nt = len(mo.get("targets") or [])
        cnt("targets:%s" % (nt if nt < 3 else "3+"))
        if case.get("lrules") or case.get("lkeys"):
            cnt("with_rebased_rules")
        if (case.get("cfg") or {}).get("rules"):
            cnt("with_rhs_rules")
        j = judge(case, plan, im, mo)
        if j is None:
            stats["oom"] += 1
            cnt("out-of-model")
            continue
        if "ok" in im and im["ok"] != case["l"]:
            nontrivial.add(json.dumps([case["l"], case["path"], case["r"], case.get("cfg")], sort_keys=True))
            if len(samples) < 1 and mg.size(case["l"]) > 4 and nt > 1:
                samples.append({"case": case, "impl": im, "model": mo["model"]})
        if "ok" in im and any(t.get("fresh") for t in mo.get("targets") or []):
            cnt("created")
        for kind_, sig, what in j:
            if kind_ == "note":
                cnt(sig)
                continue
            if len(findings) < 60:
                findings.append((kind_, sig, what, dict(case, impl=im, model=mo["model"])))
    return stats, findings, samples, len(nontrivial), hist


# --------------------------------------------------------------------------- generators

def vocab(l):
    """(category, path text, segs or None) for a small left document."""
    out = [("root", "/", [])]
    nodes = all_nodes(l)
    for a, n in nodes:
        segs = [[t, v] for t, v in a]
        if any(t == "k" and not isinstance(v, str) for t, v in a):
            continue
        if a:
            out.append(("exact", seg_path(segs), segs))
        if n["k"] in ("map", "seq"):
            kids = len(n["e"]) if n["k"] == "map" else len(n["i"])
            out.append(("wild" if kids != 1 else "wild1", (seg_path(segs) + ".*") if a else "*", None))
            out.append(("search-nomatch", (seg_path(segs) if a else "") + "[.=zz]", None))
        if n["k"] == "map":
            out.append(("missing", seg_path(segs + [["k", "z"]]), segs + [["k", "z"]]))
            out.append(("missing2", seg_path(segs + [["k", "z"], ["k", "y"]]), segs + [["k", "z"], ["k", "y"]]))
            out.append(("missing2", seg_path(segs + [["k", "z"], ["i", 0]]), segs + [["k", "z"], ["i", 0]]))
        elif n["k"] == "seq":
            m = len(n["i"])
            out.append(("missing", seg_path(segs + [["i", m]]), segs + [["i", m]]))
            out.append(("missing-pad", seg_path(segs + [["i", m + 1]]), segs + [["i", m + 1]]))
            out.append(("missing2", seg_path(segs + [["i", m], ["k", "y"]]), segs + [["i", m], ["k", "y"]]))
        elif n["k"] != "set":
            out.append(("below-scalar", seg_path(segs + [["k", "z"]]), segs + [["k", "z"]]))
    return out


def _exh_job(job):
    _tag, lefts, rights, npol, off = job
    cases = []
    i = off
    for l in lefts:
        for cat, path, segs in vocab(l):
            for r in rights:
                for p in range(1 if cat in ("below-scalar", "search-nomatch") else npol):
                    pol = mg.ALL_POLICIES[(i * npol + p * (180 // npol) + i // 7) % 180] if npol < 180 else mg.ALL_POLICIES[p]
                    cases.append({"l": l, "r": r, "path": path, "segs": segs, "cfg": pol, "cat": cat})
                i += 1
    return run_cases(cases)


def rand_left(rng):
    depth = rng.choice([2, 2, 3, 3])
    return mg.rand_doc(rng, depth, rng.choice(["map", "map", "map", "map", "aoh", "seq", "mixed"]))


def straight(a):
    return all(t == "i" or (isinstance(v, str) and v.isalnum() and not v.isdigit()) for t, v in a)


def rand_case(rng, l=None):
    l = rand_left(rng) if l is None else l
    nodes = [(a, n) for a, n in all_nodes(l) if straight(a)]
    a, n = rng.choice(nodes)
    if rng.random() < 0.6:
        conts = [(x, y) for x, y in nodes if y["k"] in ("map", "seq", "set")]
        if conts:
            a, n = rng.choice(conts)
    segs = [[t, v] for t, v in a]
    x = rng.random()
    cat, path, psegs = "exact", seg_path(segs, slash=rng.random() < 0.3), segs
    tnode = n
    if x < 0.30 or not a:
        if rng.random() < 0.1:
            cat, path, psegs, tnode = "root", "/", [], l
    elif x < 0.55:
        # several targets: siblings of the chosen node
        par = seg_path(segs[:-1])
        pn = get_at(l, a[:-1])
        opts = ["*", "[.=~/./]", "[.!=zz]", "**"]
        if pn["k"] == "seq":
            opts += ["[.>0]", "[.<2]", "[.=%s]" % rng.choice(["1", "a", "2"]), "*[id>0]", "[id=%s]" % rng.choice(mg.IDVALS),
                     "[has_child(id)]", "[!has_child(b)]", "[a=1]"]
        else:
            opts += ["[.^%s]" % rng.choice(["a", "b", "c", "i", "n", "k"]), "[has_child(a)]", "*[.=1]"]
        s = rng.choice(opts)
        if s.startswith("["):
            path = par + s if par != "/" else s
        else:
            path = (par + "." + s) if par != "/" else s
        cat, psegs = "multi", None
    elif x < 0.80:
        # missing creatable tail
        base, bn = segs, n
        if bn["k"] not in ("map", "seq"):
            base, bn = segs[:-1], get_at(l, a[:-1])
        tail = []
        cur = bn["k"]
        for d in range(rng.choice([1, 1, 2, 3])):
            if cur == "map":
                tail.append(["k", rng.choice(["z", "y", "zz", "new", "db.example.com", "v1.2", "z.y"])])
            else:
                m = len(bn["i"]) if (d == 0 and bn["k"] == "seq") else 0
                tail.append(["i", m + rng.choice([0, 0, 0, 1, 2])])
            cur = rng.choice(["map", "map", "seq"])
        psegs = base + tail
        cat, path, tnode = "missing", seg_path(psegs, slash=rng.random() < 0.3), None
    elif x < 0.90:
        # not creatable
        par = seg_path(segs)
        k = rng.random()
        if n["k"] in ("map", "seq") and k < 0.5:
            path, psegs = (par if par != "/" else "") + rng.choice(["[.=zz]", "[.=~/^zz/]", "[zz=1]"]), None
            cat = "nomatch"
        elif n["k"] not in ("map", "seq", "set"):
            psegs = segs + [["k", "z"]]
            path, cat = seg_path(psegs), "below-scalar"
        else:
            psegs = segs + ([["i", 0]] if n["k"] == "map" else [["k", "z"]]) if n["k"] != "set" else segs
            path, cat = seg_path(psegs), "wrong-kind"
        tnode = None
    # right-hand document
    y = rng.random()
    if tnode is not None and y < 0.6:
        r = mg.mutate(rng, tnode, 2)
    elif y < 0.75:
        r = mg.S(rng.choice(SCAL_R))
    elif y < 0.78:
        r = mg.S(None)
    else:
        r = mg.rand_doc(rng, rng.choice([0, 1, 1, 2]))
    if cat == "multi" and rng.random() < 0.5:
        kids = [c for c in (get_at(l, a[:-1])["e"] if get_at(l, a[:-1])["k"] == "map" else [[None, c] for c in get_at(l, a[:-1])["i"]])]
        if kids:
            r = mg.mutate(rng, rng.choice(kids)[1], 2) if rng.random() < 0.7 else r
    cfg = mg.rand_policy(rng, r, with_rules=False)
    case = {"l": l, "r": r, "path": path, "segs": psegs, "cfg": cfg, "cat": cat}
    # rules
    z = rng.random()
    raddrs = [(ra, rn) for ra, rn in mg.node_addrs(r) if all(t == "k" for t, _ in ra)]
    allkeys = psegs is not None and all(t == "k" for t, _ in psegs) and psegs
    if z < 0.30 and raddrs and allkeys:
        at = [v for _, v in psegs]
        lr, lk = [], []
        for ra, rn in rng.sample(raddrs, min(len(raddrs), rng.randint(1, 3))):
            nm = rng.choice(mg.valid_rule_names(rn)) if rng.random() < 0.93 else "bogus"
            lr.append([at + [v for _, v in ra], nm])
        if rng.random() < 0.25:
            # a rule path that merely shares a textual prefix with the merge path
            lr.append([at[:-1] + [at[-1] + "c"] + [rng.choice(mg.RKEYS)], rng.choice(["left", "right"])])
        aohs = [(ra, rn) for ra, rn in raddrs if rn["k"] == "seq" and rn["i"] and rn["i"][0]["k"] == "map"]
        if aohs and rng.random() < 0.6:
            ra, rn = rng.choice(aohs)
            lk.append([at + [v for _, v in ra], rng.choice(["id", "n", "a"])])
        case["at"], case["lrules"] = at, lr
        if lk:
            case["lkeys"] = lk
    elif z < 0.45 and raddrs:
        first = None
        if psegs:
            first = str(psegs[0][1])
        elif psegs is None:
            first = path.lstrip("/").split(".")[0].split("[")[0].split("/")[0]
        rules = []
        for ra, rn in rng.sample(raddrs, min(len(raddrs), rng.randint(1, 2))):
            if ra and str(ra[0][1]) == first:
                continue
            if not ra and path != "/":
                continue
            rules.append([ra, rng.choice(mg.valid_rule_names(rn))])
        if rules:
            case["cfg"] = dict(cfg, rules=rules)
    case["via"] = "ini" if (mg.needs_ini(case["cfg"]) or rng.random() < 0.03) else "kw"
    if mg.rules_have_dups(real_cfg(case)):
        case.pop("lrules", None)
        case.pop("lkeys", None)
        case["cfg"] = cfg
    return case


# --------------------------------------------------------------------------- sequences on one Merger

def seq_case(rng):
    """A short sequence of operations on ONE Merger (one MergerConfig, whose options are re-read per call): one or two
    earlier steps - a merge at the root (often under a 'right' policy or with a root of another kind, which replaces the
    root object), a merge at a path, or an assignment to Merger.data - and then an ordinary aimed merge, which is the one
    judged.  The document the judged step starts from (case["l"]) is computed step by step with a FRESH Merger per step."""
    l0 = rand_left(rng)
    cur, pre = l0, []
    for _ in range(rng.choice([1, 1, 2])):
        x = rng.random()
        if x < 0.25:
            d = mg.mutate(rng, cur, 2) if rng.random() < 0.6 else rand_left(rng)
            pre.append({"setdata": d})
            cur = d
            continue
        if x < 0.75:
            r = mg.mutate(rng, cur, 2)
            cfg = rng.choice([{"hash": "right"}, {"hash": "right"}, {"array": "right"}, {"array": "unique"}, {"aoh": "right"},
                              {"hash": "left"}, {}, {"hash": "deep", "array": "all"}])
            st = {"r": r, "path": "/", "segs": [], "cfg": cfg}
        else:
            c = rand_case(rng, cur)
            st = {"r": c["r"], "path": c["path"], "segs": c["segs"], "cfg": mg.rand_policy(rng, c["r"], with_rules=False)}
            st["cfg"] = {k: v for k, v in st["cfg"].items() if k in ("hash", "array", "aoh", "set")}
        im = impl_run({"l": cur, "r": st["r"], "path": st["path"], "cfg": st["cfg"]})     # a Merger of its own
        if "ok" not in im or im["ok"]["k"] == "null":
            raise ValueError("step refused")
        pre.append(st)
        cur = im["ok"]
    if cur["k"] not in ("map", "seq"):
        raise ValueError("scalar document")
    case = rand_case(rng, cur)
    case["cfg"] = {k: v for k, v in case["cfg"].items() if k in ("hash", "array", "aoh", "set")}
    for k in ("lrules", "lkeys", "at"):
        case.pop(k, None)
    case["via"] = "kw"
    case["l0"], case["pre"] = l0, pre
    case["cat"] = "seq:" + "+".join("setdata" if "setdata" in st else ("root" if st["path"] == "/" else "path") for st in pre)
    return case


# --------------------------------------------------------------------------- empty left document, path not creatable

NOWHERE = ["[zz=1]", "[zz=web]", "[.=zz]", "[.=~/^zz/]", "[has_child(zz)]", "[zz^w]", "[.^zz]"]


def emptyleft_case(rng):
    """An EMPTY left document and a merge path that ends in / passes through a search which nothing can match (the
    attribute zz / the value zz occur in no generated document) and which cannot be created."""
    pre = rng.choice(["", "", "items", "a.b", "/items", "/a/b", "x"])
    srch = rng.choice(NOWHERE)
    tail = rng.choice(["", "", "", ".c", ".c.d"])
    if pre.startswith("/"):
        tail = tail.replace(".", "/")
    path = pre + srch + tail
    r = rng.choice([mg.rand_doc(rng, rng.choice([1, 2]), rng.choice(["map", "map", "seq", "aoh", "set"])),
                    mg.M(("port", mg.S(8080))), mg.L(mg.S(1))])
    cfg = {k: v for k, v in mg.rand_policy(rng, r, with_rules=False).items() if k in ("hash", "array", "aoh", "set")}
    return {"l": mg.S(None), "r": r, "path": path, "segs": None, "cfg": cfg, "cat": "emptyleft"}


def judge_emptyleft(case, stats, cnt, findings):
    im = impl_run(case)
    stats["n"] += 1
    cnt("emptyleft:" + ("ok" if "ok" in im else ("oom" if "oom" in im else im["err"].split(":")[0])))
    if "oom" in im:
        stats["oom"] += 1
        return
    desc = "merge <empty document> <- %s at '%s' under %s" % (show(case["r"]), case["path"], json.dumps(case["cfg"], sort_keys=True))
    if "ok" in im:
        findings.append(("violation", "empty-left:accepted-unmatched-search",
                         "%s returned normally with %s; the path matches nothing and cannot be created: a merge error is demanded" % (
                             desc, show(im["ok"])), dict(case, impl=im)))
    elif im["err"] not in ("merge", "ypath"):
        findings.append(("violation", "%s@%s" % (im["err"], im.get("site", "?")), "%s raised %s at %s" % (desc, im["err"], im.get("site")),
                         dict(case, impl=im)))


# --------------------------------------------------------------------------- integer-keyed mappings

INTKEYS = [0, 1, 2, 22, 8080, -1, 443]


def intkeyed(rng, d, p=0.5):
    """A copy of d in which some mapping keys are integers (never next to their own digits as a text key)."""
    k = d["k"]
    if k == "map":
        es, used = [], set(str(x[0]) for x in d["e"])
        hit = rng.random() < 0.7
        for kk, v in d["e"]:
            nk = kk
            if hit and rng.random() < p:
                c = rng.choice(INTKEYS)
                if str(c) not in used:
                    used.add(str(c))
                    nk = c
            es.append([nk, intkeyed(rng, v, p)])
        return {"k": "map", "e": es}
    if k == "seq":
        return {"k": "seq", "i": [intkeyed(rng, v, p) for v in d["i"]]}
    return d


def plain_key(v):
    return isinstance(v, int) or (isinstance(v, str) and v.isalnum() and not v.isdigit())


def intkey_case(rng):
    """A left document with integer-keyed mappings, a merge path ending at / passing through such a key."""
    l = intkeyed(rng, rand_left(rng))
    nodes = [(a, n) for a, n in all_nodes(l) if a and all(t == "i" or plain_key(v) for t, v in a)
             and any(t == "k" and isinstance(v, int) for t, v in a)]
    ends = [(a, n) for a, n in nodes if a[-1][0] == "k" and isinstance(a[-1][1], int)]
    through = [(a, n) for a, n in nodes if not (a[-1][0] == "k" and isinstance(a[-1][1], int))]
    a, n = rng.choice(ends if ends and (rng.random() < 0.6 or not through) else through)
    segs = [[t, v] for t, v in a]
    y = rng.random()
    if y < 0.5:
        r = mg.mutate(rng, n, 2)
    elif y < 0.7:
        r = mg.S(rng.choice(SCAL_R))
    else:
        r = mg.rand_doc(rng, rng.choice([0, 1, 1, 2]), rng.choice(["map", "seq", "aoh", "scalar", None]))
    cfg = dict(rng.choice(mg.ALL_POLICIES)) if rng.random() < 0.7 else {}
    return {"l": l, "r": r, "path": seg_path(segs, slash=rng.random() < 0.5), "segs": None, "targets": [segs], "cfg": cfg,
            "cat": "int-end" if isinstance(a[-1][1], int) and a[-1][0] == "k" else "int-through", "via": "kw"}


# --------------------------------------------------------------------------- several parents, missing final key (direct)

MC_KEYS = ["type", "name", "id", "a", "b", "n"]
MC_TYPES = ["web", "web", "db", "web", "x"]


def mc_child(rng):
    x = rng.random()
    if x < 0.05:
        return mg.rand_scalar(rng)          # a non-hash child beside the hashes
    if x < 0.08:
        return mg.L(*[mg.rand_scalar(rng) for _ in range(rng.randint(0, 2))])
    es = []
    if rng.random() < 0.85:
        es.append(("type", mg.S(rng.choice(MC_TYPES))))
    if rng.random() < 0.6:
        es.append(("name", mg.S(rng.choice(["a", "b", "ab", "c"]))))
    for k in rng.sample(["id", "a", "b", "n"], rng.randint(0, 2)):
        es.append((k, mg.rand_doc(rng, rng.choice([0, 0, 1]))))
    if rng.random() < 0.12:
        es.append((rng.choice(["cfg", "new"]), mg.rand_doc(rng, rng.choice([0, 1, 1]))))     # the final key exists here
    rng.shuffle(es)
    return mg.M(*es)


def mc_rhs(rng):
    x = rng.random()
    arr = lambda: mg.L(*[mg.rand_scalar(rng) for _ in range(rng.randint(1, 3))])  # noqa
    aoh = lambda: mg.L(*[mg.rand_record(rng, 1) for _ in range(rng.randint(1, 2))])  # noqa
    if x < 0.5:
        es = [(rng.choice(["ports", "a", "l"]), arr() if rng.random() < 0.7 else aoh())]
        for k in rng.sample(["owner", "b", "id", "sub"], rng.randint(0, 2)):
            es.append((k, mg.rand_doc(rng, rng.choice([0, 1, 2]))))
        rng.shuffle(es)
        return mg.M(*es)
    if x < 0.68:
        return arr()
    if x < 0.82:
        return aoh()
    if x < 0.92:
        return mg.rand_doc(rng, rng.choice([1, 2]))
    return mg.S(rng.choice([1, 5, 0, "x", "new", True, False, 2.5, "long text"]))


def mcreate_case(rng):
    """Several parents selected by a wildcard / search prefix, the final key missing under (most of) them."""
    kids = [mc_child(rng) for _ in range(rng.randint(2, 5))]
    if rng.random() < 0.6:
        cont = mg.L(*kids)
    else:
        names = rng.sample(["k1", "k2", "web", "app", "s", "t", 1, 22], len(kids))
        cont = mg.M(*zip(names, kids))
    # where the container stands
    where = rng.choice([[], ["servers"], ["servers"], ["x", "apps"], [8080], ["x", 1]])
    l = cont
    for k in reversed(where):
        sib = [(s, mg.rand_doc(rng, rng.choice([0, 1, 2]))) for s in rng.sample(["other", "o2", "z9"], rng.randint(0, 2))]
        es = sib + [(k, l)]
        rng.shuffle(es)
        l = mg.M(*es)
    base = seg_path([["k", k] for k in where])
    if cont["k"] == "seq":
        sel = rng.choice(["*", "[type=web]", "[type=web]", "[type=web]", "[has_child(type)]", "[!has_child(cfg)]", "[name^a]",
                          "[type!=db]", "[.!=zz]", "[id>0]", "[type=~/^w/]"])
    else:
        sel = rng.choice(["*", "[.!=zz]", "[.!=zz]", "[.=~/./]", "[.^k]", "[.$2]", "[.!=web]", "[has_child(type)]"])
    if where and cont["k"] == "map" and rng.random() < 0.12:
        sel, prefix = "", base              # one parent, named exactly (possibly by an integer key)
    elif sel.startswith("[") or not where:
        prefix = (base if where else "") + sel
    else:
        prefix = base + "." + sel
    tail = rng.choice([["cfg"], ["cfg"], ["new"], ["new"], ["cfg", "sub"], ["z", "y"]])
    path = prefix + "." + ".".join(tail)
    slash = rng.random() < 0.3 and "[." not in sel and "=~" not in sel
    if slash:
        path = "/" + path.replace(".", "/")
    cfg = dict(rng.choice(mg.ALL_POLICIES)) if rng.random() < 0.6 else {}
    return {"l": l, "r": mc_rhs(rng), "path": path, "prefix": "/" + prefix.replace(".", "/") if slash else prefix,
            "tail": tail, "segs": None, "cfg": cfg, "cat": "mcreate", "via": "kw"}


def set_at(j, addr, node):
    """A copy of j with `node` standing at addr (a missing last key is appended to its mapping)."""
    if not addr:
        return node
    (t, v), rest = addr[0], addr[1:]
    if j["k"] == "map" and t == "k":
        es, done = [], False
        for kk, c in j["e"]:
            if kk == v and isinstance(kk, str) == isinstance(v, str):
                es.append([kk, set_at(c, rest, node)])
                done = True
            else:
                es.append([kk, c])
        if not done:
            if rest:
                raise KeyError(v)
            es.append([v, node])
        return {"k": "map", "e": es}
    if j["k"] == "seq" and t == "i":
        return {"k": "seq", "i": [set_at(c, rest, node) if i == v else c for i, c in enumerate(j["i"])]}
    raise KeyError(v)


def first_diff(a, b, pre=()):
    if a is None or b is None or a["k"] != b["k"]:
        return pre
    if a["k"] == "map":
        da, db = {mg._hk(x[0]): x for x in a["e"]}, {mg._hk(x[0]): x for x in b["e"]}
        if da.keys() != db.keys():
            return pre
        for h in da:
            if not mg.content_eq(da[h][1], db[h][1]):
                return first_diff(da[h][1], db[h][1], pre + (("k", da[h][0]),))
        return None
    if a["k"] == "seq":
        if len(a["i"]) != len(b["i"]):
            return pre
        for i, (x, y) in enumerate(zip(a["i"], b["i"])):
            if not mg.content_eq(x, y):
                return first_diff(x, y, pre + (("i", i),))
        return None
    return None if mg.content_eq(a, b) else pre


MASK = {"k": "str", "v": "<existing target: not judged here>"}


def judge_mcreate(case, stats, cnt, findings):
    """The clauses of C11 on the real code alone, for a merge path whose prefix selects several mappings and whose tail is a
    missing key below them: every created node holds exactly the right-hand document; everything else is unchanged."""
    l, r, tail = case["l"], case["r"], case["tail"]
    if r["k"] == "null":
        stats["oom"] += 1
        return cnt("mcreate:skipped:null-rhs")      # an empty right-hand document changes nothing (judged in the main part)
    got = ed.gather(l, case["prefix"], "set")
    if got[0] != "ok":
        stats["oom"] += 1
        return cnt("mcreate:skipped:prefix-" + got[0])
    parents = [tup(a) for a, is_name in got[1] if not is_name]
    if len(parents) != len(got[1]) or len(set(parents)) != len(parents) or any(
            a != b and is_prefix(a, b) for a in parents for b in parents):
        stats["oom"] += 1
        return cnt("mcreate:skipped:parents-nested-or-twice")
    pnodes = [get_at(l, a) for a in parents]
    if any(n is None or n["k"] != "map" for n in pnodes):
        stats["oom"] += 1
        return cnt("mcreate:skipped:non-hash-parent-selected")
    # what the optional query (seeded with the right-hand document) creates is the library's notion of "can be created"
    # (C09's subject; below `*` nothing is created): it is taken from a run of the real query on a twin document
    from yamlpath import Processor
    twin, rtwin = ed.build(l), ed.build(r)
    q = ed.guarded(lambda: list(Processor(core.quiet_logger(), twin).get_nodes(case["path"], default_value=rtwin)))
    if q[0] != "ok":
        stats["oom"] += 1
        return cnt("mcreate:skipped:query-" + q[0].split(":")[0])
    after = codec.node_to_json(twin, anchors=False)
    created, existing, lacking = [], [], 0
    for a, n in zip(parents, pnodes):
        has = any(kk == tail[0] for kk, _ in n["e"])
        if not has:
            lacking += 1
            if get_at(after, a + tuple(("k", k) for k in tail)) is not None:
                created.append(a)
        elif len(tail) == 1:
            existing.append(a + (("k", tail[0]),))
        else:
            stats["oom"] += 1
            return cnt("mcreate:skipped:tail-half-present")
    if not created:
        stats["oom"] += 1
        return cnt("mcreate:skipped:query-creates-nothing" if lacking else "mcreate:skipped:nothing-to-create")
    im = impl_run(case, case.get("via", "kw"))
    stats["n"] += 1
    cnt("path:mcreate")
    cnt("rhs:" + mg.kind(r))
    cnt("mcreate:created-targets:%s" % (len(created) if len(created) < 3 else "3+"))
    if existing:
        cnt("mcreate:with-existing-targets")
    if "oom" in im:
        stats["oom"] += 1
        return cnt("mcreate:skipped:oom")
    desc = "%s <- %s at '%s' under %s" % (show(l), show(r), case["path"], json.dumps(real_cfg(case), sort_keys=True))
    full = dict(case, impl=im)
    if "err" in im:
        if im["err"] == "timeout":
            return cnt("mcreate:timeout")
        if im["err"] in ("merge", "ypath", "config"):
            if existing:
                return cnt("mcreate:error-with-existing-target")      # the merge into an existing target may be refused (C05)
            findings.append(("violation", "multi-create:refused-%s" % im["err"], "merge %s raised a %s error; the missing "
                             "key %s can be created under %d selected mappings" % (desc, im["err"], tail, len(created)), full))
        else:
            findings.append(("violation", "%s@%s" % (im["err"], im.get("site", "?")),
                             "merge %s raised %s at %s" % (desc, im["err"], im.get("site")), full))
        return None
    res = im["ok"]
    cnt("created")
    stats.setdefault("_nt", set()).add(json.dumps([l, case["path"], r, case.get("cfg")], sort_keys=True))
    fresh = r
    for k in reversed(tail[1:]):
        fresh = mg.M((k, fresh))
    want = l
    for a in created:
        want = set_at(want, list(a) + [("k", tail[0])], fresh)
    for a in created:
        ta = a + tuple(("k", k) for k in tail)
        node = get_at(res, ta)
        if node is None:
            findings.append(("violation", "multi-create:created-without-rhs", "merge %s gave %s: nothing stands at the created "
                             "target %s" % (desc, show(res), seg_path(ta)), full))
            return None
        if not mg.content_eq(node, r):
            if r["k"] == "str" and node["k"] in ("int", "float", "bool"):
                findings.append(("violation", "scalar-rhs-retyped", "merge %s gave %s: the created target %s holds the re-typed "
                                 "%s" % (desc, show(res), seg_path(ta), show(node)), full))
                return None
            findings.append(("violation", "multi-create:created-is-not-rhs:%s" % mg.kind(r), "merge %s gave %s: the created target "
                             "%s holds %s, not the right-hand document" % (desc, show(res), seg_path(ta), show(node)), full))
            return None
    gm, wm = res, want
    try:
        for a in existing:
            gm, wm = set_at(gm, list(a), MASK), set_at(wm, list(a), MASK)
    except KeyError:
        gm = None
    if gm is None or not mg.content_eq(gm, wm):
        d = first_diff(gm, wm) if gm is not None else ()
        findings.append(("violation", "multi-create:outside-changed", "merge %s gave %s: apart from the %d created targets the "
                         "document must be unchanged; it differs at %s" % (desc, show(res), len(created), seg_path(d or ())), full))
    return None


def _rand_job(job):
    _tag, seed, n = job
    rng = random.Random(seed)
    cases = []
    for _ in range(n):
        try:
            cases.append(rand_case(rng))
        except (IndexError, KeyError, TypeError):
            continue
    return run_cases(cases)


I = lambda v: mg.S(v)  # noqa
CORPUS = [
    # the section-6 witnesses: computed, never written back (fix C11-1)
    {"l": mg.M(("a", mg.M(("b", mg.L(I(1), I(2)))))), "r": mg.L(I(3)), "path": "a.b", "segs": [["k", "a"], ["k", "b"]], "cfg": {"array": "right"}},
    {"l": mg.M(("a", mg.M(("b", mg.L(I(1), I(2)))))), "r": mg.L(I(2), I(3)), "path": "a.b", "segs": [["k", "a"], ["k", "b"]], "cfg": {"array": "unique"}},
    {"l": mg.M(("a", mg.M(("b", mg.M(("x", I(1))))))), "r": mg.M(("y", I(2))), "path": "a.b", "segs": [["k", "a"], ["k", "b"]], "cfg": {"hash": "right"}},
    {"l": mg.M(("a", mg.SET(1, 2))), "r": mg.L(I(2), I(3)), "path": "a", "segs": [["k", "a"]], "cfg": {"set": "right"}},
    {"l": mg.M(("a", mg.L(mg.M(("k", I(1))), mg.M(("k", I(2)))))), "r": mg.M(("x", I(1))), "path": "a.*", "segs": None, "cfg": {"hash": "right"}},
    {"l": mg.M(("a", mg.L(mg.M(("id", I(1)))))), "r": mg.L(mg.M(("id", I(2)))), "path": "a", "segs": [["k", "a"]], "cfg": {"aoh": "right"}},
    # an empty left-hand document and a novel merge path (fix C11-2)
    {"l": mg.S(None), "r": mg.M(("x", I(1))), "path": "a.b", "segs": [["k", "a"], ["k", "b"]], "cfg": {}},
    {"l": mg.S(None), "r": mg.L(I(7)), "path": "[1]", "segs": [["i", 1]], "cfg": {}},
    {"l": mg.S(None), "r": I(5), "path": "a.b", "segs": [["k", "a"], ["k", "b"]], "cfg": {}},
    {"l": mg.S(None), "r": mg.L(I(7)), "path": "/", "segs": [], "cfg": {}},
    # a Scalar merged through a multi-match path overwrote every match (fix C11-3)
    {"l": mg.M(("a", mg.M(("p", I(1)), ("q", mg.L(I(2)))))), "r": I(5), "path": "a.*", "segs": None, "cfg": {}},
    {"l": mg.M(("a", mg.L(I(1), mg.L(I(2)), I(3)))), "r": I(5), "path": "a[.>0]", "segs": None, "cfg": {}},
    # re-typed text (known finding)
    {"l": mg.M(("a", I(1))), "r": mg.S("5"), "path": "a", "segs": [["k", "a"]], "cfg": {}},
    # creation, padding, unmatched, not creatable
    {"l": mg.M(("a", I(1))), "r": mg.M(("x", I(1))), "path": "b.c", "segs": [["k", "b"], ["k", "c"]], "cfg": {}},
    {"l": mg.M(("a", mg.L(I(1)))), "r": mg.L(I(9)), "path": "a[3]", "segs": [["k", "a"], ["i", 3]], "cfg": {}},
    {"l": mg.M(("a", mg.M(("k", I(1))))), "r": mg.M(("x", I(1))), "path": "a[.=zz]", "segs": None, "cfg": {}},
    {"l": mg.M(("a", I(1))), "r": mg.M(("x", I(1))), "path": "a.c", "segs": [["k", "a"], ["k", "c"]], "cfg": {}},
    {"l": mg.M(("a", mg.S(None))), "r": mg.M(("x", I(1))), "path": "a", "segs": [["k", "a"]], "cfg": {}},
    # rules re-based on the merge path
    {"l": mg.M(("a", mg.M(("b", mg.M(("x", mg.L(I(1))), ("y", I(1))))))), "r": mg.M(("x", mg.L(I(2))), ("y", I(2))), "path": "/a/b",
     "segs": [["k", "a"], ["k", "b"]], "cfg": {}, "at": ["a", "b"], "lrules": [[["a", "b", "x"], "left"], [["a", "b", "y"], "left"]]},
]


def table_checks(chk):
    """strip_path_prefix against the model on every pair of key paths with <= 3 names over a, b, ab."""
    from yamlpath import YAMLPath
    names = ["a", "b", "ab"]
    paths = [[]]
    for n in range(1, 4):
        paths += [list(p) for p in __import__("itertools").product(names, repeat=n)]
    reqs, cases = [], []
    for p in paths:
        for a in paths:
            reqs.append({"op": "C11.rebase", "path": p, "at": a})
            cases.append((p, a))
    ans = core.Driver().ask(reqs)
    for (p, a), mo in zip(cases, ans):
        chk.evaluations += 1
        real = YAMLPath.strip_path_prefix(YAMLPath(seg_path([["k", k] for k in p], slash=True)),
                                          YAMLPath(seg_path([["k", k] for k in a], slash=True)))
        got = [str(s[1]) for s in real.escaped]
        if got != mo["keys"]:
            chk.disagreements_checked += 1
            chk.disagreement("table:rebase", "strip_path_prefix(%s, %s) is %s, the model says %s" % (p, a, got, mo["keys"]),
                             {"path": p, "at": a})
    chk.count("table:rebase_pairs", len(cases))


# --------------------------------------------------------------------------- yaml-merge with files

def dump_yaml(j, path):
    from yamlpath.common import Parsers
    y = Parsers.get_yaml_editor()
    with open(path, "w") as fh:
        if j["k"] == "null":
            fh.write("---\n")
        else:
            y.dump(codec.json_to_ruamel(j), fh)


def cli_checks(chk, cases):
    """yaml-merge main() with real files: an output file appears iff the merge succeeds."""
    import yamlpath.commands.yaml_merge as ym
    tmp = tempfile.mkdtemp(prefix="ypv-c11-")
    old_argv, old_out, old_err = sys.argv, sys.stdout, sys.stderr
    n_fail = n_ok = 0
    try:
        for i, case in enumerate(cases):
            if case["l"]["k"] == "null" or case["r"]["k"] == "null" or mg.needs_ini(case.get("cfg") or {}):
                continue
            if case.get("lrules") or case.get("lkeys") or (case.get("cfg") or {}).get("rules"):
                continue
            im = impl_run(case)
            if "oom" in im or im.get("err") == "timeout":
                continue
            lf, rf, of = [os.path.join(tmp, "%s%d.yaml" % (n, i)) for n in ("l", "r", "o")]
            try:
                dump_yaml(case["l"], lf)
                dump_yaml(case["r"], rf)
            except Exception:  # noqa
                continue
            argv = ["yaml-merge", "-S", "-m", case["path"], "-o", of]
            names = {"hash": "--hashes", "array": "--arrays", "aoh": "--aoh", "set": "--sets"}
            for k, opt in names.items():
                if (case.get("cfg") or {}).get(k):
                    argv += [opt, case["cfg"][k]]
            argv += [lf, rf]

            def go():
                sys.argv = argv
                sys.stdout, sys.stderr = io.StringIO(), io.StringIO()
                try:
                    ym.main()
                except SystemExit as e:
                    return e.code or 0
                finally:
                    sys.stdout, sys.stderr = old_out, old_err
                return 0
            res = ed.guarded(go, 10.0)
            chk.evaluations += 1
            exists = os.path.exists(of)
            if res[0] != "ok":
                chk.violation("cli:%s@%s" % (res[0], res[1]), "yaml-merge %s raised %s" % (argv[1:], res[0]), dict(case, argv=argv))
                continue
            code = res[1]
            if code != 0:
                n_fail += 1
                if exists:
                    chk.violation("cli:output-on-failure", "yaml-merge %s failed with exit %s and still wrote %s" % (
                        argv[1:], code, of), dict(case, argv=argv))
                if "ok" in im:
                    chk.disagreements_checked += 1
                    chk.disagreement("cli:exit-differs", "yaml-merge %s fails (exit %s) where the library call succeeds" % (
                        argv[1:], code), dict(case, argv=argv))
            else:
                n_ok += 1
                if not exists:
                    chk.violation("cli:no-output-on-success", "yaml-merge %s exits 0 without writing %s" % (argv[1:], of),
                                  dict(case, argv=argv))
                if "err" in im:
                    chk.violation("cli:accepted-%s" % im["err"], "yaml-merge %s exits 0 and writes a file where the library call "
                                  "raises %s" % (argv[1:], im["err"]), dict(case, argv=argv))
            for f in (lf, rf, of):
                if os.path.exists(f):
                    os.remove(f)
    finally:
        sys.argv, sys.stdout, sys.stderr = old_argv, old_out, old_err
        shutil.rmtree(tmp, ignore_errors=True)
    chk.count("cli:failed-merges", n_fail)
    chk.count("cli:successful-merges", n_ok)

def emptyleft_cli_checks(chk, n, fixed=None):
    """yaml-merge with an EMPTY left file (a lone `---`, `--- # comment`, `null`) and a merge path that nothing can match
    and that cannot be created: the tool must exit non-zero and write no output file."""
    import yamlpath.commands.yaml_merge as ym
    rng = random.Random(chk.seed * 31 + 5)
    tmp = tempfile.mkdtemp(prefix="ypv-c11e-")
    old_argv, old_out, old_err = sys.argv, sys.stdout, sys.stderr
    try:
        for i in range(n):
            case = emptyleft_case(rng)
            ltext = rng.choice(["---\n", "--- # nothing yet\n", "null\n", "---\n...\n", "~\n"])
            if fixed is not None:
                case, ltext = fixed
            lf, rf, of = [os.path.join(tmp, "%s%d.yaml" % (nm, i)) for nm in ("l", "r", "o")]
            try:
                dump_yaml(case["r"], rf)
            except Exception:  # noqa
                continue
            with open(lf, "w") as fh:
                fh.write(ltext)
            argv = ["yaml-merge", "-S", "-m", case["path"], "-o", of]
            names = {"hash": "--hashes", "array": "--arrays", "aoh": "--aoh", "set": "--sets"}
            for k, opt in names.items():
                if case["cfg"].get(k):
                    argv += [opt, case["cfg"][k]]
            argv += [lf, rf]

            def go():
                sys.argv = argv
                sys.stdout, sys.stderr = io.StringIO(), io.StringIO()
                try:
                    ym.main()
                except SystemExit as e:
                    return e.code or 0
                finally:
                    sys.stdout, sys.stderr = old_out, old_err
                return 0
            res = ed.guarded(go, 10.0)
            chk.evaluations += 1
            exists = os.path.exists(of)
            rec = dict(case, argv=argv, ltext=ltext)
            if res[0] != "ok":
                chk.violation("cli:%s@%s" % (res[0], res[1]), "yaml-merge %s (left file %r) raised %s" % (argv[1:], ltext, res[0]), rec)
            elif res[1] == 0 or exists:
                written = open(of).read() if exists else None
                chk.violation("cli:empty-left:accepted-unmatched-search" if res[1] == 0 else "cli:output-on-failure",
                              "yaml-merge %s with the empty left file %r and the right file %s exits %s%s; the path matches nothing "
                              "and cannot be created: a merge error and no output file are demanded" % (
                                  argv[1:], ltext, show(case["r"]), res[1], (" and writes %r" % written) if exists else ""), rec)
            chk.count("cli:empty-left-runs")
            for f in (lf, rf, of):
                if os.path.exists(f):
                    os.remove(f)
    finally:
        sys.argv, sys.stdout, sys.stderr = old_argv, old_out, old_err
        shutil.rmtree(tmp, ignore_errors=True)


# --------------------------------------------------------------------------- yaml-merge, multi-document files

MULTIDOC_MODES = ["condense_all", "merge_across", "matrix_merge"]

# (merge path, documents that can take a merge there, documents in which the path matches nothing and cannot be created)
_S = lambda v: {"k": "str", "v": v}            # noqa: E731
_I = lambda v: {"k": "int", "v": str(v)}       # noqa: E731
_M = lambda *e: {"k": "map", "e": [list(x) for x in e]}    # noqa: E731
_L = lambda *i: {"k": "seq", "i": list(i)}     # noqa: E731
MULTIDOC_SHAPES = [
    (["/cfg/sub", "cfg.sub"],
     [_M(("cfg", _M(("sub", _M(("a", _I(1))))))), _M(("cfg", _M())), _M(("other", _I(1))), _M(("cfg", _M(("sub", _M()))), ("x", _S("y")))],
     [_M(("cfg", _S("just-a-string"))), _M(("cfg", _I(5)), ("x", _I(1))), _M(("cfg", _M(("sub", _S("text")))))]),
    (["/a/b/c", "a.b.c"],
     [_M(("a", _M(("b", _M(("c", _M(("k", _I(1))))))))), _M(("a", _M(("b", _M())))), _M(("z", _L(_I(1))))],
     [_M(("a", _M(("b", _S("leaf"))))), _M(("a", _S("leaf"))), _M(("a", _M(("b", _M(("c", _I(7)))))))]),
    (["/svc[name=x]/opts", "svc[name=x].opts"],
     [_M(("svc", _L(_M(("name", _S("x")), ("opts", _M(("p", _I(1))))), _M(("name", _S("y")))))), _M(("svc", _L(_M(("name", _S("x"))))))],
     [_M(("svc", _L(_M(("name", _S("y")))))), _M(("svc", _L())), _M(("svc", _M(("name", _S("q")))))]),
    (["/items[0]/tags", "items[0].tags"],
     [_M(("items", _L(_M(("tags", _M(("t", _I(1)))))))), _M(("items", _L(_M(("n", _I(1))))))],
     [_M(("items", _L(_S("scalar")))), _M(("items", _S("none")))]),
    (["/top[.=~/^zz/]/k", "/**/nowhere[.=1]"],
     [],
     [_M(("top", _M(("a", _I(1))))), _M(("k", _L(_I(1), _I(2))))]),
]
MULTIDOC_RHS = [_M(("b", _I(2))), _M(("a", _I(9)), ("n", _M(("m", _S("v"))))), _M(("k", _L(_I(1)))), _M()]


def multidoc_case(rng):
    """A yaml-merge run over a multi-document left file in one of the three multi-document modes, at a merge path that
    (mostly) exactly one of the left documents cannot take: the first, a middle or the last one."""
    paths, good, bad = rng.choice(MULTIDOC_SHAPES)
    n = rng.randint(2, 4)
    r = rng.random()
    if not good:
        badpos = list(range(n))
    elif r < 0.12:
        badpos = []
    elif r < 0.9:
        badpos = [rng.choice([0, n - 1, rng.randrange(n)])]
    else:
        badpos = rng.sample(range(n), 2)
    docs = []
    for i in range(n):
        d = json.loads(json.dumps(rng.choice(bad if i in badpos else good)))
        if rng.random() < 0.5:
            d["e"].append(["doc", _I(i)])
        docs.append(d)
    mode = rng.choice(MULTIDOC_MODES)
    nr = n if mode == "merge_across" and rng.random() < 0.85 else rng.choice([1, 1, 2])
    rdocs = [json.loads(json.dumps(rng.choice(MULTIDOC_RHS))) for _ in range(nr)]
    return {"ldocs": docs, "rdocs": rdocs, "path": rng.choice(paths), "mode": mode, "bad": sorted(badpos),
            "hashes": rng.choice([None, None, "deep", "left", "right"])}


def multidoc_expect(case):
    """What the library's own Merger says about every constituent merge of the run: the i-th (left, right) pairs for
    merge_across, every right document into every left document for matrix_merge, documents 2.. of the left file and
    then every right document into the first one for condense_all (all at the merge path).
    -> ("ok" | "refused" | None when a merge crashes or times out, the list of per-merge outcomes)"""
    from yamlpath.merger import Merger
    extra = {"mergeat": case["path"]}
    if case.get("hashes"):
        extra["hashes"] = case["hashes"]
    mc = mg.make_config({}, "kw", extra_args=extra)
    L = [Merger(mc.log, codec.json_to_ruamel(d), mc) for d in case["ldocs"]]
    R = [codec.json_to_ruamel(d) for d in case["rdocs"]]
    import copy
    if case["mode"] == "condense_all":
        pairs = [(L[0], m.data) for m in L[1:]] + [(L[0], r) for r in R]
    elif case["mode"] == "merge_across":
        pairs = [(L[i], R[i]) for i in range(min(len(L), len(R)))]
    else:
        pairs = [(lm, copy.deepcopy(r)) for lm in L for r in R]
    outs, dead = [], set()
    for lm, r in pairs:
        if id(lm) in dead and case["mode"] != "condense_all":
            continue            # the tool stops merging into a left document after its first failure
        res = ed.guarded(lambda: lm.merge_with(r), 5.0)
        outs.append(res[0])
        if res[0] != "ok":
            dead.add(id(lm))
            if res[0] not in ("merge", "ypath"):
                return None, outs
    return ("refused" if any(o != "ok" for o in outs) else "ok"), outs


def multidoc_cli_checks(chk, n):
    """yaml-merge main() over multi-document left files: when the library refuses one of the merges the run is made of
    (merge path matches nothing and cannot be created in that document), the tool must fail and write no output file -
    whichever of the left documents it is; when every merge succeeds it must exit 0 and write the file."""
    import yamlpath.commands.yaml_merge as ym
    from yamlpath.common import Parsers
    rng = random.Random(chk.seed * 31 + 11)
    tmp = tempfile.mkdtemp(prefix="ypv-c11m-")
    old_argv, old_out, old_err = sys.argv, sys.stdout, sys.stderr

    def write(docs, path):
        y = Parsers.get_yaml_editor()           # explicit_start: every document is written with its own `---`
        with open(path, "w") as fh:
            for d in docs:
                y.dump(codec.json_to_ruamel(d), fh)
    try:
        if chk.replay_in:
            cases = [n]
        else:
            cases = [multidoc_case(rng) for _ in range(n)]
        for i, case in enumerate(cases):
            want, outs = multidoc_expect(case)
            if want is None:
                chk.count("cli-multidoc:not-judged")
                continue
            lf, rf, of = [os.path.join(tmp, "%s%d.yaml" % (nm, i)) for nm in ("l", "r", "o")]
            write(case["ldocs"], lf)
            write(case["rdocs"], rf)
            argv = ["yaml-merge", "-S", "--multi-doc-mode=" + case["mode"], "-m", case["path"], "-o", of]
            if case.get("hashes"):
                argv += ["--hashes", case["hashes"]]
            argv += [lf, rf]

            def go():
                sys.argv = argv
                sys.stdout, sys.stderr = io.StringIO(), io.StringIO()
                try:
                    ym.main()
                except SystemExit as e:
                    return e.code or 0
                finally:
                    sys.stdout, sys.stderr = old_out, old_err
                return 0
            res = ed.guarded(go, 10.0)
            chk.evaluations += 1
            exists = os.path.exists(of)
            rec = dict(case, argv=argv[:-3] + ["<out>", "<left>", "<right>"], merges=outs)
            where = ("first" if case["bad"][0] == 0 else "last" if case["bad"][0] == len(case["ldocs"]) - 1 else "middle") \
                if len(case["bad"]) == 1 else "%d-bad" % len(case["bad"])
            desc = "yaml-merge --multi-doc-mode=%s -m %s: left file of %d documents %s, right file %s; the library refuses a merge " \
                   "of this run (%s)" % (case["mode"], case["path"], len(case["ldocs"]), [show(d) for d in case["ldocs"]],
                                         [show(d) for d in case["rdocs"]], outs)
            if res[0] != "ok":
                chk.violation("cli-multidoc:%s@%s" % (res[0], res[1]), "%s raised %s" % (desc, res[0]), rec)
            elif want == "refused":
                chk.count("cli-multidoc:refused:%s:%s" % (case["mode"], where))
                chk.nontrivial_extra += 1
                if res[1] == 0:
                    chk.violation("cli-multidoc:accepted:%s:%s" % (case["mode"], where),
                                  "%s, yet the tool exits 0%s" % (desc, " and writes the output file" if exists else ""), rec)
                elif exists:
                    chk.violation("cli-multidoc:output-on-failure:%s" % case["mode"],
                                  "%s; the tool exits %s and still wrote the output file" % (desc, res[1]), rec)
            else:
                chk.count("cli-multidoc:merged:%s" % case["mode"])
                if res[1] != 0:
                    chk.disagreements_checked += 1
                    chk.disagreement("cli-multidoc:exit-differs:%s" % case["mode"],
                                     "yaml-merge --multi-doc-mode=%s -m %s fails (exit %s) where every library merge of the run "
                                     "succeeds: %s <- %s" % (case["mode"], case["path"], res[1], [show(d) for d in case["ldocs"]],
                                                             [show(d) for d in case["rdocs"]]), rec)
                elif not exists:
                    chk.violation("cli-multidoc:no-output-on-success:%s" % case["mode"],
                                  "yaml-merge --multi-doc-mode=%s -m %s exits 0 without writing the output file" % (
                                      case["mode"], case["path"]), rec)
            for f in (lf, rf, of):
                if os.path.exists(f):
                    os.remove(f)
    finally:
        sys.argv, sys.stdout, sys.stderr = old_argv, old_out, old_err
        shutil.rmtree(tmp, ignore_errors=True)


def widen(chk: core.Check):
    """Bigger failing-input search (x5 random budget on fresh seeds), used only when a proof obligation or the
    correspondence is broken and no concrete failing input is known."""
    core.use_repo()
    jobs = [("RAND", chk.seed * 7919 + 1000003 + i, 2000) for i in range(400 if chk.tier == "quick" else 1000)]
    for stats, findings, _samples, _nt, _hist in core.pmap(_job, jobs):
        chk.evaluations += stats["n"]
        for kind_, sig, what, case in findings:
            if kind_ == "violation":
                chk.violation(sig, what, case)


def _gen_job(job):
    _tag, seed, n = job
    rng = random.Random(seed)
    gen = {"MCREATE": mcreate_case, "INTKEY": intkey_case, "SEQ": seq_case, "EMPTYLEFT": emptyleft_case}[_tag]
    cases = []
    for _ in range(n):
        try:
            cases.append(gen(rng))
        except (IndexError, KeyError, TypeError, ValueError):
            continue
    return run_cases(cases)


def _job(job):
    if job[0] in ("MCREATE", "INTKEY", "SEQ", "EMPTYLEFT"):
        return _gen_job(job)
    if job[0] == "EXH":
        return _exh_job(job)
    if job[0] == "RAND":
        return _rand_job(job)
    return run_cases(job[1])


def run(chk: core.Check):
    core.use_repo()
    tier = chk.tier
    rng = random.Random(chk.seed)
    if chk.replay_in:
        rp = json.load(open(chk.replay_in))
        c = rp.get("case", rp)
        if "ldocs" in c:
            multidoc_cli_checks(chk, {k: c[k] for k in ("ldocs", "rdocs", "path", "mode", "bad", "hashes") if k in c})
            return chk
        if "l" not in c:
            print("replay: nothing to run for", json.dumps(c)[:300])
            return chk
        case = {k: c[k] for k in ("l", "r", "path", "segs", "cfg", "at", "lrules", "lkeys", "via", "cat", "targets", "prefix", "tail", "l0", "pre")
                if k in c}
        case.setdefault("segs", None)
        results = [run_cases([case])]
        im = impl_run(case, case.get("via", "kw"))
        print("replay:", json.dumps({"l": show(case["l"]), "r": show(case["r"]), "path": case["path"], "cfg": real_cfg(case),
                                     "impl": im if "ok" not in im else show(im["ok"])}))
        if c.get("argv") and c.get("ltext") is None:
            cli_checks(chk, [case])
        elif c.get("ltext") is not None:
            emptyleft_cli_checks(chk, 1, fixed=(case, c["ltext"]))
    else:
        table_checks(chk)
        lb = int(os.environ.get("YPV_EXH_BOUND") or 3)   # developer override only
        jobs = [("CORPUS", [dict(c, cat="corpus") for c in CORPUS])]
        off = rng.randrange(180)
        small_l, small_r = mg.docs_up_to(lb), mg.docs_up_to(2)
        rng.shuffle(small_l)
        if tier == "quick":
            grids = [(small_l, small_r, 4, 6)]
            bound = ("all %d left documents with <= %d nodes x their whole path vocabulary x all %d right documents with <= 2 "
                     "nodes x 4 of 180 policy combinations (rotating through all 180)" % (len(small_l), lb, len(small_r)))
        else:
            l4 = mg.docs_of_size(lb + 1)
            r3 = mg.docs_of_size(3)
            rng.shuffle(l4)
            # 60 of 180 = every third combination: all hash x array x aoh combinations for every (left, path, right), the
            # set policy rotating with the case number (all 180 made 23.6 M cases, 37 min together with the rest)
            grids = [(small_l, small_r, 60, 3), (small_l, r3, 4, 4), (l4, small_r, 2, 50)]
            bound = ("all %d left documents with <= %d nodes x their whole path vocabulary x {all %d right documents with <= 2 "
                     "nodes x 60 of the 180 policy combinations (all 60 hash x array x aoh combinations, the set policy rotating "
                     "through its 3 values); all %d right documents with 3 nodes x 4 of 180 (rotating)}; all %d "
                     "left documents with %d nodes x vocabulary x right documents <= 2 nodes x 2 of 180 (rotating)" % (
                         len(small_l), lb, len(small_r), len(r3), len(l4), lb + 1))
        for lefts, rights, npol, per in grids:
            jobs += [("EXH", lefts[i:i + per], rights, npol, off + i * 50) for i in range(0, len(lefts), per)]
        nrand = int(os.environ.get("YPV_NRAND") or (160000 if tier == "quick" else 300000))
        per_job = 2000
        jobs += [("RAND", chk.seed * 100003 + i, per_job) for i in range(nrand // per_job)]
        nmc = int(os.environ.get("YPV_NMC") or (12000 if tier == "quick" else 200000))
        jobs += [("MCREATE", chk.seed * 100019 + 7 + i, 1000) for i in range(nmc // 1000)]
        jobs += [("INTKEY", chk.seed * 100043 + 11 + i, 1000) for i in range(nmc // 1000)]
        nseq = int(os.environ.get("YPV_NSEQ") or (12000 if tier == "quick" else 150000))
        jobs += [("SEQ", chk.seed * 100057 + 13 + i, 1000) for i in range(nseq // 1000)]
        jobs += [("EMPTYLEFT", chk.seed * 100069 + 19, 600 if tier == "quick" else 6000)]
        chk.extra_cov["sequence_cases"] = nseq
        chk.extra_cov["multi_creation_cases"] = nmc
        chk.extra_cov["integer_key_cases"] = nmc
        chk.exhaustive = True
        chk.extra_cov["exhaustive_bound"] = bound
        chk.extra_cov["random_cases"] = nrand
        results = core.pmap(_job, jobs)
        crng = random.Random(chk.seed + 17)
        ccases = [dict(c) for c in CORPUS]
        while len(ccases) < (320 if tier == "quick" else 3000):
            try:
                c = rand_case(crng)
            except (IndexError, KeyError, TypeError):
                continue
            if c["l"]["k"] == "null" or c["r"]["k"] == "null" or mg.needs_ini(c["cfg"]) or c["cfg"].get("rules") \
                    or c.get("lrules") or c.get("lkeys"):
                continue
            ccases.append(c)
        cli_checks(chk, ccases)
        emptyleft_cli_checks(chk, 80 if tier == "quick" else 800)
        nmd = 600 if tier == "quick" else 6000
        multidoc_cli_checks(chk, nmd)
        chk.extra_cov["multi_document_cli_runs"] = nmd
    for stats, findings, samples, nontrivial, hist in results:
        chk.evaluations += stats["n"]
        chk.out_of_model += stats["oom"]
        chk.nontrivial_extra += nontrivial
        for k, v in hist.items():
            chk.count(k, v)
        for s in samples:
            chk.sample(s)
        for kind_, sig, what, case in findings:
            if kind_ == "violation":
                chk.violation(sig, what, case)
            else:
                chk.disagreements_checked += 1
                chk.disagreement(sig, what, case)
    return chk
