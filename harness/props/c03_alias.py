"""C03, histories that ACQUIRE anchors: `Processor.alias_nodes` against the value model `Model/Alias.lean`
(theorems `alias_exact`, `alias_name_unique` in `Props/C03Alias.lean`), followed by a `set_value` on the anchored
node judged by the set model of C03 on the document the alias step left.

A case: a random document (editing.gen_doc), a source address (any non-null node), 1..3 target addresses (pairwise
unrelated, unrelated to the source, not set members), a requested anchor name (new to the document, or one the
document already uses, or none), then a value to set at the source.  On ONE reused Processor:
  1. `alias_gathered_nodes(<matches of the target paths>, <source path>, anchor_name=…)`
       - a name the document already uses must be refused with the library's exception and change nothing
         (alias_name_unique);
       - otherwise the document afterwards must equal the model's (alias_exact: source and targets are one anchored
         node, nothing else changed); a generated name is read back from the real result and must be new to the
         document;
  2. `set_value(<source path>, v)` when the source is a scalar: the document must equal the set model applied to
     the model's document of step 1 (every alias holds the new value), and
  3. dump + strict reload gives the same data (no anchor name on two different nodes).
"""
import json
import random

from harness import codec, core
from harness.props import editing as ed

RULE_ALIAS = ("alias layer: documents of editing.gen_doc x (source address, 1..3 unrelated target addresses, anchor name new / "
              "already used / none) on one reused Processor: alias_gathered_nodes, then set_value at the source, then dump + "
              "strict reload; the alias step is compared with Model/Alias.lean (driver op C03.alias, theorems alias_exact / "
              "alias_name_unique), the set with the C03 set model on the model's document.  distinct & non-trivial = alias steps "
              "that went ahead with >= 1 target whose node differed from the source node.")


def _related(a, b):
    n = min(len(a), len(b))
    return tuple(a[:n]) == tuple(b[:n])


def _anchors(j, out):
    if j.get("a"):
        out.add(j["a"])
    if j.get("k") == "map":
        for _, v in j["e"]:
            _anchors(v, out)
    elif j.get("k") == "seq":
        for v in j["i"]:
            _anchors(v, out)
    return out


def gen_alias_steps(rng, n):
    cases = []
    while len(cases) < n:
        doc = ed.gen_doc(rng)
        addrs = [(a, v) for a, v in ed.all_addrs(doc)]
        srcs = [(a, v) for a, v in addrs if v.get("k") != "null"]
        if not srcs or len(addrs) < 2:
            continue
        src, srcnode = rng.choice(srcs)
        pool = [a for a, _ in addrs if not _related(a, src)]
        rng.shuffle(pool)
        targets = []
        for a in pool:
            if all(not _related(a, t) for t in targets):
                targets.append(a)
            if len(targets) >= rng.randint(1, 3):
                break
        if not targets:
            continue
        if rng.random() < 0.4:
            doc = codec.strip_anchors(doc)      # a document that has no anchor until the alias step gives it one
            srcnode = codec.strip_anchors(srcnode)
        used = sorted(_anchors(doc, set()))
        leaves = [a for a, v_ in ed.all_addrs(doc) if v_.get("k") not in ("map", "seq", "set")]
        pre = None
        if leaves and rng.random() < 0.6:
            pv = rng.choice(ed.VALUES)
            pre = {"addr": [list(x) for x in rng.choice(leaves)], "v": [pv[0], pv[1]]}
        r = rng.random()
        if r < 0.5:
            name = rng.choice(["zz", "n1", "new", "k"])
            while name in used:
                name += "x"
        elif r < 0.7 and used:
            name = rng.choice(used)
        else:
            name = None
        v = rng.choice(ed.VALUES)
        cases.append({"alias": True, "doc": doc, "src": [list(x) for x in src], "targets": [[list(x) for x in t] for t in targets],
                      "name": name, "v": [v[0], v[1]], "reload": rng.random() < 0.5, "pre": pre})
    return cases


def _addr_json(a):
    return [[k, r] for k, r in a]


def alias_chunk(cases):
    """-> (stats, violations, disagreements, keys)"""
    from yamlpath import Processor
    drv = core.Driver()
    stats = {"n": 0, "oom": 0, "alias_steps": 0, "alias_refused": 0, "alias_then_set": 0}
    viol, disag, keys = [], [], set()
    for case in cases:
        stats["n"] += 1
        doc = case["doc"]
        src = [tuple(x) for x in case["src"]]
        targets = [[tuple(x) for x in t] for t in case["targets"]]
        used = _anchors(doc, set())
        try:
            data = ed.build(doc)
        except codec.OutOfModel:
            stats["oom"] += 1
            continue
        src_path = ed.path_of_addr(src, None, doc)
        tpaths = [ed.path_of_addr(t, None, doc) for t in targets]
        proc = Processor(core.quiet_logger(), data)
        if case.get("pre"):
            # an earlier edit through the SAME Processor (whatever it caches about the document must not outlive
            # the alias step); the state it leaves is the document of the steps judged here
            pre_path = ed.path_of_addr([tuple(x) for x in case["pre"]["addr"]], None, doc)
            if _err(ed.guarded(lambda: proc.set_value(pre_path, case["pre"]["v"][1]))) is not None:
                continue
            try:
                doc = ed.snapshot(data)
            except codec.OutOfModel:
                stats["oom"] += 1
                continue
            used = _anchors(doc, set())
        if _get(doc, src).get("k") == "null":
            stats["oom"] += 1       # a null source cannot carry an anchor: outside the model (and outside C03's statement)
            continue

        def step1():
            gathered = []
            for tp in tpaths:
                gathered += list(proc.get_nodes(tp, mustexist=True))
            kw = {"anchor_name": case["name"]} if case["name"] else {}
            proc.alias_gathered_nodes(gathered, src_path, **kw)
        err = _err(ed.guarded(step1))
        try:
            after = ed.snapshot(data)
        except codec.OutOfModel:
            stats["oom"] += 1
            continue
        what = "alias_gathered_nodes(%s -> %r, anchor_name=%r) on %s" % (tpaths, src_path, case["name"], json.dumps(doc)[:300])
        taken = case["name"] is not None and case["name"] in used
        if taken:
            stats["alias_refused"] += 1
            if err != "ypath":
                viol.append(("alias:taken-name-accepted", "%s: the name is already used in the document, outcome %s" % (what, err or "accepted"), case))
            elif json.dumps(after, sort_keys=True) != json.dumps(doc, sort_keys=True):
                viol.append(("alias:refused-but-changed", "%s was refused but the document changed" % what, case))
            continue
        if err is not None:
            # alias_nodes refusing or failing (a source whose text reads as None cannot carry an anchor:
            # AttributeError in _get_anchor_node) is not judged: no property speaks about the exceptions of the
            # alias API; only what a step that goes ahead does to the document is
            if err.startswith("crash") or err == "timeout":
                stats["alias_step_failed_not_judged"] = stats.get("alias_step_failed_not_judged", 0) + 1
            continue
        # the name the real code settled on (given, the source's own, or generated)
        node = after
        for k, r in src:
            node = dict((str(a), b) for a, b in node["e"])[str(r)] if k == "k" else node["i"][r]
        settled = node.get("a")
        src_json = doc
        for k, r in src:
            src_json = dict((str(a), b) for a, b in src_json["e"])[str(r)] if k == "k" else src_json["i"][r]
        if not settled:
            viol.append(("alias:source-not-anchored", "%s: the source node carries no anchor afterwards" % what, case))
            continue
        if case["name"] is None and not src_json.get("a") and settled in used:
            viol.append(("alias:generated-name-not-unique", "%s: generated anchor name %r is already used" % (what, settled), case))
            continue
        stats["alias_steps"] += 1
        mo = drv.ask([{"op": "C03.alias", "doc": doc, "src": _addr_json(src), "addrs": [_addr_json(t) for t in targets],
                       "name": case["name"], "fresh": settled}])[0]
        if "ok" not in mo:
            disag.append(("alias:model-refuses", "%s: model %s, implementation went ahead" % (what, json.dumps(mo)[:200]), case))
            continue
        if json.dumps(after, sort_keys=True) != json.dumps(mo["ok"], sort_keys=True):
            # property-level reading of the difference: a matched node that is not the anchored node, or a bystander changed
            viol.append(("alias:document-differs", "%s left %s; source and matched nodes must be one anchored node and nothing else may change: %s" % (
                what, json.dumps(after)[:400], json.dumps(mo["ok"])[:400]), case))
            continue
        if any(json.dumps(t_node, sort_keys=True) != json.dumps(src_json, sort_keys=True)
               for t_node in [_get(doc, t) for t in targets]):
            keys.add(json.dumps([doc, case["src"], case["targets"]], sort_keys=True))
        # step 2: set at the source (scalars only: the C03 set model)
        if src_json.get("k") in ("map", "seq", "set"):
            continue
        v = case["v"]
        stats["alias_then_set"] += 1

        def step2():
            proc.set_value(src_path, v[1])
        err2 = _err(ed.guarded(step2))
        ms = drv.ask([{"op": "C03.set", "doc": mo["ok"], "addrs": [_addr_json(src)], "v": codec.scalar_to_json(v[1]), "fmt": "DEFAULT"}])[0]
        model = ms.get("model", {})
        if "ok" not in model:
            if err2 is None and model.get("err") not in (None, "outOfModel"):
                disag.append(("alias:set-model-refuses", "set after %s: model %s" % (what, json.dumps(model)[:200]), case))
            continue
        if err2 is not None:
            (viol if err2.startswith("crash") else disag).append(("alias:set:" + err2.split("@")[0], "set_value(%r, %r) after %s raised %s" % (src_path, v[1], what, err2), case))
            continue
        try:
            after2 = ed.snapshot(data)
        except codec.OutOfModel:
            stats["oom"] += 1
            continue
        if json.dumps(after2, sort_keys=True) != json.dumps(model["ok"], sort_keys=True):
            viol.append(("alias:set-after-alias-differs", "set_value(%r, %r) after %s left %s; every alias must hold the new value and nothing else may change: %s" % (
                src_path, v[1], what, json.dumps(after2)[:400], json.dumps(model["ok"])[:400]), case))
            continue
        if case.get("reload"):
            rr = ed.dump_reload(data)
            if rr[0] in ("dump-failed", "reload-failed", "reload-crashed"):
                viol.append(("alias:reload:" + rr[0], "after %s and set_value the document does not dump / reload (%s): %s" % (what, rr[1], (rr[2] or "")[:300]), case))
            elif rr[0] == "ok" and json.dumps(rr[1], sort_keys=True) != json.dumps(codec.strip_anchors(after2), sort_keys=True):
                viol.append(("alias:reload:data-differs", "after %s and set_value the reloaded data differs: %s vs %s" % (
                    what, json.dumps(rr[1])[:300], json.dumps(codec.strip_anchors(after2))[:300]), case))
    return stats, viol[:20], disag[:20], keys


def _err(r):
    """editing.guarded outcome -> None | "ypath" | "timeout" | "crash:<T>@<site>"""
    if r[0] == "ok":
        return None
    if r[0].startswith("ypath"):
        return "ypath"
    if r[0] == "timeout":
        return "timeout"
    return "%s@%s" % (r[0], r[1])


def _get(j, addr):
    for k, r in addr:
        j = dict((str(a), b) for a, b in j["e"])[str(r)] if k == "k" else j["i"][r]
    return j
