"""C04 — a delete removes exactly the matched nodes, whatever their number or position."""
from __future__ import annotations

import json
import os
import random

from harness import core, codec
from harness.props import editing as ed

RULE = ("seeded random documents (maps/sequences/sets to depth 3, repeated equal scalars, empty containers, anchored "
        "scalars with aliases) x paths built from the document (exact paths incl. negative indexes, wildcards, slices, "
        "searches, keyword searches, anchors, collector expressions incl. the same node twice, reversed order and the root), "
        "plus the corpus of past failures.  The matched nodes are gathered by the real evaluator on a twin document and "
        "converted to addresses; the real delete_nodes()/delete_gathered_nodes() runs on the real document; the whole "
        "document afterwards (and the error class) must equal the Lean specification removeAll (proved equal to the model). "
        "Real code only, judged directly: (slices) every `[a:b]` with a, b in -9..9 on sequences of 0-5 distinct elements (under a key, "
        "nested in a map, inside a sequence, as the root), both notations and both delete APIs - the matched elements are "
        "identified by the values of the nodes get_nodes() returns, the sequence afterwards must be the original minus exactly "
        "those; (merge keys, outside the model) seeded YAML texts with 2-3 anchored source maps (sources merging sources), consumers "
        "at top level and inside a list merging 1-3 sources (`<<: *m`, `<<: [*m1, *m0]`, before / between / after own keys), own "
        "keys that override a merged key with another value, repeat its value, are new, or are spelled like an anchor, x deletes "
        "of a merge reference (`/svc0/&m1`, `svc0.&m1`, `/*/&m0`, `items.*.&m0`, collectors of them), of own keys, of elements: the "
        "physical document (own keys per mapping in order, merge references in order, sequences, anchors, sharing) afterwards "
        "is the original minus the matched own entries / elements / merge references.  "
        "Merge-key documents also carry, in 45 %, a `defs` Hash (before or after the consumers) holding the only occurrence of "
        "1-2 anchored Hashes named like ordinary consumer keys (n, z, t, k), consumers owning such keys, and ONE delete matching "
        "both (`/*/n`, `(/svc0/n)+(/defs/n)`, `(/defs/n)+(/svc0/n)`, `(/svc0/n)+(/defs)`): every matched own key must be gone "
        "(the known class C04-F4 is only the case in which the anchored Hash is still part of the document when the key is "
        "processed).  (collectors over containers) documents whose scalars are all DISTINCT x `(p1)+(p2)[+(p3)]` with operands "
        "that are exact paths to scalars, Hashes and real Arrays (under a Hash key or inside another Array), `X.*` and slices, "
        "both notations and APIs: each node get_nodes() returns on a twin is identified by value (scalars) or identity "
        "(containers) - not by the parent / parentref it carries - and the document afterwards must be the original minus "
        "exactly those nodes (an Array as FIRST operand is the known class C04-F6).  "
        "(integer keys, model leg) documents of DISTINCT scalars whose Hashes use integer keys (0, 1, 80, 443, -1, ...), text keys, "
        "digit text next to integers - under Hashes, inside Arrays, at the root - x exact paths through those keys in both "
        "notations (the KEY segment carries text; the evaluator falls back to the integer), `X.*`, searches over such a Hash, "
        "`**.<int>`, additions of them; judged against the Lean specification like the generic cases.  In the model leg a "
        "matched node whose NodeCoords carries a parentref that names no child of the reported parent is identified by the node "
        "itself among the children of that parent (a container by identity; a scalar by identity and a value occurring once in "
        "the document; exactly one child must qualify, otherwise the case is counted as not located) - the delete is owed to the "
        "nodes the path matched, whatever coordinates were handed out (signature suffix parentref-names-no-child-of-the-parent).  "
        "(merge keys, cont.) 40 % of the merge-key documents carry a `shared` Hash (before or after the consumers) with 1-3 "
        "anchored scalars / Arrays named like ordinary keys (a, b, c, k, t, n, z, p), consumers own keys of those names (plain "
        "values or aliases of the anchored node) and are deleted by exact paths, `/*/name` and additions: an anchor on a node that "
        "is not a Hash has nothing to do with merge keys, the own key must be gone.  "
        "distinct_nontrivial = distinct (document, path) pairs that matched >= 1 non-root node.")

CORPUS = [
    ({"k": "map", "e": [["a", {"k": "seq", "i": [{"k": "seq", "i": []}, {"k": "int", "v": "1"}]}]]}, "a[0]"),
    ({"k": "map", "e": [["l", {"k": "seq", "i": [{"k": "int", "v": "1"}, {"k": "int", "v": "2"}, {"k": "int", "v": "3"}]}]]}, "(l[0])+(l[0])"),
    ({"k": "map", "e": [["l", {"k": "seq", "i": [{"k": "int", "v": "1"}, {"k": "int", "v": "2"}, {"k": "int", "v": "3"}, {"k": "int", "v": "4"}]}]]}, "(l[2])+(l[0])"),
    ({"k": "map", "e": [["a", {"k": "int", "v": "1"}], ["b", {"k": "int", "v": "2"}]]}, "(/)+(a)"),
    ({"k": "map", "e": [["a", {"k": "int", "v": "1"}], ["b", {"k": "int", "v": "2"}]]}, "(a)+(/)"),
    ({"k": "map", "e": [["a", {"k": "int", "v": "1"}], ["b", {"k": "int", "v": "2"}]]}, "/"),
    ({"k": "map", "e": [["l", {"k": "seq", "i": [{"k": "int", "v": "1"}, {"k": "seq", "i": []}, {"k": "int", "v": "3"}, {"k": "map", "e": []}]}]]}, "l.*"),
    ({"k": "map", "e": [["l", {"k": "seq", "i": [{"k": "int", "v": "1"}, {"k": "int", "v": "2"}, {"k": "int", "v": "3"}, {"k": "int", "v": "4"}]}]]}, "l[1:3]"),
    ({"k": "map", "e": [["l", {"k": "seq", "i": [{"k": "int", "v": "1"}, {"k": "int", "v": "2"}, {"k": "int", "v": "3"}]}]]}, "(l[-1])+(l[2])"),
    ({"k": "map", "e": [["ab", {"k": "int", "v": "1"}], ["ac", {"k": "int", "v": "2"}], ["l", {"k": "seq", "i": [{"k": "str", "v": "ab"}, {"k": "int", "v": "5"}]}]]}, "**[.^a]"),
    ({"k": "map", "e": [["s", {"k": "set", "m": ["a", "b"]}], ["x", {"k": "int", "v": "1"}]]}, "s.a"),
    ({"k": "map", "e": [["a", {"k": "int", "v": "1", "a": "x"}], ["b", {"k": "seq", "i": [{"k": "int", "v": "1", "a": "x"}, {"k": "int", "v": "1"}]}]]}, "b[0]"),
]


def gen_cases(rng, n):
    cases = []
    for _ in range(n):
        doc = ed.gen_doc(rng)
        for _ in range(3):
            cases.append({"doc": doc, "path": ed.gen_path(rng, doc), "api": rng.choice(["delete_nodes", "delete_nodes", "gathered"])})
    return cases


def run(chk: core.Check):
    core.use_repo()
    if chk.replay_in:
        rp = json.load(open(chk.replay_in))
        cases = [rp.get("case", rp)]
        chunks = [cases]
    else:
        cases = [{"doc": d, "path": p, "api": api} for d, p in CORPUS for api in ("delete_nodes", "gathered")]
        d = os.path.join(core.CORPUS_DIR, "C04")
        if os.path.isdir(d):
            for fn in sorted(os.listdir(d)):
                try:
                    cases.append(json.load(open(os.path.join(d, fn))))
                except Exception:
                    pass
        n = 14000 if chk.tier == "quick" else 250000
        rng = random.Random(chk.seed)
        cases += gen_cases(rng, n)
        scases = gen_slice_cases()
        chk.extra_cov["slice_bound_cases"] = "%d: every [a:b], a, b in -9..9, on sequences of 0-5 distinct elements in 4 positions, both delete APIs" % len(scases)
        cases += scases
        mcases = gen_merge_cases(rng, 1500 if chk.tier == "quick" else 25000)
        chk.extra_cov["merge_key_document_cases"] = len(mcases)
        cases += mcases
        ccases = gen_collector_cases(rng, 1200 if chk.tier == "quick" else 15000)
        chk.extra_cov["collector_addition_container_cases"] = len(ccases)
        cases += ccases
        kcases = gen_intkey_cases(random.Random(chk.seed * 7919 + 4), 1000 if chk.tier == "quick" else 15000)
        chk.extra_cov["integer_key_document_cases"] = len(kcases)
        cases += kcases
        rng.shuffle(cases)
        chunks = core.chunked(cases, 64)
    results = core.pmap(_job, chunks)
    for stats, viol, disag, samples, keys in results:
        chk.evaluations += stats.pop("n")
        chk.out_of_model += stats.pop("oom")
        for k, v in stats.items():
            chk.count(k, v)
        for k in keys:
            chk.nontrivial.add(k)
        for s in samples:
            chk.sample(s)
        for sig, w, case in viol:
            chk.violation(sig, w, case)
        for sig, w, case in disag:
            chk.disagreements_checked += 1
            chk.disagreement(sig, w, case)
    if chk.replay_in:
        print("replay:", json.dumps({"violations": chk.violations[:2], "disagreements": chk.disagreements[:2],
                                     "known": {k: v["n"] for k, v in chk.known_hits.items()}})[:1500])
    return chk


# --------------------------------------------------------------------------- Hashes with integer keys (model leg)
#
# YAML keys may be integers (`80: http`); a KEY segment carries text, and the evaluator falls back from the text to the
# integer (`/ports/443`, `ports.443`).  The generic documents hold an integer key (1) in 8 % of their Hashes only, and
# repeated equal scalars there keep `locate` from identifying a matched scalar by its value.  These documents are made
# of DISTINCT scalars; their Hashes use integer keys (positive, zero, negative, several digits), text keys, digit text
# next to other integers, and sit under Hashes, inside Arrays and at the root.  Paths: exact ones through the keys in
# both notations, `X.*`, searches over the keys / values of such a Hash, `**`, additions of them.  The cases run through
# the ordinary model leg (`_job`): addresses with integer keys are inside the Lean model (Key.int).

INTKEYS = [0, 1, 2, 3, 7, 10, 22, 80, 443, 8080, -1, -5]
TEXTKEYS = ["a", "b", "k", "n", "p", "80x", "x1", "007", "1.0"]


def gen_intkey_doc(rng):
    n = [100]

    def leaf():
        n[0] += 1
        r = rng.random()
        return {"k": "int", "v": str(n[0])} if r < 0.4 else {"k": "str", "v": "s%d" % n[0]} if r < 0.9 else {"k": "float", "m": str(n[0] * 10 + 5), "e": -1}

    def keys(cnt):
        r = rng.random()
        if r < 0.55:
            ks = rng.sample(INTKEYS, cnt)                                   # integers only
        elif r < 0.9:
            ni = rng.randint(1, cnt)
            ks = rng.sample(INTKEYS, ni) + rng.sample(TEXTKEYS, cnt - ni)   # integers next to text keys
            rng.shuffle(ks)
        else:
            ks = rng.sample(TEXTKEYS, cnt)
        return ks

    def node(depth):
        r = rng.random()
        if depth <= 0 or r < 0.35:
            return leaf()
        if r < 0.55:
            return {"k": "seq", "i": [node(depth - 1) for _ in range(rng.choice([1, 2, 3]))]}
        return {"k": "map", "e": [[k, node(depth - 1)] for k in keys(rng.choice([1, 2, 3, 3, 4]))]}
    r = rng.random()
    if r < 0.15:
        doc = {"k": "seq", "i": [node(2) for _ in range(rng.choice([1, 2, 3]))]}
    elif r < 0.35:
        doc = {"k": "map", "e": [[k, node(2)] for k in keys(rng.choice([2, 3, 4]))]}        # integer keys at the root
    else:
        doc = {"k": "map", "e": [[k, node(2)] for k in rng.sample(ed.KEYS, rng.choice([2, 3, 4]))]}
    if not any(isinstance(a[-1][1], int) and a[-1][0] == "k" for a, _ in ed.all_addrs(doc)):
        sub = {"k": "map", "e": [[k, leaf()] for k in rng.sample(INTKEYS, 3)]}
        if doc["k"] == "seq":
            doc["i"][0] = sub
        else:
            doc["e"][0][1] = sub
    return doc


def gen_intkey_cases(rng, ndocs):
    cases = []
    for _ in range(ndocs):
        doc = gen_intkey_doc(rng)
        nodes = ed.all_addrs(doc)
        under_int = [a for a, _ in nodes if a[-1][0] == "k" and isinstance(a[-1][1], int)]
        hashes = [a for a, v in nodes if v["k"] == "map" and any(isinstance(k, int) for k, _ in v["e"])]
        for _ in range(4):
            slash = rng.random() < 0.5

            def exact():
                a = rng.choice(under_int) if rng.random() < 0.8 else rng.choice(nodes)[0]
                return _addr_text(a, slash)

            def below(suffix_slash, suffix_dot):
                base = _addr_text(rng.choice(hashes), slash) if hashes else ""
                if slash:
                    return base + suffix_slash
                return base + (suffix_dot if suffix_dot.startswith("[") or not base else "." + suffix_dot)
            r = rng.random()
            if r < 0.55:
                path = exact()
            elif r < 0.65:
                path = below("/*", "*")
            elif r < 0.75:
                path = below(rng.choice(["[.>5]", "[.=~/^[48]/]", "[.!=1]", "[.=80]"]), rng.choice(["[.>5]", "[.=~/^[48]/]", "[.!=1]", "[.=80]"]))
            elif r < 0.80:
                path = rng.choice(["/**", "**"]) if rng.random() < 0.3 else ("/**/" if slash else "**.") + str(rng.choice(INTKEYS[:10]))
            else:
                path = "+".join("(%s)" % exact() for _ in range(rng.choice([2, 2, 3])))
            cases.append({"doc": doc, "path": path, "api": rng.choice(["delete_nodes", "delete_nodes", "gathered"]), "intkeys": True})
    return cases


def locate(nc, table, doc_values, fell_back):
    """Address of the node a NodeCoords stands for.  Ordinarily the (parent, parentref) it carries (editing.addr_of).
    When the parentref names no child of the parent, the NODE still says what the path matched - the delete is about
    the matched nodes -, so it is looked up among the children of the reported parent: a container by identity, a
    scalar by identity AND a value that occurs once in the whole document (a plain int / str object may be shared by
    equal scalars, so identity alone proves nothing for them).  Exactly one child must qualify."""
    from ruamel.yaml.comments import CommentedSet
    try:
        return ed.addr_of(nc, table)
    except ed.NotLocated:
        parent, node = nc.parent, nc.node
        base = table.get(id(parent))
        if base is None or isinstance(parent, (CommentedSet, set)):
            raise
        if isinstance(parent, dict):
            hits = [k for k, v in parent.items() if v is node]
        elif isinstance(parent, list):
            hits = [i for i, v in enumerate(parent) if v is node]
        else:
            raise
        if len(hits) != 1:
            raise
        if not isinstance(node, (dict, list, set, CommentedSet)):
            try:
                if doc_values.get(json.dumps(codec.scalar_to_json(node), sort_keys=True), 0) != 1:
                    raise ed.NotLocated("scalar value not unique")
            except codec.OutOfModel:
                raise ed.NotLocated("scalar outside the model")
        fell_back.append(1)
        return base + [codec.ref_of(parent, hits[0])]


def gather_located(j, path):
    """As editing.gather(j, path, "delete"), with `locate` instead of `addr_of`.  Returns (gather result, number of
    matched nodes identified through the node instead of the parentref)."""
    from yamlpath import Processor
    from yamlpath.wrappers import NodeCoords
    twin = ed.build(j)
    table = codec.build_addr_table(twin)
    proc = Processor(core.quiet_logger(), twin)
    res = ed.guarded(lambda: list(proc.get_nodes(path, mustexist=True)))
    if res[0] != "ok":
        return ("err", res[0], res[1]), 0
    doc_values = {}
    for _, v in [((), j)] + ed.all_addrs(j):
        if v["k"] not in ("map", "seq", "set"):
            t = json.dumps(codec.strip_anchors(v), sort_keys=True)
            doc_values[t] = doc_values.get(t, 0) + 1
    out, fell_back = [], []

    def flatten(ncs):
        for nc in ncs:
            node = nc.node
            if isinstance(node, list) and len(node) > 0 and isinstance(node[0], NodeCoords):
                flatten(node)
            elif isinstance(node, NodeCoords):
                flatten([node])
            else:
                out.append(locate(nc, table, doc_values, fell_back))
    try:
        if ed.snapshot(twin) != j:
            return ("impure",), 0
        flatten(res[1])
        return ("ok", out), len(fell_back)
    except ed.NotLocated as e:
        return ("notlocated", str(e)), 0
    except codec.OutOfModel as e:
        return ("oom", str(e)), 0


# --------------------------------------------------------------------------- slices with bounds beyond the sequence (real code)
#
# `[a:b]` with a, b over -9..9 on sequences of 0-5 DISTINCT elements (strings, one empty list, one map), the sequence
# under a key, nested in a map, inside another sequence, or the document root.  Judged directly on the real code and
# independently of the parentrefs the evaluator hands out: the matched elements are identified by the VALUES of the
# nodes get_nodes() returns (elements are distinct), and after the delete the sequence must be the original minus
# exactly those elements, everything else as before.  Slices that match no element are counted, not judged.

SLICE_ELEMS = [{"k": "str", "v": "e0"}, {"k": "seq", "i": []}, {"k": "str", "v": "e2"},
               {"k": "map", "e": [["q", {"k": "int", "v": "1"}]]}, {"k": "int", "v": "4"}]
SLICE_SHAPES = ["key", "nested", "inseq", "root"]


def slice_doc(shape, n):
    seq = {"k": "seq", "i": [json.loads(json.dumps(e)) for e in SLICE_ELEMS[:n]]}
    if shape == "key":
        return {"k": "map", "e": [["a", {"k": "int", "v": "1"}], ["l", seq], ["k", {"k": "str", "v": "e0"}]]}, "l", [["k", "l"]]
    if shape == "nested":
        return ({"k": "map", "e": [["a", {"k": "map", "e": [["l", seq], ["x", {"k": "seq", "i": [{"k": "str", "v": "e0"}]}]]}]]},
                "a.l", [["k", "a"], ["k", "l"]])
    if shape == "inseq":
        return ({"k": "map", "e": [["l", {"k": "seq", "i": [{"k": "str", "v": "e0"}, seq, {"k": "seq", "i": [{"k": "str", "v": "e0"}, {"k": "str", "v": "e2"}]}]}]]},
                "l[1]", [["k", "l"], ["i", 1]])
    return seq, "", []


def gen_slice_cases():
    cases = []
    for shape in SLICE_SHAPES:
        for n in range(0, 6):
            doc, prefix, addr = slice_doc(shape, n)
            for a in range(-9, 10):
                for b in range(-9, 10):
                    for api in ("delete_nodes", "gathered"):
                        path = "%s[%d:%d]" % (prefix, a, b)
                        if (a + b) % 2 and prefix:
                            path = "/" + prefix.replace("[", "/").replace("]", "").replace(".", "/") + "[%d:%d]" % (a, b)
                        cases.append({"slice": True, "doc": doc, "path": path, "seq_addr": addr, "api": api})
    return cases


def leaf_values(ncs, out):
    from yamlpath.wrappers import NodeCoords
    for nc in ncs:
        node = nc.node if isinstance(nc, NodeCoords) else nc
        if isinstance(node, NodeCoords):
            leaf_values([node], out)
        elif isinstance(node, list) and len(node) > 0 and isinstance(node[0], NodeCoords):
            leaf_values(node, out)
        elif isinstance(node, list) and len(node) == 0 and not _is_element(nc):
            continue            # the empty result of a slice (a virtual list, not an element)
        else:
            out.append(codec.node_to_json(node, anchors=False))


def _is_element(nc):
    """True if the NodeCoords' node IS an element of its parent sequence (an empty-list element, not an empty virtual
    slice result)."""
    return isinstance(nc.parent, list) and any(x is nc.node for x in nc.parent)


def slice_case(case, bump, viol, keys):
    from yamlpath import Processor
    j, path = case["doc"], case["path"]
    twin = ed.build(j)
    proc = Processor(core.quiet_logger(), twin)
    res = ed.guarded(lambda: list(proc.get_nodes(path, mustexist=True)))
    if res[0] != "ok":
        bump("slice:skipped:query-" + res[0].split(":")[0])
        return
    if ed.snapshot(twin) != j:
        bump("slice:skipped:query-mutates-document")
        return
    vals = []
    leaf_values(res[1], vals)
    seq = j
    for kind, ref in case["seq_addr"]:
        seq = dict((k, v) for k, v in seq["e"])[ref] if kind == "k" else seq["i"][ref]
    elems = [codec.strip_anchors(e) for e in seq["i"]]
    if not vals:
        bump("slice:matched-no-element(not judged)")
        return
    if any(v not in elems for v in vals):
        bump("slice:skipped:result-is-not-an-element")
        return
    gone = set(elems.index(v) for v in vals)
    want = json.loads(json.dumps(j))
    wseq = want
    for kind, ref in case["seq_addr"]:
        wseq = dict((k, v) for k, v in wseq["e"])[ref] if kind == "k" else wseq["i"][ref]
    wseq["i"] = [e for i, e in enumerate(wseq["i"]) if i not in gone]
    r, after = real_delete(j, path, case.get("api", "delete_nodes"))
    rep = dict(case)
    bump("slice:matched:%d-of-%d" % (len(gone), len(elems)))
    bump("slice:impl:" + r[0].split(":")[0])
    what = "delete %s over a sequence of %d elements (matched elements %s)" % (path, len(elems), sorted(gone))
    if r[0] == "timeout":
        viol.append(("timeout", what + " did not finish", rep))
    elif r[0].startswith("crash"):
        viol.append(("slice-delete:%s@%s" % (r[0], r[1]), what + " raised %s (%s); document afterwards: %s" % (
            r[0], r[1], json.dumps(codec.json_to_plain(after), default=list)[:200]), rep))
    elif r[0] != "ok":
        viol.append(("slice-delete:unexpected-error", what + " raised a YAML Path error though the root is not matched", rep))
    elif after != want:
        viol.append(("slice-delete:wrong-elements-removed", what + " left %s" % json.dumps(codec.json_to_plain(after), default=list)[:240], rep))
    else:
        keys.append(_key(case))


# --------------------------------------------------------------------------- collector additions over whole containers (real code)
#
# `(p1)+(p2)[+(p3)]` whose operands are exact paths to scalars, Hashes and real Arrays (under a Hash key, inside another
# Array), `X.*` and slices.  A Collector opens an Array operand into its elements; the NodeCoords it hands out for them
# are what the delete relies on.  Judged independently of those parents / parentrefs: every leaf of the documents is
# DISTINCT, so each node get_nodes() returns on a twin is identified by its VALUE (scalars) or its identity (containers);
# the document afterwards must be the original minus exactly those nodes.

def gen_distinct_doc(rng):
    """A Hash of 3-5 keys holding Hashes, Arrays (of scalars, Arrays, Hashes) and scalars; every scalar is distinct."""
    n = [100]

    def leaf():
        n[0] += 1
        return {"k": "int", "v": str(n[0])} if rng.random() < 0.5 else {"k": "str", "v": "s%d" % n[0]}

    def node(depth):
        r = rng.random()
        if depth <= 0 or r < 0.35:
            return leaf()
        if r < 0.72:
            return {"k": "seq", "i": [node(depth - 1) for _ in range(rng.choice([1, 2, 2, 3, 3, 4]))]}
        return {"k": "map", "e": [[k, node(depth - 1)] for k in rng.sample(ed.KEYS, rng.choice([1, 2, 2, 3]))]}
    ks = rng.sample(ed.KEYS, rng.choice([3, 4, 5]))
    doc = {"k": "map", "e": [[k, node(2)] for k in ks]}
    if not any(v["k"] == "seq" for _, v in doc["e"]):
        doc["e"][0][1] = {"k": "seq", "i": [leaf(), node(1), leaf()]}
    return doc


def _addr_text(addr, slash):
    if not slash:
        return ed.path_of_addr(addr)
    return "".join("/" + str(ref) for _, ref in addr)


def gen_collector_cases(rng, ndocs):
    cases = []
    for _ in range(ndocs):
        doc = gen_distinct_doc(rng)
        nodes = ed.all_addrs(doc)
        seqs = [a for a, v in nodes if v["k"] == "seq"]
        for _ in range(4):
            slash = rng.random() < 0.5
            ops = []
            for _ in range(rng.choice([2, 2, 2, 3])):
                r = rng.random()
                if r < 0.45 and seqs:
                    ops.append(_addr_text(rng.choice(seqs), slash))                 # a real Array
                elif r < 0.85:
                    ops.append(_addr_text(rng.choice(nodes)[0], slash))             # any node
                elif r < 0.93 and seqs:
                    ops.append(_addr_text(rng.choice(seqs), slash) + rng.choice(["[0:2]", "[1:3]", "[0:1]"]))
                else:
                    a = rng.choice([a for a, v in nodes if v["k"] != "scalar" and v["k"] in ("map", "seq")] or seqs)
                    ops.append(_addr_text(a, slash) + ("/*" if slash else ".*"))
            cases.append({"collector": True, "doc": doc, "ops": ops, "path": "+".join("(%s)" % o for o in ops),
                          "api": rng.choice(["delete_nodes", "delete_nodes", "gathered"])})
    return cases


def _remove(j, gone, pre=()):
    if j["k"] == "map":
        return dict(j, e=[[k, _remove(v, gone, pre + (("k", k),))] for k, v in j["e"] if pre + (("k", k),) not in gone])
    if j["k"] == "seq":
        return dict(j, i=[_remove(v, gone, pre + (("i", i),)) for i, v in enumerate(j["i"]) if pre + (("i", i),) not in gone])
    return j


def collector_case(case, bump, viol, keys):
    from yamlpath import Processor
    from yamlpath.wrappers import NodeCoords
    j, path = case["doc"], case["path"]
    twin = ed.build(j)
    table = codec.build_addr_table(twin)            # id(container) -> address
    byval = {}
    for a, v in ed.all_addrs(j):
        if v["k"] not in ("map", "seq", "set"):
            byval[json.dumps(v, sort_keys=True)] = a
    proc = Processor(core.quiet_logger(), twin)
    res = ed.guarded(lambda: list(proc.get_nodes(path, mustexist=True)))
    if res[0] != "ok":
        bump("collector:skipped:query-" + res[0].split(":")[0])
        return
    if ed.snapshot(twin) != j:
        bump("collector:skipped:query-mutates-document")
        return
    gone = set()

    def leaves(ncs):
        for nc in ncs:
            node = nc.node
            if isinstance(node, NodeCoords):
                leaves([node])
            elif isinstance(node, list) and len(node) > 0 and isinstance(node[0], NodeCoords):
                leaves(node)
            elif isinstance(node, (dict, list)):
                if id(node) not in table:
                    raise codec.OutOfModel("virtual container")
                gone.add(tuple(tuple(x) for x in table[id(node)]))
            else:
                gone.add(tuple(byval[json.dumps(codec.scalar_to_json(node), sort_keys=True)]))
    try:
        leaves(res[1])
    except (KeyError, codec.OutOfModel):
        bump("collector:skipped:result-is-not-a-node-of-the-document")
        return
    if not gone or () in gone:
        bump("collector:skipped:no-match-or-root")
        return
    # which operands resolve to a real Array (a Collector opens it into its elements)
    seq_ops = []
    for i, op in enumerate(case["ops"]):
        r1 = ed.guarded(lambda: list(Processor(core.quiet_logger(), twin).get_nodes(op, mustexist=True)))
        if r1[0] == "ok" and any(isinstance(nc.node, list) and not (nc.node and isinstance(nc.node[0], NodeCoords)) for nc in r1[1]):
            seq_ops.append(i)
    want = _remove(j, gone)
    r, after = real_delete(j, path, case.get("api", "delete_nodes"))
    rep = dict(case)
    cls = "array-as-first-operand" if 0 in seq_ops else "array-as-later-operand" if seq_ops else "no-array-operand"
    bump("collector:" + cls)
    bump("collector:impl:" + r[0].split(":")[0])
    what = "delete %s (%s; operands resolving to a real Array: %s)" % (path, case.get("api"), seq_ops)
    tail = ":array-as-first-operand" if 0 in seq_ops else ""
    if r[0] == "timeout":
        viol.append(("timeout", what + " did not finish", rep))
    elif r[0].startswith("crash"):
        viol.append(("collector-delete:%s@%s%s" % (r[0], r[1], tail), what + " raised %s (%s)" % (r[0], r[1]), rep))
    elif r[0] != "ok":
        viol.append(("collector-delete:unexpected-error" + tail, what + " raised a YAML Path error though the root is not matched", rep))
    elif after != want:
        viol.append(("collector-delete:wrong-nodes-removed" + tail,
                     what + ": the document is not the original minus the %d matched nodes %s; it is %s" % (
                         len(gone), [ed.path_of_addr(a) for a in sorted(gone)][:8], json.dumps(codec.json_to_plain(after), default=list)[:300]), rep))
    else:
        keys.append(_key(case))


# --------------------------------------------------------------------------- documents with YAML merge keys (real code only)
#
# Merge keys (`<<: *anchor`) are outside the Lean model; the property is judged directly on the real code, on the
# PHYSICAL document (c03.mk_phys: every mapping's OWN keys in order (non_merged_items) with their values, its merge
# references in order, every sequence, every anchor, which containers are shared).  The matched nodes come from the
# real evaluator on a twin: an own key / element (parentref is an own key or an index) or a merge reference (an
# ANCHOR segment naming an anchored mapping the parent merges: `/svc0/&m1`).  After the delete the physical document
# is the original minus the matched own entries / elements / merge references: every mapping's own keys - also those
# that override a merged key - and the other merge references are as before.

MKD_KEYS = ["a", "b", "c", "k", "t"]
MKD_VALS = ["1", "2", "3", "x", "y z", "true", "30"]


def gen_merge_doc(rng):
    """YAML text: 2-3 anchored source maps &m0.. with DISTINCT contents (a source may merge an earlier one); consumers
    (top-level maps and maps inside a list) merging 1-3 sources - single `<<: *m` or a list `<<: [*m1, *m0]` - with own
    keys before/after the merge line, of which some override a merged key with ANOTHER value, some repeat a merged key
    with the SAME value, some are new; now and then an own key spelled like a source's anchor, an alias of a whole
    source, a plain list."""
    lines = ["---"]
    nsrc = rng.randint(2, 3)
    srcs = []                       # (anchor, {key: text})
    for i in range(nsrc):
        lines.append("base%d: &m%d" % (i, i))
        inherited = {}
        if srcs and rng.random() < 0.3:
            a, kv = rng.choice(srcs)
            lines.append("  <<: *%s" % a)
            inherited = dict(kv)
        ks = rng.sample(MKD_KEYS, rng.randint(1, 3))
        own = {}
        for k in ks:
            own[k] = rng.choice(MKD_VALS)
            lines.append("  %s: %s" % (k, own[k]))
        lines.append("  id%d: src%d" % (i, i))            # keeps the sources' contents distinct
        kv = dict(inherited)
        kv.update(own)
        srcs.append(("m%d" % i, kv))

    # anchored Hashes that nobody merges, named like ordinary keys of the consumers; `defs` holds their only occurrence
    defs = rng.sample(["n", "z", "t", "k"], rng.randint(1, 2)) if rng.random() < 0.45 else []
    defs_first = rng.random() < 0.5

    def defs_section():
        if defs:
            lines.append("defs:")
            for n_, name in enumerate(defs):
                lines.append("  %s: &%s {d%d: %d}" % (name, name, n_, n_))
            if rng.random() < 0.5:
                lines.append("  keep: 1")
    if defs_first:
        defs_section()

    # anchored nodes that are NOT Hashes (scalars, Arrays) named like ordinary keys of the consumers: such an anchor has
    # nothing to do with merge keys, a consumer's own key of that name is an ordinary member
    pool = [x for x in MKD_KEYS + ["n", "z", "p"] if x not in defs]
    shared = rng.sample(pool, rng.randint(1, 3)) if rng.random() < 0.4 else []
    shared_first = rng.random() < 0.6

    def shared_section():
        if shared:
            lines.append("shared:")
            for n_, name in enumerate(shared):
                lines.append("  s%d: &%s %s" % (n_, name, rng.choice(["80%d" % n_, "w%d" % n_, "[5%d, 6%d]" % (n_, n_), "true", "1.%d" % n_])))
    if shared_first:
        shared_section()

    def consumer(ind, first_prefix=None):
        picks = rng.sample(srcs, rng.choice([1, 1, 2, 2, min(3, len(srcs))]))
        merged = {}
        for a, kv in reversed(picks):
            merged.update(kv)
        ownlines = []
        for _ in range(rng.randint(0, 3)):
            r = rng.random()
            if merged and r < 0.35:
                k = rng.choice(sorted(merged))
                v = rng.choice([x for x in MKD_VALS if x != merged[k]])       # overrides a merged key
            elif merged and r < 0.5:
                k = rng.choice(sorted(merged))
                v = merged[k]                                                 # repeats the merged value
            elif r < 0.58:
                k, v = rng.choice(picks)[0], "1"                              # a key spelled like an anchor
            elif (defs or shared) and r < 0.85:
                k, v = rng.choice(defs + shared), rng.choice(MKD_VALS)        # a key spelled like an anchor nobody merges
                if k in shared and shared_first and rng.random() < 0.5:
                    v = "*" + k                                               # ... holding an alias of that anchored scalar / Array
            else:
                k, v = rng.choice(MKD_KEYS + ["n", "z"]), rng.choice(MKD_VALS)
            if k not in [x[0] for x in ownlines]:
                ownlines.append((k, v))
        mline = "<<: *%s" % picks[0][0] if len(picks) == 1 and rng.random() < 0.7 else "<<: [%s]" % ", ".join("*" + a for a, _ in picks)
        pos = rng.randint(0, len(ownlines))
        body = ["%s: %s" % kv for kv in ownlines[:pos]] + [mline] + ["%s: %s" % kv for kv in ownlines[pos:]]
        for n, b in enumerate(body):
            lines.append((first_prefix if (n == 0 and first_prefix) else ind) + b)
        return [a for a, _ in picks], [k for k, _ in ownlines]

    consumers = []          # (path prefix in segments, merged anchors, own keys)
    for i in range(rng.randint(1, 3)):
        lines.append("svc%d:" % i)
        refs, own = consumer("  ")
        consumers.append((["svc%d" % i], refs, own))
    if rng.random() < 0.6:
        lines.append("items:")
        for i in range(rng.randint(1, 3)):
            if rng.random() < 0.8:
                refs, own = consumer("    ", "  - ")
                consumers.append((["items", i], refs, own))
            else:
                lines.append("  - %s" % rng.choice(MKD_VALS))
    if rng.random() < 0.3:
        lines.append("copy: *%s" % rng.choice(srcs)[0])
    if rng.random() < 0.4:
        lines.append("top: [%s]" % ", ".join(rng.choice(MKD_VALS) for _ in range(rng.randint(1, 3))))
    if not defs_first:
        defs_section()
    if not shared_first:
        shared_section()
    return "\n".join(lines) + "\n", srcs, consumers, defs, shared


def _ptext(segs, sep):
    out = ""
    for s_ in segs:
        if sep == "/":
            out += "/" + (str(s_) if not isinstance(s_, int) else "%d" % s_)
        elif isinstance(s_, int):
            out += "[%d]" % s_
        else:
            out += ("." if out else "") + s_
    return out


def gen_merge_cases(rng, ndocs):
    cases = []
    for _ in range(ndocs):
        text, srcs, consumers, defs, shared = gen_merge_doc(rng)
        paths = []
        for name in shared:
            # an own key of a consumer (a Hash WITH merge keys) named like an anchored scalar / Array
            owners = [pre for pre, _, own in consumers if name in own]
            if owners:
                pre = rng.choice(owners)
                paths.append(rng.choice([_ptext(pre + [name], "/"), _ptext(pre + [name], "."),
                                         "(%s)+(/shared/s0)" % _ptext(pre + [name], "/"), "/*/%s" % name]))
        for name in defs:
            # one delete matching the key that holds the only &name Hash AND the consumers' own keys spelled `name`
            pre = rng.choice(consumers)[0]
            paths.append(rng.choice(["/*/%s" % name, "*.%s" % name, "(%s)+(/defs/%s)" % (_ptext(pre + [name], "/"), name),
                                     "(/defs/%s)+(%s)" % (name, _ptext(pre + [name], "/")), "(%s)+(/defs)" % _ptext(pre + [name], "/"),
                                     "/items/*/%s" % name, "(/items/*/%s)+(defs.%s)" % (name, name)]))
        for _ in range(4):
            pre, refs, own = rng.choice(consumers)
            sep = rng.choice(["/", "."])
            r = rng.random()
            if r < 0.5:
                a = rng.choice(refs)                                    # a merge reference of this mapping
            elif r < 0.6:
                a = rng.choice(srcs)[0]                                 # maybe one it does not merge
            elif r < 0.8 and own:
                paths.append(_ptext(pre + [rng.choice(own)], sep))      # an own key (overriding or not)
                continue
            elif r < 0.9:
                a = rng.choice(srcs)[0]
                paths.append(rng.choice(["/*/&%s", "*.&%s", "/items/*/&%s", "items.*.&%s", "(/svc0/&%s)+(/svc1/&%s)".replace("%s", "%s", 1)]).replace("%s", a))
                continue
            else:
                paths.append(rng.choice(["/base0/" + rng.choice(MKD_KEYS), "base1.id1", "/items/0", "items[-1]", "/top/0", "copy", "/svc0", "items"]))
                continue
            paths.append(_ptext(pre, sep) + ("/&" if sep == "/" else ".&") + a)
        for path in paths:
            cases.append({"merge": True, "text": text, "path": path, "api": rng.choice(["delete_nodes", "delete_nodes", "gathered"])})
    return cases


def mk_renumber(table, mapping=None):
    """Drop the containers no longer reachable from container 0 and number the rest in first-visit order (merge
    references first, then own entries / items - the order of c03.mk_phys)."""
    new, out = {}, []

    def ref(v):
        if v[0] != "ref":
            return v
        return ["ref", visit(v[1])]

    def visit(i):
        if i in new:
            return new[i]
        n = new[i] = len(out)
        out.append(None)
        c = table[i]
        if c["t"] == "map":
            merges = [ref(m) for m in c["merge"]]
            own = [[k, ref(v)] for k, v in c["own"]]
            out[n] = dict(c, merge=merges, own=own)
        else:
            out[n] = dict(c, items=[ref(v) for v in c["items"]])
        return n
    visit(0)
    if mapping is not None:
        mapping.update(new)
    return out


def merge_case(case, bump, viol, keys):
    from yamlpath import Processor
    from yamlpath.wrappers import NodeCoords
    from yamlpath.enums import PathSegmentTypes
    from ruamel.yaml.comments import CommentedMap
    from harness.props import c03
    text, path, api = case["text"], case["path"], case.get("api", "delete_nodes")
    twin = c03.mk_load(text)
    if twin is None:
        bump("merge-doc:skipped-does-not-load")
        return
    ids = {}
    before = c03.mk_phys(twin, ids_out=ids)
    # fence: two anchored mappings that compare equal make `merge_node == compare_node` ambiguous (evaluator's subject)
    amaps_all = ids_maps(twin)
    amaps = [c for c in amaps_all if codec.anchor_of(c)]
    if any(x is not y and x == y for x in amaps for y in amaps):
        bump("merge-doc:skipped-equal-anchored-mappings")
        return
    proc = Processor(core.quiet_logger(), twin)
    res = ed.guarded(lambda: list(proc.get_nodes(path, mustexist=True)))
    if res[0] != "ok":
        bump("merge-doc:skipped:query-" + res[0].split(":")[0])
        return
    if c03.mk_phys(twin) != before:
        bump("merge-doc:skipped:query-mutates-document")
        return
    real = []

    def flatten(ncs):
        for nc in ncs:
            node = nc.node
            if isinstance(node, list) and len(node) > 0 and isinstance(node[0], NodeCoords):
                flatten(node)
            elif isinstance(node, NodeCoords):
                flatten([node])
            else:
                real.append(nc)
    flatten(res[1])
    if not real:
        bump("merge-doc:skipped:no-match")
        return
    want = json.loads(json.dumps(before))
    rm_own, rm_item, rm_merge = set(), set(), set()
    feats = set()
    spelled = []            # (position in `real`, container, key) of matched own keys spelled like an anchored Hash
    order = []              # per matched node: ("own"|"item", container, ref, sort key of _delete_nodes)
    eq_own = {}             # container -> own keys whose value compares equal (==) to that key of a removed merged mapping
    nonhash_anchors = set()  # anchor names carried by scalars / Arrays (they have nothing to do with merge keys)
    for c_ in before:
        if c_["t"] == "seq" and c_["anchor"]:
            nonhash_anchors.add(c_["anchor"])
        for v_ in ([v for _, v in c_["own"]] if c_["t"] == "map" else c_["items"]):
            if v_[0] == "s" and v_[2]:
                nonhash_anchors.add(v_[2])
    for nc in real:
        parent, pref = nc.parent, nc.parentref
        if parent is None or id(parent) not in ids:
            bump("merge-doc:skipped:root-or-detached-parent")
            return
        ci = ids[id(parent)]
        c = before[ci]
        seg_type = nc.path_segment[0] if isinstance(nc.path_segment, tuple) else None
        if c["t"] == "seq":
            if isinstance(pref, bool) or not isinstance(pref, int) or not -len(parent) <= pref < len(parent):
                bump("merge-doc:skipped:result-does-not-locate-a-node")
                return
            rm_item.add((ci, pref % len(parent)))
            order.append(("item", ci, pref % len(parent), pref % len(parent)))
            continue
        own_keys = [k for k, _ in c["own"]]
        is_mref = (isinstance(nc.node, CommentedMap) and id(nc.node) in ids and ["ref", ids[id(nc.node)]] in c["merge"]
                   and seg_type is PathSegmentTypes.ANCHOR and codec.anchor_of(nc.node) == pref)
        if is_mref:
            rm_merge.add((ci, ids[id(nc.node)]))
            feats.add("merge-reference")
            tgt = nc.node
            for k, v in parent.non_merged_items():
                if k in tgt:
                    if tgt[k] == v:
                        feats.add("own-key-repeats-merged-value")
                        eq_own.setdefault(ci, set()).add(json.dumps(codec.key_to_json(k)))
                    else:
                        feats.add("own-key-overrides-merged-key")
            order.append(("mref", ci, None, 0))
            if len(c["merge"]) > 1:
                feats.add("several-references")
            lidx = [i for i, m in enumerate(parent.merge) if m[1] is tgt][0]
            if parent.merge[lidx][0] != lidx:
                feats.add("reference-index-differs-from-merge-key-position")
            if any(getattr(r, "merge", None) for r in getattr(parent, "_ref", [])) or any(
                    parent is m[1] for x in amaps_all for m in getattr(x, "merge", [])):
                feats.add("mapping-is-itself-merged-elsewhere")
            continue
        try:
            kj = codec.key_to_json(pref)
        except codec.OutOfModel:
            bump("merge-doc:skipped:odd-parentref")
            return
        if kj in own_keys:
            rm_own.add((ci, json.dumps(kj)))
            feats.add("own-key")
            if c["merge"] and isinstance(kj, str) and any(codec.anchor_of(m) == kj for m in amaps):
                spelled.append((len(order), ci, kj))
            elif c["merge"] and kj in nonhash_anchors:
                feats.add("own-key-named-like-an-anchored-scalar-or-array")
            order.append(("own", ci, json.dumps(kj), 0))
            continue
        bump("merge-doc:skipped:matched-an-inherited-key")
        return
    # C04-F4 is the class "own key spelled like the anchor of a Hash that is (still) part of the document when the key is
    # processed".  _delete_nodes works from the highest sort key down and, among equals, in reverse gather order; a Hash
    # whose only occurrence an earlier step of the same delete removed is no longer part of the document.
    f4_cis = set()
    for pos, ci, kj in spelled:
        earlier = [o for i, o in enumerate(order) if o[0] != "mref" and (o[3] > 0 or i > pos)]
        if _anchor_reachable(before, kj, set((o[0], o[1], o[2]) for o in earlier)):
            f4_cis.add(ci)
            feats.add("own-key-spelled-like-an-anchor")
        else:
            feats.add("own-key-spelled-like-an-anchor-removed-earlier-in-this-delete")
    # C04-F7: one delete matches an own key that overrides a merged key AND that key of the merged Hash itself
    def merged_cis(ci_, seen_=None):
        seen_ = set() if seen_ is None else seen_
        for m in before[ci_]["merge"]:
            if m[0] == "ref" and m[1] not in seen_:
                seen_.add(m[1])
                merged_cis(m[1], seen_)
        return seen_
    if any((mi, k_) in rm_own for (ci_, k_) in rm_own for mi in merged_cis(ci_)):
        feats.add("own-key-and-the-merged-key-it-overrides")
    for ci, c in enumerate(want):
        if c["t"] == "map":
            c["own"] = [[k, v] for k, v in c["own"] if (ci, json.dumps(k)) not in rm_own]
            c["merge"] = [m for m in c["merge"] if (ci, m[1]) not in rm_merge]
        else:
            c["items"] = [v for i, v in enumerate(c["items"]) if (ci, i) not in rm_item]
    renmap = {}
    renum = mk_renumber(want, renmap)
    doc = c03.mk_load(text)
    proc = Processor(core.quiet_logger(), doc)
    if api == "gathered":
        r = ed.guarded(lambda: proc.delete_gathered_nodes(list(proc.get_nodes(path, mustexist=True))))
    else:
        r = ed.guarded(lambda: list(proc.delete_nodes(path)))
    rep = dict(case)
    for f in feats:
        bump("merge-doc:feature:" + f)
    bump("merge-doc:impl:" + r[0].split(":")[0])
    what = "delete %s (%s) on a document with merge keys" % (path, api)
    if r[0] == "timeout":
        viol.append(("timeout", what + " did not finish", rep))
        return
    # known classes of the pinned tree get their own signatures (C04-F2..F5), everything else is reported plainly
    pos_class = "reference-index-differs-from-merge-key-position" in feats
    found = []
    if r[0] != "ok":
        sig = "merge-doc:%s@%s" % (r[0], r[1])
        if "own-key-spelled-like-an-anchor" in feats:
            sig = "merge-doc:own-key-spelled-like-an-anchor"
        elif pos_class and r[0] == "crash:IndexError":
            sig = "merge-doc:merge-key-position-used-as-index:crash:IndexError"
        elif "own-key-and-the-merged-key-it-overrides" in feats and r[0] == "crash:KeyError":
            sig = "merge-doc:overriding-own-key-and-merged-key-deleted-together:crash:KeyError"
        elif "mapping-is-itself-merged-elsewhere" in feats and r[0] == "crash:KeyError":
            sig = "merge-doc:reference-removed-from-a-merged-mapping:crash:KeyError"
        found.append((sig, "raised %s (%s)" % (r[0], r[1])))
    after = c03.mk_phys(proc.data)
    if len(after) != len(want) and len(after) == len(renum):
        # containers were detached as expected: judge per mapping on the renumbered table
        want = renum
        f4_cis = set(renmap[c_] for c_ in f4_cis if c_ in renmap)
        eq_own = dict((renmap[c_], v_) for c_, v_ in eq_own.items() if c_ in renmap)
    if len(after) == len(want):
        # same containers: judge own keys and references per mapping
        for ci, (w, a) in enumerate(zip(want, after)):
            if w == a:
                continue
            if w["t"] != "map" or a["t"] != "map":
                if r[0] == "ok":
                    found.append(("merge-doc:sequence-changed", "sequence #%d: expected %s, found %s" % (ci, json.dumps(w)[:160], json.dumps(a)[:160])))
                continue
            wk, ak = [json.dumps(k) for k, _ in w["own"]], [json.dumps(k) for k, _ in a["own"]]
            lost = [k for k in wk if k not in ak]
            eq = [k for k in lost if k in eq_own.get(ci, ())]
            neq = [k for k in lost if k not in eq_own.get(ci, ())]
            if ci in f4_cis and (lost or [k for k in ak if k not in wk] or w["merge"] != a["merge"]):
                found.append(("merge-doc:own-key-spelled-like-an-anchor", "mapping #%d: expected own keys %s and references %s, found %s and %s" % (
                    ci, wk, w["merge"], ak, a["merge"])))
                continue
            if neq:
                found.append(("merge-doc:own-keys-removed", "mapping #%d lost its own keys %s (not matched by the path; own keys expected %s, found %s)" % (
                    ci, neq, wk, ak)))
            if eq:
                found.append(("merge-doc:own-key-repeating-merged-value-removed", "mapping #%d lost its own keys %s whose values equal the removed mapping's" % (ci, eq)))
            if r[0] != "ok":
                continue                # a crashed delete: what was not yet removed is not judged
            if [k for k in ak if k not in wk]:
                found.append(("merge-doc:matched-own-key-not-removed", "mapping #%d still owns %s" % (ci, [k for k in ak if k not in wk])))
            elif [k for k in wk if k in ak] != ak or [kv for kv in w["own"] if json.dumps(kv[0]) in ak] != a["own"]:
                found.append(("merge-doc:own-entries-changed", "mapping #%d: expected %s, found %s" % (ci, json.dumps(w["own"])[:160], json.dumps(a["own"])[:160])))
            if w["merge"] != a["merge"]:
                found.append(("merge-doc:merge-key-position-used-as-index:other-reference-removed" if pos_class
                              else "merge-doc:merge-references-changed",
                              "mapping #%d: references expected %s, found %s" % (ci, w["merge"], a["merge"])))
            if w["anchor"] != a["anchor"]:
                found.append(("merge-doc:container-anchor-changed", "mapping #%d" % ci))
    elif r[0] == "ok" and after != renum:
        sig, detail = c03.mk_describe(renum, after)
        found.append((sig, detail))
    if r[0] == "ok" and len(after) != len(want) and after == renum:
        pass
    if not found:
        if r[0] == "ok":
            keys.append(_key({"doc": text, "path": path}))
        return
    seen = set()
    for sig, detail in found:
        if sig not in seen:
            seen.add(sig)
            viol.append((sig, what + ": " + detail + "\n" + text, rep))


def _anchor_reachable(table, name, removed):
    """Is a Hash anchored `name` reachable from the root through own entries / elements once `removed` are gone?"""
    seen, todo = set(), [0]
    while todo:
        ci = todo.pop()
        if ci in seen:
            continue
        seen.add(ci)
        c = table[ci]
        if c["t"] == "map":
            if c["anchor"] == name and ci != 0:
                return True
            kids = [v for k, v in c["own"] if ("own", ci, json.dumps(k)) not in removed]
        else:
            kids = [v for i, v in enumerate(c["items"]) if ("item", ci, i) not in removed]
        todo += [v[1] for v in kids if v[0] == "ref"]
    return False


def ids_maps(root):
    from ruamel.yaml.comments import CommentedMap, CommentedSeq
    seen, out = set(), []

    def walk(n):
        if isinstance(n, (CommentedMap, CommentedSeq)):
            if id(n) in seen:
                return
            seen.add(id(n))
            if isinstance(n, CommentedMap):
                out.append(n)
                for m in getattr(n, "merge", []):
                    walk(m[1])
                for v in n.values():
                    walk(v)
            else:
                for v in n:
                    walk(v)
    walk(root)
    return out


def real_delete(j, path, api):
    from yamlpath import Processor
    doc = ed.build(j)
    proc = Processor(core.quiet_logger(), doc)
    if api == "gathered":
        def fn():
            proc.delete_gathered_nodes(list(proc.get_nodes(path, mustexist=True)))
    else:
        def fn():
            list(proc.delete_nodes(path))
    res = ed.guarded(fn)
    return res, ed.snapshot(proc.data)


def _job(cases):
    import hashlib
    stats = {"n": 0, "oom": 0}
    viol, disag, samples, keys = [], [], [], []

    def bump(k):
        stats[k] = stats.get(k, 0) + 1
    pend = []
    for case in cases:
        stats["n"] += 1
        if case.get("slice") or case.get("merge") or case.get("collector"):
            try:
                (slice_case if case.get("slice") else merge_case if case.get("merge") else collector_case)(case, bump, viol, keys)
            except codec.OutOfModel:
                stats["oom"] += 1
            continue
        j, path = case["doc"], case["path"]
        try:
            g = ed.gather(j, path, "delete")
        except codec.OutOfModel:
            stats["oom"] += 1
            continue
        if g[0] == "err":
            bump("skipped:query-" + g[1].split(":")[0])
            continue
        if g[0] == "impure":
            bump("skipped:query-mutates-document")
            continue
        if g[0] == "oom":
            stats["oom"] += 1
            continue
        byid = 0
        if g[0] == "notlocated":
            # the parentref names no child of the parent: the matched NODE is looked up under the reported parent
            try:
                g, byid = gather_located(j, path)
            except codec.OutOfModel:
                stats["oom"] += 1
                continue
        if g[0] != "ok":
            bump("skipped:result-does-not-locate-a-node")
            continue
        addrs = g[1]
        if not addrs:
            bump("skipped:no-match")
            continue
        try:
            res, after = real_delete(j, path, case.get("api", "delete_nodes"))
        except codec.OutOfModel:
            stats["oom"] += 1
            continue
        pend.append((case, addrs, res, after, byid))
    if not pend:
        return stats, viol, disag, samples, keys
    answers = core.Driver().ask([{"op": "C04.delete", "doc": c["doc"], "addrs": a} for c, a, _, _, _ in pend])
    for (case, addrs, res, after, byid), ans in zip(pend, answers):
        j = case["doc"]
        feats = []
        if byid:
            feats.append("parentref-names-no-child-of-the-parent")
        if case.get("intkeys"):
            bump("intkeys:judged")
            if any(isinstance(a[-1][1], int) and a[-1][0] == "k" for a in addrs if a):
                bump("intkeys:matched-a-member-under-an-integer-key")
        if ed.has_dup(addrs):
            feats.append("same-node-twice")
        if ed.unsorted_siblings(addrs):
            feats.append("siblings-out-of-order")
        if ed.nested(addrs):
            feats.append("nested")
        if [] in addrs:
            feats.append("root")
        bump("matches:%s" % min(len(addrs), 6))
        for f in feats:
            bump("feature:" + f)
        bump("impl:" + res[0].split(":")[0])
        rep = dict(case, addrs=addrs)
        spec, model = ans["spec"], ans["model"]
        if spec != model:
            disag.append(("model-vs-spec", "Lean model delete differs from removeAll", rep))
        if res[0] == "timeout":
            viol.append(("timeout", "delete did not finish in 10 s", rep))
            continue
        if res[0].startswith("crash"):
            viol.append(("%s@%s" % (res[0], res[1]), "delete raised %s (%s) on %s" % (res[0], res[1], case["path"]), rep))
            continue
        if "err" in spec:
            # the root is among the matched nodes
            if res[0] != "ypath":
                viol.append(("root-not-refused", "deleting the document root was not refused", rep))
            elif after != j:
                viol.append(("root-refused-after-partial-delete",
                             "deleting the root was refused but other matched nodes had already been removed (%s)" % case["path"], rep))
            else:
                keys.append(_key(case))
            continue
        if res[0] != "ok":
            viol.append(("delete-unexpected-error", "delete raised a YAML Path error though the root is not matched", rep))
            continue
        if after != spec["ok"]:
            sig = "delete-wrong-nodes:" + ("+".join(f for f in feats if f != "nested") or "other")
            viol.append((sig, "after delete %s (%s) the document is not the original minus the matched nodes %s%s; it is %s" % (
                case["path"], case.get("api", "delete_nodes"), ["".join("[%d]" % r_ if k_ == "i" else "/" + str(r_) for k_, r_ in a) or "/" for a in addrs][:6],
                " (%d of them identified by the node itself: the parentref handed out names no child of the parent)" % byid if byid else "",
                json.dumps(codec.json_to_plain(after), default=list)[:240]), rep))
            continue
        keys.append(_key(case))
        if len(samples) < 2 and len(addrs) > 1:
            samples.append({"path": case["path"], "addrs": addrs, "doc": j})
    return stats, viol, disag, samples, keys


def _key(case):
    import hashlib
    return hashlib.blake2b(json.dumps([case["doc"], case["path"]], sort_keys=True).encode(), digest_size=8).hexdigest()
