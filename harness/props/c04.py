"""C04 — a delete removes exactly the matched nodes, whatever their number or position."""
from __future__ import annotations

import json
import os
import random

from harness import core, codec
from harness.props import editing as ed

RULE = ("seeded random documents (maps/sequences/sets to depth 3, repeated equal scalars, empty containers, anchored "
        "scalars with aliases) x paths built from the document (exact paths incl. negative indexes, wildcards, slices, "
        "searches, keyword searches, anchors, collector expressions incl. the same node twice, reversed order and the root), "
        "plus the corpus of past failures.  The matched nodes are gathered by the real evaluator on a twin document and "
        "converted to addresses; the real delete_nodes()/delete_gathered_nodes() runs on the real document; the whole "
        "document afterwards (and the error class) must equal the Lean specification removeAll (proved equal to the model). "
        "distinct_nontrivial = distinct (document, path) pairs that matched >= 1 non-root node.")

CORPUS = [
    ({"k": "map", "e": [["a", {"k": "seq", "i": [{"k": "seq", "i": []}, {"k": "int", "v": "1"}]}]]}, "a[0]"),
    ({"k": "map", "e": [["l", {"k": "seq", "i": [{"k": "int", "v": "1"}, {"k": "int", "v": "2"}, {"k": "int", "v": "3"}]}]]}, "(l[0])+(l[0])"),
    ({"k": "map", "e": [["l", {"k": "seq", "i": [{"k": "int", "v": "1"}, {"k": "int", "v": "2"}, {"k": "int", "v": "3"}, {"k": "int", "v": "4"}]}]]}, "(l[2])+(l[0])"),
    ({"k": "map", "e": [["a", {"k": "int", "v": "1"}], ["b", {"k": "int", "v": "2"}]]}, "(/)+(a)"),
    ({"k": "map", "e": [["a", {"k": "int", "v": "1"}], ["b", {"k": "int", "v": "2"}]]}, "(a)+(/)"),
    ({"k": "map", "e": [["a", {"k": "int", "v": "1"}], ["b", {"k": "int", "v": "2"}]]}, "/"),
    ({"k": "map", "e": [["l", {"k": "seq", "i": [{"k": "int", "v": "1"}, {"k": "seq", "i": []}, {"k": "int", "v": "3"}, {"k": "map", "e": []}]}]]}, "l.*"),
    ({"k": "map", "e": [["l", {"k": "seq", "i": [{"k": "int", "v": "1"}, {"k": "int", "v": "2"}, {"k": "int", "v": "3"}, {"k": "int", "v": "4"}]}]]}, "l[1:3]"),
    ({"k": "map", "e": [["l", {"k": "seq", "i": [{"k": "int", "v": "1"}, {"k": "int", "v": "2"}, {"k": "int", "v": "3"}]}]]}, "(l[-1])+(l[2])"),
    ({"k": "map", "e": [["ab", {"k": "int", "v": "1"}], ["ac", {"k": "int", "v": "2"}], ["l", {"k": "seq", "i": [{"k": "str", "v": "ab"}, {"k": "int", "v": "5"}]}]]}, "**[.^a]"),
    ({"k": "map", "e": [["s", {"k": "set", "m": ["a", "b"]}], ["x", {"k": "int", "v": "1"}]]}, "s.a"),
    ({"k": "map", "e": [["a", {"k": "int", "v": "1", "a": "x"}], ["b", {"k": "seq", "i": [{"k": "int", "v": "1", "a": "x"}, {"k": "int", "v": "1"}]}]]}, "b[0]"),
]


def gen_cases(rng, n):
    cases = []
    for _ in range(n):
        doc = ed.gen_doc(rng)
        for _ in range(3):
            cases.append({"doc": doc, "path": ed.gen_path(rng, doc), "api": rng.choice(["delete_nodes", "delete_nodes", "gathered"])})
    return cases


def run(chk: core.Check):
    core.use_repo()
    if chk.replay_in:
        rp = json.load(open(chk.replay_in))
        cases = [rp.get("case", rp)]
        chunks = [cases]
    else:
        cases = [{"doc": d, "path": p, "api": api} for d, p in CORPUS for api in ("delete_nodes", "gathered")]
        d = os.path.join(core.CORPUS_DIR, "C04")
        if os.path.isdir(d):
            for fn in sorted(os.listdir(d)):
                try:
                    cases.append(json.load(open(os.path.join(d, fn))))
                except Exception:
                    pass
        n = 14000 if chk.tier == "quick" else 250000
        cases += gen_cases(random.Random(chk.seed), n)
        chunks = core.chunked(cases, 64)
    results = core.pmap(_job, chunks)
    for stats, viol, disag, samples, keys in results:
        chk.evaluations += stats.pop("n")
        chk.out_of_model += stats.pop("oom")
        for k, v in stats.items():
            chk.count(k, v)
        for k in keys:
            chk.nontrivial.add(k)
        for s in samples:
            chk.sample(s)
        for sig, w, case in viol:
            chk.violation(sig, w, case)
        for sig, w, case in disag:
            chk.disagreements_checked += 1
            chk.disagreement(sig, w, case)
    if chk.replay_in:
        print("replay:", json.dumps({"violations": chk.violations[:2], "disagreements": chk.disagreements[:2],
                                     "known": {k: v["n"] for k, v in chk.known_hits.items()}})[:1500])
    return chk


def real_delete(j, path, api):
    from yamlpath import Processor
    doc = ed.build(j)
    proc = Processor(core.quiet_logger(), doc)
    if api == "gathered":
        def fn():
            proc.delete_gathered_nodes(list(proc.get_nodes(path, mustexist=True)))
    else:
        def fn():
            list(proc.delete_nodes(path))
    res = ed.guarded(fn)
    return res, ed.snapshot(proc.data)


def _job(cases):
    import hashlib
    stats = {"n": 0, "oom": 0}
    viol, disag, samples, keys = [], [], [], []

    def bump(k):
        stats[k] = stats.get(k, 0) + 1
    pend = []
    for case in cases:
        stats["n"] += 1
        j, path = case["doc"], case["path"]
        try:
            g = ed.gather(j, path, "delete")
        except codec.OutOfModel:
            stats["oom"] += 1
            continue
        if g[0] == "err":
            bump("skipped:query-" + g[1].split(":")[0])
            continue
        if g[0] == "impure":
            bump("skipped:query-mutates-document")
            continue
        if g[0] == "oom":
            stats["oom"] += 1
            continue
        if g[0] == "notlocated":
            bump("skipped:result-does-not-locate-a-node")
            continue
        addrs = g[1]
        if not addrs:
            bump("skipped:no-match")
            continue
        try:
            res, after = real_delete(j, path, case.get("api", "delete_nodes"))
        except codec.OutOfModel:
            stats["oom"] += 1
            continue
        pend.append((case, addrs, res, after))
    if not pend:
        return stats, viol, disag, samples, keys
    answers = core.Driver().ask([{"op": "C04.delete", "doc": c["doc"], "addrs": a} for c, a, _, _ in pend])
    for (case, addrs, res, after), ans in zip(pend, answers):
        j = case["doc"]
        feats = []
        if ed.has_dup(addrs):
            feats.append("same-node-twice")
        if ed.unsorted_siblings(addrs):
            feats.append("siblings-out-of-order")
        if ed.nested(addrs):
            feats.append("nested")
        if [] in addrs:
            feats.append("root")
        bump("matches:%s" % min(len(addrs), 6))
        for f in feats:
            bump("feature:" + f)
        bump("impl:" + res[0].split(":")[0])
        rep = dict(case, addrs=addrs)
        spec, model = ans["spec"], ans["model"]
        if spec != model:
            disag.append(("model-vs-spec", "Lean model delete differs from removeAll", rep))
        if res[0] == "timeout":
            viol.append(("timeout", "delete did not finish in 10 s", rep))
            continue
        if res[0].startswith("crash"):
            viol.append(("%s@%s" % (res[0], res[1]), "delete raised %s (%s) on %s" % (res[0], res[1], case["path"]), rep))
            continue
        if "err" in spec:
            # the root is among the matched nodes
            if res[0] != "ypath":
                viol.append(("root-not-refused", "deleting the document root was not refused", rep))
            elif after != j:
                viol.append(("root-refused-after-partial-delete",
                             "deleting the root was refused but other matched nodes had already been removed (%s)" % case["path"], rep))
            else:
                keys.append(_key(case))
            continue
        if res[0] != "ok":
            viol.append(("delete-unexpected-error", "delete raised a YAML Path error though the root is not matched", rep))
            continue
        if after != spec["ok"]:
            sig = "delete-wrong-nodes:" + ("+".join(f for f in feats if f != "nested") or "other")
            viol.append((sig, "after delete %s the document is not the original minus the matched nodes" % case["path"], rep))
            continue
        keys.append(_key(case))
        if len(samples) < 2 and len(addrs) > 1:
            samples.append({"path": case["path"], "addrs": addrs, "doc": j})
    return stats, viol, disag, samples, keys


def _key(case):
    import hashlib
    return hashlib.blake2b(json.dumps([case["doc"], case["path"]], sort_keys=True).encode(), digest_size=8).hexdigest()
