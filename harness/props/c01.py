"""C01 — query results equal the documented segment semantics (Spec.select)."""
from __future__ import annotations

import json
import random

from harness import core
from harness.props import evaluating as ev

RULE = ("complete layer: every well-formed document with <= 3 nodes over keys {a,b,ab,1,-1} and values "
        "{null,true,false,0,1,2,1.5,'a','ab',''} (maps with keys in alphabet order, sequences, sets) x every 1-segment "
        "path of the 58-item vocabulary, and every document with <= 3 nodes over the reduced alphabet "
        "(keys a,b,1; values null,true,1,1.5,'a','ab') x every 2-segment path of the core vocabulary (23 items; thorough: "
        "reduced alphabet x full vocabulary squared, and full alphabet x core vocabulary squared); the blank-edge layer: every document "
        "with <= 3 nodes over keys {a,' a'} and values {' a','a ',' ','a b',' 1',1} x 189 one-segment searches whose term has a "
        "quoted or escaped blank at its edge (' ', ' a', 'a ', \\ a, a\\ , \" a\", ' 1'; interior blank as control) x all operators, "
        "on '.' and on an attribute, plain and inverted, and regular expressions with edge blanks - the same terms and values also "
        "occur in the random layer; the look-alike key layer (complete): every document with <= 3 nodes in which a Hash holds BOTH "
        "spellings of an integer-looking key - the text key '1' and the integer key 1 (or '-1' and -1), in either order, values "
        "{null,1,'a'} - x 29 one-segment paths (keys 1, 01, 0, -1, -01, a; wildcards; searches on '.', on attribute 1 / -1; hash slices; "
        "has_child / name / parent / max / min / unique) and the 12 x 12 two-segment paths of a core list, and every such Hash with "
        "scalar values placed under a key, in a list, in an Array-of-Hashes between records holding only one of the spellings, under "
        "a key of the records of an Array-of-Hashes and in a list under a key x the two-segment paths and the three-segment paths "
        "that reach the key through key / index / pass-through / wildcard / deep-traversal prefixes (a KEY segment names the text "
        "key and falls back to the integer key only when the text key is absent: one node per Hash); 15 % of the random documents "
        "may also hold such twins (keys 1/'1', -1/'-1', 2/'2' in one Hash or Array-of-Hashes record); when the real parser delivers a SEARCH segment that differs from the search written in the path "
        "text (as read by the parser model), the specification is evaluated on the search as written; plus seeded-random documents (<= 25 nodes: Arrays-of-Hashes, sets, anchors and "
        "aliases, nested lists) x random paths of <= 5 segments (indexes and slice bounds in -9..9).  Each case is asked through "
        "get_nodes(mustexist=True) and exists() in dot notation, get_nodes(mustexist=True) in slash notation (when both texts parse "
        "to the same segments) and get_nodes(mustexist=False) on a fresh copy when the model's optional evaluation creates nothing.  "
        "Observable: the ordered list of result addresses (from the identity of NodeCoords.parent + parentref; virtual slice lists as "
        "lists of member addresses) or the error class.  Direct check: implementation = Spec.select (proved equal to the model).  "
        "Thorough sizes: 700 000 random cases (quick 60 000) and, next to the complete layers (untouched), 120 of the 300 "
        "seeded anchored variants in the full two-segment product (trimmed from 1 000 000 / 300: the run took 30.4 min at "
        "load 40-60; the complete layers are not sampled).  "
        "distinct_nontrivial = distinct (document, path) whose required query returns at least one node.  Collector layer (wave w3): "
        "seeded-random collector paths (1-4 operands joined by + - &, operands = straight paths to existing nodes, related paths, "
        "wildcards, slices, searches, nested collectors; optional index / slice / key tail or key prefix) over hashes sharing keys and "
        "values and over random documents without aliases; observable: per result the flattened list of (node value after the query, "
        "address of the reported parent, parentref, identity address of containers), the error class (crash classes included), and "
        "the document after get_nodes(mustexist=True) and after exists() - all compared with the state-passing model W3.requiredM.")


THOROUGH_ANCH2 = 120      # anchored variants (a seeded sample, not part of the complete layer) in the thorough two-segment product


def build_jobs(chk, opts, nrand_quick=60000, nrand_thorough=700000, grid=False, blank=False, twins=False):
    rng = random.Random(chk.seed)
    tier = chk.tier
    jobs = []
    docs3 = ev.small_docs(3)
    docs3s = ev.small_docs(3, ev.KEYS_S, ev.VALUES_S)
    anch = ev.anchored_variants(rng, [d for d in docs3 if d["k"] in ("map", "seq") and ev.count_nodes(d) >= 2], 300)
    one = [[v] for v in ev.VOCAB]
    two_core = [[a, b] for a in ev.CORE for b in ev.CORE]
    cases = []
    for d in docs3 + anch:
        for p in one:
            cases.append((d, p))
    if tier == "quick":
        for d in docs3s + anch[:60]:
            for p in two_core:
                cases.append((d, p))
        nrand = nrand_quick
    else:
        two_full = [[a, b] for a in ev.VOCAB for b in ev.VOCAB]
        for d in docs3s + anch[:THOROUGH_ANCH2]:
            for p in two_full:
                cases.append((d, p))
        for d in docs3:
            for p in two_core:
                cases.append((d, p))
        nrand = nrand_thorough
    chk.extra_cov["exhaustive_bound"] = ("%d documents (<= 3 nodes) x %d one-segment paths; %d documents x %d two-segment paths" % (
        len(docs3) + len(anch), len(one), len(docs3s) + 60 if tier == "quick" else len(docs3s) + len(anch[:THOROUGH_ANCH2]),
        len(two_core) if tier == "quick" else len(ev.VOCAB) ** 2)
        + ("" if tier == "quick" else "; %d documents x %d core two-segment paths" % (len(docs3), len(two_core))))
    chk.extra_cov["exhaustive_cases"] = len(cases)
    # searches whose term has a significant blank at its edge, on documents whose values / keys have such blanks
    if blank:
        docs_b = ev.small_docs(3, ev.BLANK_KEYS, ev.BLANK_VALUES)
        cases += [(d, [p]) for d in docs_b for p in ev.BLANK_VOCAB]
        chk.extra_cov["blank_edge_layer"] = "%d documents (<= 3 nodes, values/keys with leading / trailing blanks) x %d search items" % (
            len(docs_b), len(ev.BLANK_VOCAB))
    # Hashes holding both spellings of an integer-looking key ('1' and 1): complete layer, and a share of the random documents
    if twins:
        tw, ntw = ev.twin_cases()
        cases += tw
        chk.extra_cov["lookalike_key_layer"] = ("%d documents in which a Hash holds an integer key and the text key of the same spelling "
                                                "(either order; at the root, under a key, in lists and Arrays-of-Hashes), %d cases" % (ntw, len(tw)))
    rnd = []
    for _ in range(nrand):
        if twins and rng.random() < 0.15:
            d = ev.random_doc(rng, rng.choice([6, 10, 15, 25]), keys=ev.RKEYS + ["-1", "2"], twins=True)
        else:
            d = ev.random_doc(rng, rng.choice([6, 10, 15, 25]))
        rnd.append((d, ev.guided_path(rng, d) if rng.random() < 0.8 else ev.random_path(rng)))
    if grid:
        cases += index_grid()
    allc = cases + rnd
    rng.shuffle(allc)   # balance the chunks
    allc = subsample(chk, allc)
    jobs = [(c, opts) for c in core.chunked(allc, 256)]
    return jobs


def subsample(chk, cases):
    """YPV_FRACTION=<0..1> runs a seeded sample of the case list (used by the mutation self-tests)."""
    import os
    f = float(os.environ.get("YPV_FRACTION", "1") or 1)
    if f >= 1:
        return cases
    chk.exhaustive = False
    chk.notes.append("YPV_FRACTION=%s: sampled run, not the registered check" % f)
    return cases[:max(1, int(len(cases) * f))]


def index_grid():
    """C15: every index and every slice bound pair in -9..9 on sequences of length 0..4 (root and nested)."""
    out = []
    vals = [{"k": "int", "v": str(i)} for i in range(4)]
    for n in range(5):
        seq = {"k": "seq", "i": vals[:n]}
        for i in range(-9, 10):
            out.append((seq, ["[%d]" % i]))
            out.append((seq, [str(i)]))
            out.append(({"k": "map", "e": [["a", seq]]}, ["a", "[%d]" % i]))
            for j in range(-9, 10):
                out.append((seq, ["[%d:%d]" % (i, j)]))
        aoh = {"k": "seq", "i": [{"k": "map", "e": [["a", v]]} for v in vals[:n]]}
        for i in range(-9, 10):
            for j in range(-9, 10):
                if (i + j) % 3 == 0:
                    out.append((aoh, ["[%d:%d]" % (i, j), "a"]))
    return out


def absorb(chk, results):
    nontrivial = 0
    for stats, viol, disag, samples in results:
        chk.evaluations += stats["n"]
        nontrivial += stats["nontrivial"]
        chk.out_of_model += stats["oom"]
        for k in ("queries", "nonempty", "ypath", "crash", "unparsable", "slash_skipped", "opt_compared", "virtual",
                  "c09_mutations", "deep_results", "requeries", "search_as_written"):
            chk.count(k, stats.get(k, 0))
        for k, v in stats["kinds"].items():
            chk.count("segment:" + k, v)
        for k, v in stats["docsize"].items():
            chk.count("docnodes:%02d" % int(k), v)
        for s in samples:
            chk.sample(s)
        for sig, w, case in viol:
            if case.get("prop", chk.pid) == chk.pid or chk.pid == "C01" and case.get("prop") == "C01":
                chk.violation(sig, w, case)
            else:
                chk.count("other-property-violations:" + case.get("prop", "?"))
        for sig, w, case in disag:
            chk.disagreements_checked += 1
            chk.disagreement(sig, w, case)
    chk.nontrivial_extra = nontrivial
    # the replay is the smallest failing input found
    chk.violations.sort(key=lambda v: ev.count_nodes(v["case"]["doc"]) * 10 + len(v["case"].get("path") or ""))


def replay(chk, opts):
    rp = json.load(open(chk.replay_in))
    c = rp.get("case", rp)
    if c.get("layer"):      # a collector case (wave w3)
        stats, viol, _dis = ev.w3_chunk(([(c["doc"], c["path"], c["layer"])], opts))
        print("replay:", json.dumps({"doc": c["doc"], "path": c["path"], "violations": [(s, w) for s, w, _ in viol]}, default=str)[:3000])
        chk.evaluations += stats["n"]
        for sig, w, case in viol:
            if case.get("prop") == "C01":
                chk.violation(sig, w, case)
        return chk
    items = c.get("items") or [c["path"]]
    res = ev.compare_chunk(([(c["doc"], items)], opts))
    print("replay:", json.dumps({"doc": c["doc"], "path": c.get("path"), "violations": [(s, w) for s, w, _ in res[1]],
                                 "disagreements": [(s, w) for s, w, _ in res[2]]}, default=str)[:3000])
    absorb(chk, [res])


def run(chk: core.Check):
    core.use_repo()
    opts = {"c02": False, "slash": True}
    if chk.replay_in:
        return replay(chk, opts)
    chk.exhaustive = True
    jobs = build_jobs(chk, opts, blank=True, twins=True)
    absorb(chk, core.pmap(ev.compare_chunk, jobs))
    collectors(chk)
    return chk


def collectors(chk, nquick=16000, nthorough=200000):
    """Wave w3: collector paths against the state-passing model `W3.requiredM` (driver op C01.coll): flattened results
    (node value after the query, reported parent address + parentref, identity address of containers), error class,
    and the document after get_nodes(mustexist=True) / exists()."""
    rng = random.Random(chk.seed * 7919 + 3)
    cases = ev.w3_cases(rng, nquick if chk.tier == "quick" else nthorough)
    cases = cases[:10] + subsample(chk, cases[10:])
    nontrivial = 0
    for stats, viol, disag in core.pmap(ev.w3_chunk, [(c, {}) for c in core.chunked(cases, 400)]):
        chk.evaluations += stats["n"]
        chk.out_of_model += stats["oom"]
        nontrivial += stats["nontrivial"]
        for k in ("nonempty", "ypath", "crash_agree", "mutated", "virtual_results", "hashsub"):
            chk.count("collector:" + k, stats[k])
        for k, v in stats["ops"].items():
            chk.count("collector-ops:" + (k or "none"), v)
        for sig, w, case in viol:
            if case.get("prop") == "C01":
                chk.violation(sig, w, case)
            else:
                chk.count("other-property-violations:" + case.get("prop", "?"))
        for sig, w, case in disag:
            chk.disagreements_checked += 1
            chk.disagreement(sig, w, case)
    chk.nontrivial_extra += nontrivial
    chk.extra_cov["collectors"] = "%d seeded-random collector paths (1-4 operands, nesting <= 2, + - &, index/slice/key tails) " \
        "over hashes sharing keys and values / random documents without aliases, + 10 escaped-operand paths" % (len(cases) - 10)
