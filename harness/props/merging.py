"""Shared by C05 and C18: document / policy generators, running the real Merger under a timer,
the policy JSON sent to the Lean driver, comparison helpers."""
from __future__ import annotations

import itertools
import os
import signal
import tempfile
from types import SimpleNamespace

from harness import core, codec

HASH = ["deep", "left", "right"]
ARRAY = ["all", "left", "right", "unique"]
AOH = ["all", "deep", "left", "right", "unique"]
SETS = ["left", "right", "unique"]
ALL_POLICIES = [dict(hash=h, array=a, aoh=o, set=s) for h, a, o, s in itertools.product(HASH, ARRAY, AOH, SETS)]


class MergeTimeout(Exception):
    pass


def _alarm(_sig, _frm):
    raise MergeTimeout()


# --------------------------------------------------------------------------- documents (canonical JSON)

NULL = {"k": "null"}


def S(v):
    if v is None:
        return {"k": "null"}
    if isinstance(v, bool):
        return {"k": "bool", "v": v}
    if isinstance(v, int):
        return {"k": "int", "v": str(v)}
    if isinstance(v, float):
        m, e = codec.float_to_me(v)
        return {"k": "float", "m": str(m), "e": e}
    return {"k": "str", "v": v}


def M(*es):
    return {"k": "map", "e": [[k, v] for k, v in es]}


def L(*items):
    return {"k": "seq", "i": list(items)}


def SET(*ms):
    return {"k": "set", "m": list(ms)}


SCALARS1 = [S(None), S(1), S(2), S("a"), S(True), S(1.0)]
KEYS = ["a", "b"]
MEMBERS = ["a", "b", 1]


def docs_of_size(n, _memo={}):
    """All documents with exactly n nodes (containers, scalars and set members count 1 each) over the
    small alphabet: scalars null 1 2 "a" true 1.0, keys a b, set members a b 1."""
    if n in _memo:
        return _memo[n]
    out = []
    if n == 1:
        out = list(SCALARS1) + [M(), L(), SET()]
    else:
        # maps: ordered distinct keys, children sizes summing to n-1
        for nk in range(1, n):
            for keys in itertools.permutations(KEYS, nk):
                for sizes in _compositions(n - 1, nk):
                    for kids in itertools.product(*[docs_of_size(s) for s in sizes]):
                        out.append(M(*zip(keys, kids)))
        # seqs
        for ni in range(1, n):
            for sizes in _compositions(n - 1, ni):
                for kids in itertools.product(*[docs_of_size(s) for s in sizes]):
                    out.append(L(*kids))
        # sets: n-1 members
        if n - 1 <= len(MEMBERS):
            for ms in itertools.permutations(MEMBERS, n - 1):
                out.append(SET(*ms))
    _memo[n] = out
    return out


def _compositions(total, parts):
    if parts == 1:
        if total >= 1:
            yield (total,)
        return
    for first in range(1, total - parts + 2):
        for rest in _compositions(total - first, parts - 1):
            yield (first,) + rest


def docs_up_to(n):
    out = []
    for i in range(1, n + 1):
        out += docs_of_size(i)
    return out


# random larger documents ---------------------------------------------------------------------

RKEYS = ["a", "b", "c", "id", "n", "k1"]
RSCAL = [None, 0, 1, 2, 3, "a", "b", "x", "1", "2", True, False, 1.0, 2.5, "true", ""]
IDVALS = [1, 2, 3, "a", "b", "1", "2"]


def rand_scalar(rng):
    return S(rng.choice(RSCAL))


def rand_record(rng, depth, idkey="id"):
    es = []
    if rng.random() < 0.85:
        es.append((idkey, S(rng.choice(IDVALS))))
    for k in rng.sample([x for x in ["a", "b", "c", "n", "id"] if x != idkey], rng.randint(0, 2)):
        es.append((k, rand_doc(rng, depth - 1)))
    if rng.random() < 0.2:
        rng.shuffle(es)
    return M(*es)


def rand_doc(rng, depth, kind=None):
    if kind is None:
        if depth <= 0:
            kind = rng.choice(["scalar", "scalar", "scalar", "emap", "eseq", "eset"])
        else:
            kind = rng.choice(["scalar", "map", "map", "map", "seq", "aoh", "aoh", "set", "mixed", "emap", "eseq"])
    if kind == "scalar":
        return rand_scalar(rng)
    if kind == "emap":
        return M()
    if kind == "eseq":
        return L()
    if kind == "eset":
        return SET()
    if kind == "map":
        ks = rng.sample(RKEYS, rng.randint(1, 4))
        return M(*[(k, rand_doc(rng, depth - 1)) for k in ks])
    if kind == "seq":
        n = rng.randint(1, 4)
        if rng.random() < 0.7:
            return L(*[rand_scalar(rng) for _ in range(n)])
        return L(*[rand_doc(rng, depth - 1, rng.choice(["scalar", "seq", "eseq", "scalar"])) for _ in range(n)])
    if kind == "aoh":
        idkey = rng.choice(["id", "id", "id", "n"])
        return L(*[rand_record(rng, depth, idkey) for _ in range(rng.randint(1, 3))])
    if kind == "mixed":
        items = [rand_record(rng, depth) if rng.random() < 0.5 else rand_doc(rng, depth - 1) for _ in range(rng.randint(1, 3))]
        return L(*items)
    if kind == "set":
        return SET(*rng.sample(["a", "b", "c", 1, 2, "1"], rng.randint(1, 3)))
    raise ValueError(kind)


def mutate(rng, d, depth):
    """A right-hand partner related to d: same shape with some values changed, keys dropped / added /
    reordered, kinds clashing at equal keys."""
    k = d["k"]
    r = rng.random()
    if r < 0.08:
        return rand_doc(rng, depth)
    if k == "map":
        es = []
        for kk, v in d["e"]:
            x = rng.random()
            if x < 0.2:
                continue
            if x < 0.35:
                es.append([kk, rand_doc(rng, max(depth - 1, 0))])
            else:
                es.append([kk, mutate(rng, v, depth - 1)])
        for kk in RKEYS:
            if rng.random() < 0.2 and all(kk != e[0] for e in es):
                es.insert(rng.randint(0, len(es)), [kk, rand_doc(rng, max(depth - 1, 0))])
        if rng.random() < 0.3:
            rng.shuffle(es)
        return {"k": "map", "e": es}
    if k == "seq":
        items = [mutate(rng, v, depth - 1) if rng.random() < 0.7 else rand_doc(rng, max(depth - 1, 0)) for v in d["i"]]
        if rng.random() < 0.4 and items:
            items.append(rng.choice(items))
        if rng.random() < 0.3:
            rng.shuffle(items)
        if rng.random() < 0.15:
            items = []
        return {"k": "seq", "i": items}
    if k == "set":
        ms = [m for m in d["m"] if rng.random() < 0.7]
        for m in ["a", "b", "c", 1, 2]:
            if rng.random() < 0.25 and m not in ms:
                ms.append(m)
        return {"k": "set", "m": ms}
    if rng.random() < 0.5:
        return d
    return rand_scalar(rng)


def rand_pair(rng):
    depth = rng.choice([1, 2, 2, 3])
    l = rand_doc(rng, depth, rng.choice([None, "map", "map", "map", "aoh", "seq", "set"]))
    r = mutate(rng, l, depth) if rng.random() < 0.8 else rand_doc(rng, depth)
    if rng.random() < 0.1:
        l, r = r, l
    return l, r


def node_addrs(d, only_str_keys=True):
    """[(addr, node)] for every node reachable through string keys and list indices."""
    out = []

    def walk(n, addr):
        out.append((addr, n))
        if n["k"] == "map":
            for kk, v in n["e"]:
                if isinstance(kk, str) and kk.isalnum():
                    walk(v, addr + [["k", kk]])
        elif n["k"] == "seq":
            for i, v in enumerate(n["i"]):
                walk(v, addr + [["i", i]])
    walk(d, [])
    return out


def addr_to_path(addr):
    if not addr:
        return "/"
    out = ""
    for t, v in addr:
        out += ("/%s" % v) if t == "k" else ("[%d]" % v)
    return out if out.startswith("/") else "/" + out


def valid_rule_names(n):
    k = n["k"]
    if k == "map":
        return HASH
    if k == "set":
        return SETS
    if k == "seq":
        if n["i"] and n["i"][0]["k"] == "map":
            return AOH
        if n["i"]:
            return ARRAY
        return ["left", "right", "all", "unique"]
    return ["left", "right"]


def rand_policy(rng, r, with_rules=True):
    """A configuration: command-line values, [defaults] values, rules and keys addressed into r."""
    cfg = {}
    for name, opts in (("hash", HASH), ("array", ARRAY), ("aoh", AOH), ("set", SETS)):
        x = rng.random()
        if x < 0.6:
            cfg[name] = rng.choice(opts)
        y = rng.random()
        if y < 0.25:
            cfg["d" + name] = rng.choice(opts)
    if with_rules:
        addrs = node_addrs(r)
        rules, keys = [], []
        if addrs and rng.random() < 0.7:
            for addr, n in rng.sample(addrs, min(len(addrs), rng.randint(1, 3))):
                names = valid_rule_names(n)
                nm = rng.choice(names) if rng.random() < 0.93 else rng.choice(AOH + ["bogus"])
                rules.append([addr, nm])
        aohs = [(a, n) for a, n in addrs if n["k"] == "seq" and n["i"] and n["i"][0]["k"] == "map" and a]
        if aohs and rng.random() < 0.5:
            a, n = rng.choice(aohs)
            cands = [e[0] for e in n["i"][0]["e"] if isinstance(e[0], str)] + ["id", "n"]
            tgt = a if rng.random() < 0.7 else a + [["i", 0]]
            keys.append([tgt, rng.choice(cands)])
        if rules:
            cfg["rules"] = rules
        if keys:
            cfg["keys"] = keys
    return cfg


# --------------------------------------------------------------------------- typed_value table

def str_scalars(d, acc):
    k = d["k"]
    if k == "str":
        acc.add(d["v"])
    elif k == "map":
        for _kk, v in d["e"]:
            str_scalars(v, acc)
    elif k == "seq":
        for v in d["i"]:
            str_scalars(v, acc)


def tv_table(docs):
    """[[text, scalar JSON]] for every text value in the documents: Nodes.typed_value of it
    (the model takes ast.literal_eval as a parameter).  Raises OutOfModel for a non-scalar result."""
    from yamlpath.common import Nodes
    acc = set()
    for d in docs:
        str_scalars(d, acc)
    out = []
    for s in sorted(acc):
        v = Nodes.typed_value(s)
        if v is not None and not isinstance(v, (bool, int, float, str)):
            raise codec.OutOfModel("typed_value(%r) = %r" % (s, v))
        j = codec.scalar_to_json(v)
        if j != {"k": "str", "v": s}:
            out.append([s, j])
    return out


def model_cfg(cfg, docs):
    c = dict(cfg)
    tv = tv_table(docs)
    if tv:
        c["tv"] = tv
    return c


# --------------------------------------------------------------------------- the real Merger

_TMPDIR = None


def _tmpdir():
    global _TMPDIR
    if _TMPDIR is None or not os.path.isdir(_TMPDIR) or _TMPDIR_PID != os.getpid():
        _new_tmpdir()
    return _TMPDIR


_TMPDIR_PID = None


def _new_tmpdir():
    global _TMPDIR, _TMPDIR_PID
    _TMPDIR = tempfile.mkdtemp(prefix="ypv-merge-")
    _TMPDIR_PID = os.getpid()
    import atexit
    import shutil
    d = _TMPDIR
    atexit.register(lambda: shutil.rmtree(d, ignore_errors=True))


def write_ini(cfg, path):
    lines = []
    d = [(n, cfg["d" + n]) for n in ("hash", "array", "aoh", "set") if cfg.get("d" + n)]
    names = {"hash": "hashes", "array": "arrays", "aoh": "aoh", "set": "sets"}
    if d:
        lines.append("[defaults]")
        lines += ["%s = %s" % (names[n], v) for n, v in d]
    if cfg.get("rules"):
        lines.append("[rules]")
        lines += ["%s = %s" % (addr_to_path(a), v) for a, v in cfg["rules"]]
    if cfg.get("keys"):
        lines.append("[keys]")
        lines += ["%s = %s" % (addr_to_path(a), v) for a, v in cfg["keys"]]
    with open(path, "w") as fh:
        fh.write("\n".join(lines) + "\n")


def needs_ini(cfg):
    return any(cfg.get("d" + n) for n in ("hash", "array", "aoh", "set"))


def rules_have_dups(cfg):
    for sec in ("rules", "keys"):
        paths = [addr_to_path(a) for a, _ in cfg.get(sec, [])]
        if len(set(paths)) != len(paths):
            return True
    return False


def make_config(cfg, via="kw", extra_args=None):
    """A real MergerConfig for the policy JSON.  via='kw': rules/keys through the constructor's
    keyword arguments; via='ini': everything but the command-line values through a real INI file."""
    from yamlpath.merger import MergerConfig
    ns = {}
    names = {"hash": "hashes", "array": "arrays", "aoh": "aoh", "set": "sets"}
    for n, attr in names.items():
        if cfg.get(n):
            ns[attr] = cfg[n]
    if extra_args:
        ns.update(extra_args)
    kw = {}
    if via == "ini" or needs_ini(cfg):
        p = os.path.join(_tmpdir(), "cfg-%d.ini" % os.getpid())
        write_ini(cfg, p)
        ns["config"] = p
    else:
        if cfg.get("rules"):
            kw["rules"] = {addr_to_path(a): v for a, v in cfg["rules"]}
        if cfg.get("keys"):
            kw["keys"] = {addr_to_path(a): v for a, v in cfg["keys"]}
    return MergerConfig(core.quiet_logger(), SimpleNamespace(**ns), **kw)


def classify_exc(e):
    cls = core.exc_class(e)
    if cls == "merge":
        return {"err": "merge"}
    site = core.crash_site(e)
    if isinstance(e, NameError) and site.endswith(":from_str"):
        return {"err": "config"}
    return {"err": cls, "site": site}


def impl_merge(lj, rj, cfg, via="kw", limit_s=5.0):
    """Merger(l).merge_with(r) on freshly built documents: {"ok": canonical doc} | {"err": class, "site"?}."""
    from yamlpath.merger import Merger
    old = signal.signal(signal.SIGVTALRM, _alarm)
    signal.setitimer(signal.ITIMER_VIRTUAL, limit_s)
    try:
        mc = make_config(cfg, via)
        m = Merger(mc.log, codec.json_to_ruamel(lj), mc)
        m.merge_with(codec.json_to_ruamel(rj))
        return {"ok": codec.node_to_json(m.data, anchors=False)}
    except MergeTimeout:
        return {"err": "timeout"}
    except codec.OutOfModel:
        return {"oom": 1}
    except RecursionError as e:
        return {"err": "crash:RecursionError", "site": core.crash_site(e)}
    except Exception as e:  # noqa
        return classify_exc(e)
    finally:
        signal.setitimer(signal.ITIMER_VIRTUAL, 0)
        signal.signal(signal.SIGVTALRM, old)


# --------------------------------------------------------------------------- comparison helpers

def content_eq(a, b):
    """Equality as data: mappings compared as dictionaries (order ignored), sets as sets."""
    if a["k"] != b["k"]:
        return False
    k = a["k"]
    if k == "map":
        da, db = {_hk(x[0]): x[1] for x in a["e"]}, {_hk(x[0]): x[1] for x in b["e"]}
        return len(a["e"]) == len(b["e"]) and da.keys() == db.keys() and all(content_eq(da[x], db[x]) for x in da)
    if k == "seq":
        return len(a["i"]) == len(b["i"]) and all(content_eq(x, y) for x, y in zip(a["i"], b["i"]))
    if k == "set":
        return sorted(map(_hk, a["m"])) == sorted(map(_hk, b["m"]))
    return a == b


def _hk(k):
    return ("i", k) if isinstance(k, int) else ("s", k)


def is_subseq(xs, ys):
    it = iter(ys)
    return all(any(x == y for y in it) for x in xs)


def order_ok(l, r, m):
    """OrderOK at the root: keys of l keep their relative order in m; keys only in r appear in r's order."""
    if not (l["k"] == r["k"] == m["k"] == "map"):
        return True
    lk = [_hk(e[0]) for e in l["e"]]
    rk = [_hk(e[0]) for e in r["e"]]
    mk = [_hk(e[0]) for e in m["e"]]
    ronly = [k for k in rk if k not in lk]
    return is_subseq(lk, mk) and is_subseq(ronly, mk)


def kind(d):
    k = d["k"]
    if k in ("map", "seq", "set"):
        if k == "seq" and d["i"] and d["i"][0]["k"] == "map":
            return "aoh"
        return k
    return "null" if k == "null" else "scalar"


def size(d):
    k = d["k"]
    if k == "map":
        return 1 + sum(size(v) for _k, v in d["e"])
    if k == "seq":
        return 1 + sum(size(v) for v in d["i"])
    if k == "set":
        return 1 + len(d["m"])
    return 1
