"""Shared by C12 and C13: scalar pools, canonical forms of typed values, guarded calls into
Searches.search_matches / Nodes.typed_value, regex oracle answers computed with Python's re."""
from __future__ import annotations

import itertools
import re
import signal
import warnings

from harness import core, codec

warnings.filterwarnings("ignore", category=SyntaxWarning)

METHODS = ["CONTAINS", "ENDS_WITH", "EQUALS", "STARTS_WITH", "GREATER_THAN", "LESS_THAN",
           "GREATER_THAN_OR_EQUAL", "LESS_THAN_OR_EQUAL", "REGEX"]

# the characters on which typed_value's outcome hinges (DESIGN 3.1) ...
TYPED_ALPHABET = ['0', '1', '5', '_', '.', 'e', 'E', '+', '-', ' ', 'a', 'T', 'N', 'x', 'j', '\t']
# ... and whole words mixed into the random stream
TYPED_WORDS = ["True", "true", "TRUE", "False", "fAlSe", "None", "none", "1.5", "-2", "1e5", "0x1f", "1_000",
               "12", "007", "00", ".5", "5.", "1e-5", "1E+3", "...", "é", "日", "abc", " ", "  ", "-", "+", "1.50", "2.0",
               "'q'", '"d"', "(1)", "[1]", "{}", "#c", "1,2", "\\", "1j", "inf", "nan", "\n", "0.1", "1e16", "1e-7",
               "123456789012345", "1234567890123456", "0.000001", "9" * 20, "1e300", "1e310", "-0.0", "-0"]


class Timeout(Exception):
    pass


def _alarm(_s, _f):
    raise Timeout()


def guarded(fn, limit_s=5.0):
    """Run fn() under a timer: ("ok", value) | ("exc", exception) | ("timeout", None)."""
    old = signal.signal(signal.SIGVTALRM, _alarm)
    signal.setitimer(signal.ITIMER_VIRTUAL, limit_s)
    try:
        return ("ok", fn())
    except Timeout:
        return ("timeout", None)
    except BaseException as e:  # noqa: the implementation may raise anything
        if isinstance(e, (KeyboardInterrupt, SystemExit)):
            raise
        return ("exc", e)
    finally:
        signal.setitimer(signal.ITIMER_VIRTUAL, 0)
        signal.signal(signal.SIGVTALRM, old)


def typed_json(v):
    """Canonical form of a value returned by Nodes.typed_value (same shape as the model's Typed)."""
    if v is None:
        return {"k": "null"}
    if isinstance(v, bool):
        return {"k": "bool", "v": bool(v)}
    if isinstance(v, int):
        return {"k": "int", "v": str(int(v))}
    if isinstance(v, float):
        me = codec.float_to_me(v)
        if me is None:
            return {"k": "other", "v": repr(v)}
        return {"k": "float", "m": str(me[0]), "e": me[1]}
    if isinstance(v, str):
        return {"k": "text", "v": str(v)}
    return {"k": "other", "v": type(v).__name__}


def float_in_domain(f: float) -> bool:
    """The model's float domain: finite, no negative zero, repr has <= 15 significant digits,
    decimal point position within +-300 (there decimal comparison == IEEE comparison and repr is
    the canonical decimal)."""
    me = codec.float_to_me(f)
    if me is None:
        return False
    m, e = me
    if m == 0:
        return repr(f) == "0.0"
    n = len(str(abs(m)))
    return n <= 15 and -300 <= n + e <= 300


def scalar_in_domain(v) -> bool:
    if isinstance(v, bool) or v is None or isinstance(v, str):
        return True
    if isinstance(v, int):
        return abs(v) < 10 ** 15          # int-vs-float comparisons stay exact in double
    if isinstance(v, float):
        return float_in_domain(v)
    return False


def rx_answer(pattern: str, text: str):
    """What Python's re says: True/False = search found / did not find; None = invalid pattern."""
    try:
        return re.compile(pattern).search(text) is not None
    except re.error:
        return None
    except (RecursionError, OverflowError):
        return None


def exhaustive_texts(alphabet, maxlen):
    for n in range(0, maxlen + 1):
        for tup in itertools.product(alphabet, repeat=n):
            yield "".join(tup)


def random_typed_text(rng):
    n = rng.randint(1, 9)
    out = []
    for _ in range(n):
        if rng.random() < 0.2:
            out.append(rng.choice(TYPED_WORDS))
        else:
            out.append(rng.choice(TYPED_ALPHABET))
    return "".join(out)


def compare_typed_chunk(texts):
    """typed_value(text) of the implementation vs the model, for a list of texts."""
    from yamlpath.common import Nodes
    model = core.Driver().ask([{"op": "C12.typed", "t": t} for t in texts])
    stats = {"n": 0, "oom": 0, "nontrivial": 0, "kinds": {}}
    disag, viol = [], []
    for t, mo in zip(texts, model):
        stats["n"] += 1
        st, val = guarded(lambda: Nodes.typed_value(t))
        mk = mo["typed"]["k"]
        if st != "ok":
            name = type(val).__name__ if st == "exc" else "timeout"
            # typed_value itself raising is a crash of every comparison on this text
            if mk != "unmodelled":
                viol.append(("typed_value-raises:%s" % name, "Nodes.typed_value(%r) raised %s" % (t, name), {"text": t}))
            else:
                stats["oom"] += 1
            continue
        if mk == "unmodelled":
            stats["oom"] += 1
            continue
        ij = typed_json(val)
        stats["kinds"][ij["k"]] = stats["kinds"].get(ij["k"], 0) + 1
        if ij["k"] != "text":
            stats["nontrivial"] += 1
        if ij != mo["typed"]:
            disag.append(("typed:%s-vs-%s" % (ij["k"], mk), "typed_value(%r): impl %s, model %s" % (t, ij, mo["typed"]),
                          {"text": t, "impl": ij, "model": mo["typed"]}))
        elif str(val) != mo["str"]:
            disag.append(("typed-str", "str(typed_value(%r)): impl %r, model %r" % (t, str(val), mo["str"]),
                          {"text": t, "impl": str(val), "model": mo["str"]}))
    return stats, viol[:30], disag[:30]
