"""Shared by C01, C15 and C02: run the real Processor and the Lean evaluator model (+ Spec.select) on
the same (document, path) cases and compare.  Documents are canonical JSON (codec), built as ruamel
objects with codec.json_to_ruamel; the model gets the segment list the REAL parser produced, the
answers of the real Searches.search_matches for every (method, haystack, term) the case can need,
and the real parse of every search attribute."""
from __future__ import annotations

import itertools
import json
import random
import signal

from harness import core, codec

# --------------------------------------------------------------------------- alphabets

KEYS = ["a", "b", "ab", 1, -1]
VALUES = [{"k": "null"}, {"k": "bool", "v": True}, {"k": "bool", "v": False}, {"k": "int", "v": "0"},
          {"k": "int", "v": "1"}, {"k": "int", "v": "2"}, {"k": "float", "m": "15", "e": -1},
          {"k": "str", "v": "a"}, {"k": "str", "v": "ab"}, {"k": "str", "v": ""}]
# reduced alphabets for the largest exhaustive layer
KEYS_S = ["a", "b", 1]
VALUES_S = [{"k": "null"}, {"k": "bool", "v": True}, {"k": "int", "v": "1"}, {"k": "float", "m": "15", "e": -1},
            {"k": "str", "v": "a"}, {"k": "str", "v": "ab"}]

# vocabulary: (text, bracketed?)  -- bracketed items attach to the previous segment without a separator
VOCAB = [
    "a", "b", "ab", "1", "-1", "0", "2", "c",
    "[0]", "[1]", "[-1]", "[2]", "[-2]", "[5]",
    "[0:1]", "[0:2]", "[1:1]", "[0:0]", "[1:9]", "[-2:-1]", "[0:-1]", "[a:b]", "[a:ab]", "[0:x]",
    "[&x]", "[&y]",
    "[.=a]", "[.=1]", "[.!=1]", "[.^a]", "[.$b]", "[.%a]", "[.>0]", "[.<1]", "[.>=1]", "[.<=1]", "[.=~/^a/]",
    "[.=~/(/]", "[a=1]", "[a!=1]", "[a>0]", "[b=a]", "[a^a]", "[ab=1]", "[1=1]", "[a.b=1]", "[a=]", "[.=]",
    "[.=true]", "[.=1.5]", "[!.=a]", "[.=None]", "[b.a!=1]",
    "a*", "*b", "a*b",
    "*", "**",
] + [
    # keyword searches (evaluated by the model since the evaluator integration)
    "[has_child(a)]", "[!has_child(a)]", "[name()]", "[parent()]", "[parent(0)]", "[parent(2)]", "[max()]", "[min()]",
    "[max(a)]", "[!max(a)]", "[min(a)]", "[unique()]", "[!unique()]", "[distinct()]", "[unique(a)]", "[distinct(a)]",
]
CORE = ["a", "b", "1", "-1", "[0]", "[-1]", "[-2]", "[0:2]", "[1:1]", "[a:b]", "[&x]",
        "[.=a]", "[.=1]", "[.!=1]", "[.^a]", "[.>0]", "[a=1]", "[a!=1]", "[a.b=1]", "[.=~/^a/]",
        "a*", "*", "**", "[has_child(a)]", "[parent()]", "[max(a)]", "[name()]"]


def path_text(items, slash=False):
    out = ""
    for i, it in enumerate(items):
        if it.startswith("["):
            if i == 0 and slash:
                out += "/"
            out += it
        elif slash:
            out += "/" + it
        else:
            out += ("." if i > 0 else "") + it
    return out


# --------------------------------------------------------------------------- documents

def count_nodes(j):
    k = j["k"]
    if k == "map":
        return 1 + sum(count_nodes(v) for _k, v in j["e"])
    if k == "seq":
        return 1 + sum(count_nodes(v) for v in j["i"])
    if k == "set":
        return 1 + len(j["m"])
    return 1


def docs_of_size(n, keys, values, memo):
    """All well-formed documents with exactly n nodes (no anchors)."""
    key = (n, id(keys), id(values))
    if key in memo:
        return memo[key]
    out = []
    if n == 1:
        out += [dict(v) for v in values]
        out += [{"k": "seq", "i": []}, {"k": "map", "e": []}, {"k": "set", "m": []}]
    else:
        # sequences: compositions of n-1 into child sizes
        for parts in compositions(n - 1):
            for kids in itertools.product(*[docs_of_size(p, keys, values, memo) for p in parts]):
                out.append({"k": "seq", "i": list(kids)})
            for ks in itertools.permutations(keys, len(parts)):
                if list(ks) != sorted(ks, key=keys.index):
                    # key order matters for document order, but keep the space small: ordered subsets only
                    continue
                for kids in itertools.product(*[docs_of_size(p, keys, values, memo) for p in parts]):
                    out.append({"k": "map", "e": [[k, v] for k, v in zip(ks, kids)]})
        for ks in itertools.combinations(keys, n - 1):
            out.append({"k": "set", "m": list(ks)})
    memo[key] = out
    return out


def compositions(n):
    if n == 0:
        yield ()
        return
    for first in range(1, n + 1):
        for rest in compositions(n - first):
            yield (first,) + rest


def small_docs(maxn, keys=KEYS, values=VALUES):
    memo = {}
    out = []
    for n in range(1, maxn + 1):
        out += docs_of_size(n, keys, values, memo)
    return out


def anchored_variants(rng, docs, n):
    """A few documents with anchors x / y on immediate children (exhaustive layer has no anchors otherwise)."""
    out = []
    for _ in range(n):
        d = json.loads(json.dumps(rng.choice(docs)))
        kids = [v for _k, v in d.get("e", [])] + d.get("i", [])
        kids = [k for k in kids if k["k"] != "null"]
        if not kids:
            continue
        rng.choice(kids)["a"] = "x"
        if len(kids) > 1 and rng.random() < 0.5:
            k2 = rng.choice(kids)
            if "a" not in k2:
                k2["a"] = "y"
        out.append(d)
    return out


RKEYS = ["a", "b", "ab", "c", 1, -1, 0, 2, "1", "x y", "a.b"]
RVALS = VALUES + [{"k": "int", "v": "-1"}, {"k": "int", "v": "10"}, {"k": "str", "v": "b"}, {"k": "str", "v": "1"},
                  {"k": "str", "v": "true"}, {"k": "float", "m": "-25", "e": -1}, {"k": "str", "v": "abc"}]


PUNCT_KEYS = ["a.b", "a/b", "a\\b", "(a)", "a[0]", "[b", "a]", "^a", "a$", "%a", "x y", "it's", 'q"q', "a", "b", 1]


def random_doc(rng, budget=25, depth=0, anchors=None, keys=None):
    """Random document with <= budget nodes: maps, seqs, Arrays-of-Hashes, sets, anchors/aliases."""
    if anchors is None:
        anchors = {}
    if keys is None:
        keys = RKEYS
    r = rng.random()
    if budget <= 1 or depth > 4 or r < 0.25:
        if anchors and rng.random() < 0.08:
            return json.loads(json.dumps(rng.choice(list(anchors.values()))))   # alias
        v = dict(rng.choice(RVALS))
        if v["k"] != "null" and rng.random() < 0.1:
            name = rng.choice(["x", "y", "z"])
            if name not in anchors:
                v["a"] = name
                anchors[name] = v
        return v
    if r < 0.33:
        n = rng.randint(0, min(4, budget - 1))
        ms = []
        for k in rng.sample(keys[:8], n):
            if not (k in (1, 0) and False):
                ms.append(k)
        # no int next to its string twin; no 1/True clashes (bools are not generated as keys)
        return {"k": "set", "m": ms}
    nkids = rng.randint(0, min(5, budget - 1))
    share = max(1, (budget - 1) // max(1, nkids))
    if r < 0.5:
        # Array of Hashes (sometimes with a null or a stray scalar)
        items = []
        keyset = rng.sample(["a", "b", "ab", "c", 1], rng.randint(1, 3))
        for _ in range(nkids):
            q = rng.random()
            if q < 0.1:
                items.append({"k": "null"})
            elif q < 0.15:
                items.append(dict(rng.choice(RVALS)))
            else:
                es = []
                for k in keyset:
                    if rng.random() < 0.8:
                        es.append([k, random_doc(rng, max(1, share // max(1, len(keyset))), depth + 2, anchors, keys)])
                items.append({"k": "map", "e": es})
        out = {"k": "seq", "i": items}
    elif r < 0.72:
        out = {"k": "seq", "i": [random_doc(rng, share, depth + 1, anchors, keys) for _ in range(nkids)]}
    else:
        ks = rng.sample(keys, min(nkids, len(keys)))
        if "1" in ks and 1 in ks:
            ks.remove("1")
        out = {"k": "map", "e": [[k, random_doc(rng, share, depth + 1, anchors, keys)] for k in ks]}
    if rng.random() < 0.06:
        name = rng.choice(["x", "y", "z"])
        if name not in anchors:
            out["a"] = name
            anchors[name] = out
    return out


KEYWORD_ITEMS = ["[unique()]", "[distinct()]", "[unique(a)]", "[distinct(a)]", "[max(a)]", "[min(a)]", "[max()]", "[min()]",
                 "[has_child(a)]", "[!has_child(a)]", "[name()]", "[parent()]", "[parent(2)]", "[max(b)]", "[unique(b)]",
                 "[!max(a)]", "[!unique()]", "[!distinct()]"] + [
    "[parent(0)]", "[parent(3)]", "[parent(x)]", "[min(b)]", "[!min(a)]", "[has_child(b)]", "[has_child(1)]", "[!unique(a)]",
    "[max(a,b)]", "[name(a)]", "[!name()]", "[!parent()]", "[has_child()]", "[unique(c)]", "[distinct(b)]", "[max(c)]"]


def random_seg(rng):
    r = rng.random()
    if r < 0.3:
        return rng.choice(["a", "b", "ab", "c", "1", "-1", "0", "2", "-3", "7", "x\\ y", "a\\.b"])
    if r < 0.42:
        return "[%d]" % rng.randint(-9, 9)
    if r < 0.52:
        if rng.random() < 0.8:
            return "[%d:%d]" % (rng.randint(-9, 9), rng.randint(-9, 9))
        return rng.choice(["[a:b]", "[a:c]", "[0:z]", "[b:a]", "[1:a]"])
    if r < 0.57:
        return rng.choice(["[&x]", "[&y]", "[&z]"])
    if r < 0.82:
        attr = rng.choice([".", ".", ".", "a", "b", "ab", "c", "1", "a.b", "b.a", "a[0]", "c.a"])
        op = rng.choice(["=", "!=", "^", "$", "%", ">", "<", ">=", "<=", "=~"])
        term = rng.choice(["a", "b", "ab", "1", "0", "2", "1.5", "true", "", "None", "10", "-1", "abc"])
        if op == "=~":
            term = rng.choice(["/^a/", "/b$/", "/./", "/1/", "/(/", "/[a-b]+/", "/^$/"])
        inv = "!" if rng.random() < 0.15 else ""
        return "[%s%s%s%s]" % (inv, attr, op, term)
    if r < 0.86:
        return rng.choice(["a*", "*b", "a*b", "*a*"])
    if r < 0.92:
        return "*"
    if r < 0.96:
        return rng.choice(KEYWORD_ITEMS)
    return "**"


def random_path(rng, maxlen=5):
    n = rng.randint(1, maxlen)
    return [random_seg(rng) for _ in range(n)]


def key_text(k):
    """A key as KEY-segment text (dot and slash notation safe)."""
    s = str(k)
    for ch in "\\./ ()[]^$%'\"":
        s = s.replace(ch, "\\" + ch)
    return s


def scalar_term(j):
    k = j["k"]
    if k == "null":
        return "None"
    if k == "bool":
        return "true" if j["v"] else "false"
    if k == "int":
        return j["v"]
    if k == "float":
        return repr(codec.json_to_plain(j))
    return j["v"] if j["v"] and all(c.isalnum() for c in j["v"]) else "a"


def guided_path(rng, doc, maxlen=5):
    """A path that follows the document most of the time, so that queries reach deep nodes."""
    cur = doc
    out = []
    n = rng.randint(1, maxlen)
    ops = ["=", "=", "=", "!=", "^", "$", "%", ">", "<", ">=", "<="]
    while len(out) < n:
        if cur is None or rng.random() < 0.2:
            out.append(random_seg(rng))
            cur = None if rng.random() < 0.7 else cur
            continue
        k = cur["k"]
        r = rng.random()
        if r < 0.07:
            out.append("**")
            continue
        if k == "map" and cur["e"]:
            kk, v = rng.choice(cur["e"])
            if r < 0.55:
                out.append(key_text(kk)); cur = v
            elif r < 0.65:
                out.append("*"); cur = v
            elif r < 0.75:
                t = str(kk)
                out.append("[.%s%s]" % (rng.choice(ops), t if t.isalnum() else "a"))
                cur = v if rng.random() < 0.5 else None
            elif r < 0.85 and v["k"] not in ("map", "seq", "set"):
                out.append("[%s%s%s]" % (key_text(kk) if str(kk).isalnum() else "a", rng.choice(ops), scalar_term(v)))
                cur = v if rng.random() < 0.5 else None
            elif r < 0.9 and "a" in v:
                out.append("[&%s]" % v["a"]); cur = v
            elif r < 0.95:
                ks = sorted(str(x[0]) for x in cur["e"] if str(x[0]).isalnum())
                if ks:
                    out.append("[%s:%s]" % (ks[0], rng.choice(ks)))
                else:
                    out.append("*")
                cur = None
            else:
                out.append("[%s.%s=1]" % ("c", "a")); cur = None
        elif k == "seq" and cur["i"]:
            i = rng.randrange(len(cur["i"]))
            v = cur["i"][i]
            maps = [x for x in cur["i"] if x["k"] == "map" and x["e"]]
            if r < 0.3:
                out.append("[%d]" % (i if rng.random() < 0.7 else i - len(cur["i"]))); cur = v
            elif r < 0.4:
                out.append(str(i if rng.random() < 0.7 else i - len(cur["i"]))); cur = v
            elif r < 0.5:
                out.append("*"); cur = v
            elif r < 0.62:
                lo = rng.randint(-len(cur["i"]) - 1, len(cur["i"]))
                hi = rng.randint(-len(cur["i"]) - 1, len(cur["i"]) + 2)
                out.append("[%d:%d]" % (lo, hi))
                cur = {"k": "seq", "i": [x for x in cur["i"] if x["k"] == "map"]} if rng.random() < 0.7 else None
            elif r < 0.8 and maps:
                m = rng.choice(maps)
                kk, vv = rng.choice(m["e"])
                if rng.random() < 0.5 or vv["k"] in ("map", "seq", "set"):
                    out.append(key_text(kk)); cur = vv
                else:
                    out.append("[%s%s%s]" % (key_text(kk) if str(kk).isalnum() else "a", rng.choice(ops), scalar_term(vv)))
                    cur = m
            elif r < 0.92 and v["k"] not in ("map", "seq", "set"):
                out.append("[.%s%s]" % (rng.choice(ops), scalar_term(v))); cur = v
            elif "a" in v:
                out.append("[&%s]" % v["a"]); cur = v
            else:
                out.append(random_seg(rng)); cur = None
        elif k == "set" and cur["m"]:
            m = rng.choice(cur["m"])
            if r < 0.5:
                out.append(key_text(m))
            elif r < 0.7:
                out.append("*")
            elif r < 0.85:
                out.append("[.%s%s]" % (rng.choice(ops), str(m) if str(m).isalnum() else "a"))
            else:
                out.append("[a:b]")
            cur = None
        elif k not in ("map", "seq", "set"):
            out.append("[.%s%s]" % (rng.choice(ops), scalar_term(cur)) if r < 0.6 else random_seg(rng))
            cur = cur if r < 0.6 else None
        else:
            out.append(random_seg(rng)); cur = None
    if rng.random() < 0.12:
        out.insert(rng.randint(0, len(out)), rng.choice(KEYWORD_ITEMS))
    return out


# --------------------------------------------------------------------------- the implementation side

class Timeout(Exception):
    pass


def _alarm(_s, _f):
    raise Timeout()


def with_timer(fn, limit=10.0):
    """Run fn under a CPU-time limit (ITIMER_VIRTUAL: immune to machine pauses and overload; the
    evaluator does no I/O, so a hang is a busy loop)."""
    old = signal.signal(signal.SIGVTALRM, _alarm)
    signal.setitimer(signal.ITIMER_VIRTUAL, limit)
    try:
        return fn()
    finally:
        signal.setitimer(signal.ITIMER_VIRTUAL, 0)
        signal.signal(signal.SIGVTALRM, old)


def parse_segments(text):
    """Segments of the real parser (escaped), or None when the text does not parse."""
    from yamlpath import YAMLPath
    try:
        return codec.segs_to_json(list(YAMLPath(text).escaped))
    except Exception:
        return None


def subnodes(j, obj, out):
    """(json, object) of every node, key and set member of a document (parallel walk)."""
    out.append((j, obj))
    k = j["k"]
    if k == "map":
        for (kk, vj), (ko, vo) in zip(j["e"], obj.items()):
            out.append((key_scalar(kk), ko))
            subnodes(vj, vo, out)
    elif k == "seq":
        for vj, vo in zip(j["i"], obj):
            subnodes(vj, vo, out)
    elif k == "set":
        for kk, ko in zip(j["m"], obj):
            out.append((key_scalar(kk), ko))


def key_scalar(k):
    return {"k": "int", "v": str(k)} if isinstance(k, int) else {"k": "str", "v": k}


def search_terms(segs, acc, attrs):
    """Collect (method, term) of every SEARCH segment, and parse every attribute that is a path."""
    for t, a in segs:
        if t == "SEARCH" and isinstance(a, dict) and "search" in a:
            s = a["search"]
            acc.add((s["m"], s["term"]))
            at = s["attr"]
            if at != "." and at not in attrs:
                sub = with_timer(lambda: parse_segments(at))
                attrs[at] = sub if sub is not None else {"err": "ypath"}
                if sub is not None:
                    search_terms(sub, acc, attrs)


import re as _re

SAFE_TEXT = _re.compile(r"^[A-Za-z0-9 ._+\-]*$")


def is_container(hj):
    return hj["k"] in ("map", "seq", "set")


def simple_pair(hj, term):
    """Pairs the comparison model (Model/Compare.lean) is expected to decide by itself: a scalar haystack and a term
    without the characters of the fenced literal classes.  Everything else gets an oracle row."""
    if is_container(hj):
        return False
    if hj["k"] == "str" and not SAFE_TEXT.match(hj["v"]):
        return False
    return bool(SAFE_TEXT.match(term))


def haystack_text(hj, ho):
    """str(haystack) as Searches.search_matches computes it (a Boolean is compared as bool)."""
    if hj["k"] == "bool":
        return "True" if hj["v"] else "False"
    return str(ho)


def oracle_tables(doc_json, doc_obj, segs):
    """(rx, mt, attrs): the regex oracle rows [pattern, text, found|None] for every REGEX term x scalar haystack,
    the real Searches.search_matches answers for the (haystack, term) pairs outside the comparison model
    (container haystacks, fenced literal classes), and the real parse of every search attribute."""
    import re
    from yamlpath.common import Searches
    from yamlpath.enums import PathSearchMethods
    terms, attrs = set(), {}
    search_terms(segs, terms, attrs)
    mt, rx = [], []
    if terms:
        subs = []
        subnodes(doc_json, doc_obj, subs)
        if any(t == "KEYWORD_SEARCH" for t, _a in segs):
            # [name()] turns a parentref into a haystack: None at the root, list indexes as they were written
            subs.append(({"k": "null"}, None))
            subs += [({"k": "int", "v": str(i)}, i) for i in range(-45, 46)]
        seen = set()
        rxseen = set()
        for (m, term) in sorted(terms):
            meth = PathSearchMethods[m]
            for hj, ho in subs:
                if m == "REGEX" and not is_container(hj):
                    text = haystack_text(hj, ho)
                    if (term, text) not in rxseen:
                        rxseen.add((term, text))
                        try:
                            found = re.compile(term).search(text) is not None
                        except re.error:
                            found = None
                        rx.append([term, text, found])
                if simple_pair(hj, term):
                    continue
                key = (m, term, json.dumps(hj, sort_keys=True))
                if key in seen:
                    continue
                seen.add(key)
                try:
                    ans = bool(Searches.search_matches(meth, term, ho))
                except Timeout:
                    raise
                except Exception as e:  # noqa
                    ans = core.exc_class(e)
                mt.append([m, hj, term, ans])
    return rx, mt, [[a, v] for a, v in attrs.items()]


def resolve(root, addr):
    """The object at an address of the real document (None when it does not exist)."""
    cur = root
    for kind, ref in addr:
        try:
            if kind == "m":
                if ref not in cur:
                    return None
                cur = ref
            else:
                cur = cur[ref]
        except Exception:
            return None
    return cur


def canon_addr(root, table, addr):
    """Canonical address (first occurrence of an aliased container) of a model address."""
    if not addr:
        return []
    parent = resolve(root, addr[:-1])
    pa = table.get(id(parent)) if parent is not None else None
    if pa is None:
        return list(addr)
    return list(pa) + [list(addr[-1])]


def canon_nc(nc, root, table, problems):
    """Canonical observable of one real NodeCoords: {"a": address, ...} or {"v": [...]}."""
    from yamlpath.wrappers import NodeCoords
    from ruamel.yaml.comments import CommentedSeq, CommentedSet
    node = nc.node
    if isinstance(node, NodeCoords):
        return canon_nc(node, root, table, problems)
    if type(node) is list:
        items = []
        for e in node:
            if isinstance(e, NodeCoords):
                items.append(canon_nc(e, root, table, problems))
            else:
                problems.append("virtual-list-holds-raw-element")
                items.append({"raw": True})
        return {"v": items}
    parent, ref = nc.parent, nc.parentref
    out = {}
    if parent is None:
        if node is not root:
            problems.append("no-parent-but-not-root")
        out["a"] = []
        out["p"] = None
        out["r"] = None
    else:
        pa = table.get(id(parent))
        if pa is None:
            problems.append("parent-not-in-document")
            out["a"] = None
            return out
        try:
            r = codec.ref_of(parent, ref)
        except codec.OutOfModel:
            problems.append("parentref-unusable")
            out["a"] = None
            return out
        out["r"] = list(r)
        if r[0] == "i":
            n = len(parent)
            if not -n <= r[1] < n:
                problems.append("parentref-out-of-range")
                out["a"] = None
                return out
            if parent[r[1]] is not node:
                problems.append("parent[parentref]-is-not-node")
            r = ["i", r[1] % n]
        elif r[0] == "k":
            if ref not in parent or parent[ref] is not node:
                problems.append("parent[parentref]-is-not-node")
        else:
            if ref not in parent:
                problems.append("member-not-in-parent-set")
        out["a"] = list(pa) + [r]
        out["p"] = list(pa)
    # the ancestry must walk, by object identity, from the root to the node
    out["anc_walk"] = ancestry_walk(nc, root)
    anc = []
    for (ap, aref) in (nc.ancestry or []):
        apa = table.get(id(ap))
        try:
            anc.append([apa, list(codec.ref_of(ap, aref))])
        except codec.OutOfModel:
            anc.append([apa, ["?", repr(aref)]])
    out["anc"] = anc
    try:
        out["path"] = str(nc.path) if nc.path is not None else None
    except Timeout:
        raise
    except Exception:  # the reported path does not even parse
        out["path"] = None
        problems.append("reported-path-does-not-parse")
    return out


def ancestry_walk(nc, root):
    """None when nc.ancestry is a chain root -> … -> node (each step parent[ref] is the next parent,
    the last one is the node / a member); else a short reason."""
    from ruamel.yaml.comments import CommentedSet
    anc = nc.ancestry or []
    if nc.parent is None:
        return None if not anc else "root-with-ancestry"
    if not anc:
        return "empty"
    if anc[0][0] is not root:
        return "does-not-start-at-root"
    for i, (obj, ref) in enumerate(anc):
        nxt = anc[i + 1][0] if i + 1 < len(anc) else nc.node
        try:
            if isinstance(obj, (CommentedSet, set)):
                ok = ref in obj and i + 1 == len(anc) and (ref is nxt or ref == nxt)
            else:
                ok = obj[ref] is nxt
        except Exception:
            ok = False
        if not ok:
            return "step-%d-does-not-lead-on" % i
    if anc[-1][0] is not nc.parent:
        return "last-entry-is-not-the-parent"
    return None


def run_query(doc_json, text, mode):
    """One query on a fresh document.  Returns {"res": [...]} | {"err": cls, "site":…} (+ problems, mutated)."""
    from yamlpath import Processor
    d = codec.json_to_ruamel(doc_json)
    table = codec.build_addr_table(d)
    p = Processor(core.quiet_logger(), d)
    out = {}
    problems = []
    try:
        def go():
            if mode == "exists":
                return {"exists": bool(p.exists(text))}
            res = [canon_nc(nc, d, table, problems) for nc in p.get_nodes(text, mustexist=(mode == "req"))]
            return {"res": res}
        out = with_timer(go)
    except Timeout:
        out = {"err": "timeout", "site": "?"}
    except RecursionError as e:
        out = {"err": "crash:RecursionError", "site": core.crash_site(e)}
    except Exception as e:  # noqa
        out = {"err": core.exc_class(e), "site": core.crash_site(e)}
    if problems:
        out["problems"] = sorted(set(problems))
    if mode != "opt":
        try:
            after = codec.node_to_json(d)
        except Exception:
            after = None
        if after != doc_json:
            out["mutated"] = True
    return out, d, table


def addr_only(r):
    if r is None:
        return None
    if "v" in r:
        return {"v": [addr_only(x) for x in r["v"]]}
    return r.get("a")


def model_addrs(gen, root, table):
    out = []
    for r in gen["res"]:
        if "v" in r:
            out.append({"v": [canon_addr(root, table, x["a"]) for x in r["v"]]})
        else:
            out.append(canon_addr(root, table, r["a"]))
    return out


def err_class(e):
    """Compare classes only: every YAMLPathException subclass is 'ypath'."""
    if e is None:
        return None
    return "ypath" if e.startswith("ypath") else e


def seg_kinds(segs):
    """Segment kinds of a path; a keyword search is named by its keyword (KW:parent, KW:has_child, …)."""
    out = []
    for t, a in segs:
        if t == "KEYWORD_SEARCH" and isinstance(a, dict) and "keyword" in a:
            out.append("KW:" + a["keyword"]["kw"].lower())
        else:
            out.append(t)
    return ",".join(out)


def has_keyword(segs):
    return any(t == "KEYWORD_SEARCH" for t, _a in segs)


# --------------------------------------------------------------------------- one chunk of cases

def compare_chunk(args):
    """cases: list of (doc_json, [vocabulary items]); returns (stats, violations, disagreements, samples).
    opts: {"c02": bool, "slash": bool}"""
    cases, opts = args
    core.use_repo()
    stats = {"n": 0, "queries": 0, "nonempty": 0, "ypath": 0, "crash": 0, "oom": 0, "unparsable": 0, "slash_skipped": 0,
             "opt_compared": 0, "virtual": 0, "c09_mutations": 0, "deep_results": 0, "requeries": 0,
             "kinds": {}, "docsize": {}}
    viol, disag, samples, nontrivial = [], [], [], set()
    per_sig = {}

    def report(lst, sig, what, case):
        n = per_sig.get(sig, 0)
        per_sig[sig] = n + 1
        if n < 3:
            lst.append((sig, what, case))

    prepared = []
    reqs = []
    for doc, items in cases:
        text = path_text(items, False)
        segs = with_timer(lambda: parse_segments(text))
        stats["n"] += 1
        if segs is None:
            stats["unparsable"] += 1
            continue
        # the real run (required) gives us the objects for the oracle tables
        req, d, table = run_query(doc, text, "req")
        stats["queries"] += 1
        try:
            try:
                rx, mt, attrs = with_timer(lambda: oracle_tables(doc, d, segs))
            except Timeout:
                # the guard is there for a hanging regular expression; a pause of the interpreter (garbage collection
                # of a large inherited heap on an overloaded machine) can trip it too: once more with a long limit
                rx, mt, attrs = with_timer(lambda: oracle_tables(doc, d, segs), 120.0)
        except (codec.OutOfModel, Timeout):
            stats["oom"] += 1
            continue
        prepared.append((doc, items, text, segs, req, d, table))
        reqs.append({"op": "C01.eval", "doc": doc, "segs": segs, "rx": rx, "mt": mt, "attrs": attrs})
    answers = core.Driver().ask(reqs) if reqs else []
    for (doc, items, text, segs, req, d, table), mo in zip(prepared, answers):
        case = {"doc": doc, "path": text, "items": items}
        kinds = seg_kinds(segs)
        for t, _a in segs:
            stats["kinds"][t] = stats["kinds"].get(t, 0) + 1
        sz = count_nodes(doc)
        stats["docsize"][sz] = stats["docsize"].get(sz, 0) + 1
        m_get, m_spec, m_req = mo["get"], mo["spec"], mo["req"]
        m_err = err_class(m_get["err"])
        oom = any(err_class(g["err"]) == "outOfModel" for g in (m_get, m_spec))
        # ---- direct C15 check on every query
        queries = [("req", text, req)]
        ex, _d2, _t2 = run_query(doc, text, "exists")
        queries.append(("exists", text, ex))
        stext = path_text(items, True)
        sreq = None
        if opts.get("slash", True):
            ssegs = with_timer(lambda: parse_segments(stext))
            if ssegs == segs:
                sreq, sd, stable = run_query(doc, stext, "req")
                queries.append(("req/", stext, sreq))
            else:
                stats["slash_skipped"] += 1
        stats["queries"] += len(queries) - 1
        crashed = False
        for qn, qt, qo in queries:
            e = qo.get("err")
            if e is not None and e != "ypath":
                crashed = True
                stats["crash"] += 1
                report(viol, "crash:%s@%s" % (e.split(":", 1)[-1], qo.get("site")),
                       "%s query %r raised %s at %s" % (qn, qt, e, qo.get("site")),
                       dict(case, query=qn, impl=qo, prop="C15"))
            if qo.get("mutated"):
                stats["c09_mutations"] += 1
        if oom:
            stats["oom"] += 1
            continue
        if crashed:
            # the model mirrors the fixed code: it cannot agree with a crash; already reported (C15)
            if m_err is not None and m_err.startswith("crash"):
                pass
            continue
        # ---- C01: required query = Spec.select (addresses in order, or error class)
        impl_err = req.get("err")
        if impl_err == "ypath":
            stats["ypath"] += 1
        # keyword results: [name()] yields a key, not a document node - coordinates of keyword paths are not judged (C02)
        kw_path = has_keyword(segs)
        probs = [] if kw_path else (req.get("problems") or [])
        impl_addrs = None if impl_err else [addr_only(r) for r in req["res"]]
        spec_g = dict(m_spec)
        # get_nodes(mustexist=True) raises when nothing matched; a null document yields nothing
        doc_null = doc["k"] == "null"
        if doc_null:
            spec_err, spec_addrs = None, []
        else:
            spec_err = err_class(spec_g["err"])
            spec_addrs = model_addrs(spec_g, d, table)
            if spec_err is None and not spec_addrs:
                spec_err = "ypath"
        get_err = err_class(m_get["err"])
        get_addrs = model_addrs(m_get, d, table)
        if any(isinstance(a, dict) for a in (impl_addrs or [])):
            stats["virtual"] += 1
        bad = False
        if (impl_err or None) != spec_err or (impl_err is None and impl_addrs != spec_addrs):
            bad = True
            report(viol, "c01:select-differs:%s" % kinds,
                   "get_nodes(%r, mustexist=True): implementation %s, specification %s" % (
                       text, impl_err or impl_addrs, spec_err or spec_addrs),
                   dict(case, impl=req, spec=spec_g, prop="C01"))
        if (get_err, get_addrs if get_err is None else None) != (spec_err, spec_addrs if spec_err is None else None):
            report(disag, "model-vs-spec", "model getRequired differs from Spec.select (theorem says equal)",
                   dict(case, model=m_get, spec=spec_g))
        if probs:
            report(viol, "c02:%s:%s" % (probs[0], kinds), "result coordinates of %r: %s" % (text, probs),
                   dict(case, impl=req, prop="C02"))
        # exists()
        if "exists" in ex:
            want = mo["exists"].get("ok")
            if "err" in mo["exists"] or bool(want) != ex["exists"]:
                report(viol, "c01:exists-differs:%s" % kinds,
                       "exists(%r) = %s, model %s" % (text, ex["exists"], mo["exists"]), dict(case, prop="C01"))
        elif ex.get("err") == "ypath":
            if "err" not in mo["exists"]:
                report(viol, "c01:exists-differs:%s" % kinds,
                       "exists(%r) raised, model %s" % (text, mo["exists"]), dict(case, prop="C01"))
        # slash notation: same answer
        if sreq is not None:
            s_addrs = None if sreq.get("err") else [addr_only(r) for r in sreq["res"]]
            if (sreq.get("err"), s_addrs) != (impl_err, impl_addrs):
                report(viol, "c01:notation-differs:%s" % kinds,
                       "dot %r gives %s, slash %r gives %s" % (text, impl_err or impl_addrs, stext, sreq.get("err") or s_addrs),
                       dict(case, prop="C01"))
        # optional query, compared when the model's optional evaluation needs no creation
        m_opt = mo["opt"]
        if err_class(m_opt["err"]) != "outOfModel":
            opt, od, otable = run_query(doc, text, "opt")
            stats["queries"] += 1
            stats["opt_compared"] += 1
            oe = opt.get("err")
            if oe is not None and oe != "ypath":
                report(viol, "crash:%s@%s" % (oe.split(":", 1)[-1], opt.get("site")),
                       "optional query %r raised %s" % (text, oe), dict(case, query="opt", impl=opt, prop="C15"))
            else:
                o_addrs = None if oe else [addr_only(r) for r in opt["res"]]
                mo_err = err_class(m_opt["err"])
                mo_addrs = model_addrs(m_opt, od, otable)
                if (oe or None) != mo_err or (oe is None and o_addrs != mo_addrs):
                    report(viol, "c01:optional-differs:%s" % kinds,
                           "get_nodes(%r, mustexist=False): implementation %s, model %s" % (text, oe or o_addrs, mo_err or mo_addrs),
                           dict(case, impl=opt, model=m_opt, prop="C01"))
        if impl_err is None and impl_addrs:
            stats["nonempty"] += 1
            nontrivial.add(hash((json.dumps(doc, sort_keys=True), text)))
        # ---- C02: coordinates, ancestry, path text, re-query
        if opts.get("c02") and impl_err is None and not bad and not kw_path:
            c02_compare(case, kinds, req, m_req, d, table, stats, report, viol)
        if len(samples) < 2 and impl_err is None and impl_addrs and len(segs) > 1:
            samples.append({"doc": doc, "path": text, "impl": impl_addrs, "spec": spec_addrs})
    stats["nontrivial"] = len(nontrivial)
    return stats, viol, disag, samples


def dotted(sections):
    return ".".join(sections)


def c02_compare(case, kinds, req, m_req, d, table, stats, report, viol):
    """Per real result: parent address, parentref, ancestry chain, path text; re-query of the path."""
    from yamlpath import Processor
    text = case["path"]
    for ir, mr in zip(req["res"], m_req["res"]):
        if "v" in ir or "v" in mr or ir.get("a") is None:
            continue
        if len(ir["a"]) >= 2:
            stats["deep_results"] += 1
        want_p = None
        if mr["p"] is not None:
            pobj = resolve(d, mr["p"])
            want_p = table.get(id(pobj), mr["p"]) if pobj is not None else mr["p"]
        if ir.get("p") != want_p:
            report(viol, "c02:parent-differs:%s" % kinds, "%r: parent of result %s is %s, expected %s" % (
                text, ir["a"], ir.get("p"), want_p), dict(case, impl=ir, model=mr, prop="C02"))
            continue
        a = ir["a"]
        if ir.get("anc_walk") is not None:
            report(viol, "c02:ancestry-not-chain:%s" % kinds, "%r: ancestry of result %s: %s" % (text, a, ir["anc_walk"]),
                   dict(case, impl=ir, model=mr, prop="C02"))
            continue
        if len(ir.get("anc") or []) != len(mr.get("anc") or []):
            report(viol, "c02:ancestry-length-differs-from-model:%s" % kinds,
                   "%r: ancestry of result %s has %d entries, the model %d" % (text, a, len(ir.get("anc") or []), len(mr.get("anc") or [])),
                   dict(case, impl=ir, model=mr, prop="C02-model"))
        # path text: model sections joined; then the re-query
        ptxt = ir.get("path")
        if ptxt is None:
            report(viol, "c02:no-path:%s" % kinds, "%r: result %s has no path" % (text, a), dict(case, prop="C02"))
            continue
        # the model's path sections denote the same segments as the reported path
        msegs = with_timer(lambda: parse_segments(dotted(mr.get("path") or [])))
        isegs = with_timer(lambda: parse_segments(ptxt))
        if msegs != isegs:
            report(viol, "c02:path-segments-differ-from-model:%s" % kinds,
                   "%r: result %s reports path %r; the model expects %r" % (text, a, ptxt, dotted(mr.get("path") or [])),
                   dict(case, impl=ir, model=mr, prop="C02-model"))
        stats["requeries"] += 1
        rq, rd, rtable = run_query(case["doc"], ptxt, "req")
        got = None if rq.get("err") else [addr_only(x) for x in rq["res"]]
        # a path that names an anchor returns the node once per place it is aliased
        has_anchor = any(sg[0] == "ANCHOR" for sg in (isegs or []))
        if has_anchor and got is not None and a in got:
            last_is_anchor = isegs[-1][0] == "ANCHOR"
            node_obj = resolve(rd, a)
            if last_is_anchor or all(isinstance(x, list) and resolve(rd, x) is node_obj for x in got):
                continue
        if got != [a]:
            report(viol, "c02:path-does-not-reresolve:%s" % kinds,
                   "%r: result %s reports path %r, which evaluates to %s" % (text, a, ptxt, rq.get("err") or got),
                   dict(case, impl=ir, requery=rq, prop="C02"))


# --------------------------------------------------------------------------- collectors (C15, direct check only)

COLL_OPERANDS = ["a", "b", "ab", "c", "a.b", "b.a", "[0]", "[1]", "[-1]", "*", "**", "a[0]", "a.*", "[.=a]", "[.>0]", "[a=1]",
                 "1", "[0:2]", "a[0:2]", "[.!=1]", "*.a", "[&x]"]


def random_collector(rng):
    ops = []
    n = rng.randint(1, 3)
    operands = [rng.choice(COLL_OPERANDS) for _ in range(n)]
    text = "(%s)" % operands[0]
    for o in operands[1:]:
        text += rng.choice(["+", "-", "&"]) + "(%s)" % o
    tail = rng.choice(["", "", "", "[0]", "[.=a]", "[1:2]", "[-1]"])
    return operands, text + tail


def selects_only_scalars(doc, operand):
    """Does the operand path, evaluated on the document root, select scalars only (the quantifier of C15)?"""
    from yamlpath import Processor
    from yamlpath.wrappers import NodeCoords
    d = codec.json_to_ruamel(doc)
    p = Processor(core.quiet_logger(), d)
    try:
        for nc in p.get_nodes(operand, mustexist=True):
            v = NodeCoords.unwrap_node_coords(nc)
            if isinstance(v, (dict, list, set)):
                return False
    except Timeout:
        raise
    except Exception:
        return True     # an operand that raises is judged by the whole query
    return True


def collector_chunk(args):
    """cases: (doc, operands, text).  Direct C15 check of collector paths whose operands select scalars;
    the evaluator model does not cover collectors (counted out of model)."""
    cases, _opts = args
    core.use_repo()
    stats = {"n": 0, "in_quantifier": 0, "nonscalar_operand": 0, "crash_outside_quantifier": 0, "mutated": 0, "ok": 0, "ypath": 0}
    viol = []
    per_sig = {}
    for doc, operands, text in cases:
        stats["n"] += 1
        try:
            scalar_only = with_timer(lambda: all(selects_only_scalars(doc, o) for o in operands))
        except Timeout:
            scalar_only = True
        for mode in ("req", "exists"):
            out, _d, _t = run_query(doc, text, mode)
            e = out.get("err")
            if out.get("mutated"):
                stats["mutated"] += 1
            if e is None:
                stats["ok"] += 1
            elif e == "ypath":
                stats["ypath"] += 1
            elif not scalar_only:
                stats["crash_outside_quantifier"] += 1
            else:
                sig = "crash:%s@%s" % (e.split(":", 1)[-1], out.get("site"))
                n = per_sig.get(sig, 0)
                per_sig[sig] = n + 1
                if n < 3:
                    viol.append((sig, "%s query %r (collector, scalar operands) raised %s at %s" % (mode, text, e, out.get("site")),
                                 {"doc": doc, "path": text, "items": [text], "prop": "C15", "impl": out}))
        stats["in_quantifier" if scalar_only else "nonscalar_operand"] += 1
    return stats, viol


# --------------------------------------------------------------------------- keyword segments (C15, direct check only)


def keyword_chunk(args):
    """cases: (doc, items).  Direct C15 check of paths holding a keyword segment (outside the evaluator model)."""
    cases, _opts = args
    core.use_repo()
    stats = {"n": 0, "ok": 0, "ypath": 0, "crash": 0}
    viol = []
    per_sig = {}
    for doc, items in cases:
        stats["n"] += 1
        text = path_text(items, False)
        for mode in ("req", "exists"):
            out, _d, _t = run_query(doc, text, mode)
            e = out.get("err")
            if e is None:
                stats["ok"] += 1
            elif e == "ypath":
                stats["ypath"] += 1
            else:
                stats["crash"] += 1
                sig = "crash:%s@%s" % (e.split(":", 1)[-1], out.get("site"))
                n = per_sig.get(sig, 0)
                per_sig[sig] = n + 1
                if n < 3:
                    viol.append((sig, "%s query %r (keyword segment) raised %s at %s" % (mode, text, e, out.get("site")),
                                 {"doc": doc, "path": text, "items": items, "prop": "C15", "impl": out}))
    return stats, viol
