"""Shared by C01, C15 and C02: run the real Processor and the Lean evaluator model (+ Spec.select) on
the same (document, path) cases and compare.  Documents are canonical JSON (codec), built as ruamel
objects with codec.json_to_ruamel; the model gets the segment list the REAL parser produced, the
answers of the real Searches.search_matches for every (method, haystack, term) the case can need,
and the real parse of every search attribute."""
from __future__ import annotations

import itertools
import json
import random
import signal

from harness import core, codec

# --------------------------------------------------------------------------- alphabets

KEYS = ["a", "b", "ab", 1, -1]
VALUES = [{"k": "null"}, {"k": "bool", "v": True}, {"k": "bool", "v": False}, {"k": "int", "v": "0"},
          {"k": "int", "v": "1"}, {"k": "int", "v": "2"}, {"k": "float", "m": "15", "e": -1},
          {"k": "str", "v": "a"}, {"k": "str", "v": "ab"}, {"k": "str", "v": ""}]
# reduced alphabets for the largest exhaustive layer
KEYS_S = ["a", "b", 1]
VALUES_S = [{"k": "null"}, {"k": "bool", "v": True}, {"k": "int", "v": "1"}, {"k": "float", "m": "15", "e": -1},
            {"k": "str", "v": "a"}, {"k": "str", "v": "ab"}]

# vocabulary: (text, bracketed?)  -- bracketed items attach to the previous segment without a separator
VOCAB = [
    "a", "b", "ab", "1", "-1", "0", "2", "c",
    "[0]", "[1]", "[-1]", "[2]", "[-2]", "[5]",
    "[0:1]", "[0:2]", "[1:1]", "[0:0]", "[1:9]", "[-2:-1]", "[0:-1]", "[a:b]", "[a:ab]", "[0:x]",
    "[&x]", "[&y]",
    "[.=a]", "[.=1]", "[.!=1]", "[.^a]", "[.$b]", "[.%a]", "[.>0]", "[.<1]", "[.>=1]", "[.<=1]", "[.=~/^a/]",
    "[.=~/(/]", "[a=1]", "[a!=1]", "[a>0]", "[b=a]", "[a^a]", "[ab=1]", "[1=1]", "[a.b=1]", "[a=]", "[.=]",
    "[.=true]", "[.=1.5]", "[!.=a]", "[.=None]", "[b.a!=1]",
    "a*", "*b", "a*b",
    "*", "**",
] + [
    # keyword searches (evaluated by the model since the evaluator integration)
    "[has_child(a)]", "[!has_child(a)]", "[name()]", "[parent()]", "[parent(0)]", "[parent(2)]", "[max()]", "[min()]",
    "[max(a)]", "[!max(a)]", "[min(a)]", "[unique()]", "[!unique()]", "[distinct()]", "[unique(a)]", "[distinct(a)]",
]
# search terms whose leading / trailing blank is significant (protected by quotes or by an escape), all operators,
# on '.' and on an attribute, plain and inverted; interior blanks as the control
BLANK_TERMS = ["' '", "' a'", "'a '", "\\ a", "a\\ ", '" a"', "' 1'", "'a b'", "\\ ", '"a "', "'1 '", "a\\ b", "'  '", "' a '"]
BLANK_VOCAB = (["[%s%s%s]" % (at, op, t) for at in (".", "a") for op in ("=", "^", "$", "%", ">", "<", ">=", "<=") for t in BLANK_TERMS[:8]]
               + ["[%s%s%s]" % (at, op, t) for at in (".", "a") for op in ("!=", "!^", "!$", "!%") for t in BLANK_TERMS[:5]]
               + ["[.=%s]" % t for t in BLANK_TERMS[8:]] + ["[!.=' a']", "[!.$' ']", "[!a^' ']"]
               + ["[%s=~%s]" % (at, t) for at in (".", "a") for t in ("/ a/", "/a /", "/^ /", "/ $/", "/ /", "/^ a $/")])
# values and keys with leading / trailing blanks for the layer these items run on
BLANK_VALUES = [{"k": "str", "v": v} for v in (" a", "a ", " ", "a b", " 1")] + [{"k": "int", "v": "1"}]
BLANK_KEYS = ["a", " a"]

# look-alike keys: a Hash holding BOTH spellings of an integer-looking key - the text key '1' and the integer key 1 are two
# keys in YAML - in either order (docs_of_size writes keys in the order of the list), next to an ordinary key
TWIN_KEYSETS = [["1", 1, "a"], [1, "1", "a"], ["-1", -1, "a"], [-1, "-1", "a"]]
TWIN_VALUES = [{"k": "null"}, {"k": "int", "v": "1"}, {"k": "str", "v": "a"}]
TWIN_VOCAB = ["1", "01", "0", "-1", "-01", "a", "*", "**", "1*", "[.=1]", "[.!=1]", "[.^1]", "[.=-1]", "[.>0]", "[1=1]", "[1=a]", "[1!=a]",
              "[-1=a]", "[1:1]", "[0:2]", "[-1:1]", "[has_child(1)]", "[!has_child(1)]", "[has_child(-1)]", "[name()]", "[parent()]",
              "[max(1)]", "[min(1)]", "[unique(1)]"]
TWIN_CORE = ["1", "-1", "a", "*", "**", "[0]", "[.=1]", "[1=1]", "[1=a]", "[has_child(1)]", "[name()]", "[parent()]"]

CORE = ["a", "b", "1", "-1", "[0]", "[-1]", "[-2]", "[0:2]", "[1:1]", "[a:b]", "[&x]",
        "[.=a]", "[.=1]", "[.!=1]", "[.^a]", "[.>0]", "[a=1]", "[a!=1]", "[a.b=1]", "[.=~/^a/]",
        "a*", "*", "**", "[has_child(a)]", "[parent()]", "[max(a)]", "[name()]"]


def path_text(items, slash=False):
    out = ""
    for i, it in enumerate(items):
        if it.startswith("["):
            if i == 0 and slash:
                out += "/"
            out += it
        elif slash:
            out += "/" + it
        else:
            out += ("." if i > 0 else "") + it
    return out


# --------------------------------------------------------------------------- documents

def count_nodes(j):
    k = j["k"]
    if k == "map":
        return 1 + sum(count_nodes(v) for _k, v in j["e"])
    if k == "seq":
        return 1 + sum(count_nodes(v) for v in j["i"])
    if k == "set":
        return 1 + len(j["m"])
    return 1


def docs_of_size(n, keys, values, memo):
    """All well-formed documents with exactly n nodes (no anchors)."""
    key = (n, id(keys), id(values))
    if key in memo:
        return memo[key]
    out = []
    if n == 1:
        out += [dict(v) for v in values]
        out += [{"k": "seq", "i": []}, {"k": "map", "e": []}, {"k": "set", "m": []}]
    else:
        # sequences: compositions of n-1 into child sizes
        for parts in compositions(n - 1):
            for kids in itertools.product(*[docs_of_size(p, keys, values, memo) for p in parts]):
                out.append({"k": "seq", "i": list(kids)})
            for ks in itertools.permutations(keys, len(parts)):
                if list(ks) != sorted(ks, key=keys.index):
                    # key order matters for document order, but keep the space small: ordered subsets only
                    continue
                for kids in itertools.product(*[docs_of_size(p, keys, values, memo) for p in parts]):
                    out.append({"k": "map", "e": [[k, v] for k, v in zip(ks, kids)]})
        for ks in itertools.combinations(keys, n - 1):
            out.append({"k": "set", "m": list(ks)})
    memo[key] = out
    return out


def compositions(n):
    if n == 0:
        yield ()
        return
    for first in range(1, n + 1):
        for rest in compositions(n - first):
            yield (first,) + rest


def small_docs(maxn, keys=KEYS, values=VALUES):
    memo = {}
    out = []
    for n in range(1, maxn + 1):
        out += docs_of_size(n, keys, values, memo)
    return out


def has_twin_keys(j):
    """Does some Hash of the document hold an integer key and the text key of the same spelling?"""
    if j["k"] == "map":
        ks = [k for k, _v in j["e"]]
        if any(isinstance(k, int) and str(k) in ks for k in ks):
            return True
        return any(has_twin_keys(v) for _k, v in j["e"])
    if j["k"] == "seq":
        return any(has_twin_keys(v) for v in j["i"])
    return False


def twin_cases():
    """The look-alike key layer (complete, no randomness): (a) every document with <= 3 nodes over each key list of
    TWIN_KEYSETS and TWIN_VALUES in which a Hash holds both spellings of a key x every one-segment path of TWIN_VOCAB and
    every two-segment path of TWIN_CORE; (b) every such Hash with scalar values placed under a key, in a list, in an
    Array-of-Hashes next to a record holding only one spelling, under a key of the records of an Array-of-Hashes, and in a
    list under a key x every two-segment path of TWIN_CORE and the three-segment paths that reach the key through
    key / index / pass-through / wildcard / deep-traversal prefixes."""
    one = [[v] for v in TWIN_VOCAB]
    two = [[a, b] for a in TWIN_CORE for b in TWIN_CORE]
    pre = ["s", "u", "*", "**", "[0]", "[1]"]
    three = [[a, b, c] for a in pre for b in pre for c in ("1", "-1")] + [[a, c, t] for a in pre for c in ("1", "-1")
                                                                        for t in ("[name()]", "[parent()]", "[.=a]")]
    cases, ndocs = [], 0
    for keys in TWIN_KEYSETS:
        docs = [d for d in small_docs(3, keys, TWIN_VALUES) if has_twin_keys(d)]
        ndocs += len(docs)
        for d in docs:
            cases += [(d, p) for p in one + two]
        lone = {"k": "map", "e": [[int(keys[0]), {"k": "str", "v": "a"}]]}          # only the integer spelling
        lone_t = {"k": "map", "e": [[str(keys[0]), {"k": "int", "v": "1"}]]}        # only the text spelling
        for t in docs:
            if any(v["k"] in ("map", "seq", "set") for _k, v in t["e"]) or int(keys[0]) < 0:
                continue        # (b) for the Hashes with scalar values; the negative spellings have part (a) only
            wrapped = [{"k": "map", "e": [["s", t], ["u", lone]]},
                       {"k": "seq", "i": [t]},
                       {"k": "seq", "i": [lone, t, lone_t]},
                       {"k": "seq", "i": [{"k": "map", "e": [["u", t]]}, {"k": "map", "e": [["u", lone]]}]},
                       {"k": "map", "e": [["s", {"k": "seq", "i": [t, lone]}]]}]
            ndocs += len(wrapped)
            for d in wrapped:
                cases += [(d, p) for p in two + three]
    return cases, ndocs


def anchored_variants(rng, docs, n):
    """A few documents with anchors x / y on immediate children (exhaustive layer has no anchors otherwise)."""
    out = []
    for _ in range(n):
        d = json.loads(json.dumps(rng.choice(docs)))
        kids = [v for _k, v in d.get("e", [])] + d.get("i", [])
        kids = [k for k in kids if k["k"] != "null"]
        if not kids:
            continue
        rng.choice(kids)["a"] = "x"
        if len(kids) > 1 and rng.random() < 0.5:
            k2 = rng.choice(kids)
            if "a" not in k2:
                k2["a"] = "y"
        out.append(d)
    return out


RKEYS = ["a", "b", "ab", "c", 1, -1, 0, 2, "1", "x y", "a.b"]
RVALS = VALUES + [{"k": "int", "v": "-1"}, {"k": "int", "v": "10"}, {"k": "str", "v": "b"}, {"k": "str", "v": "1"},
                  {"k": "str", "v": "true"}, {"k": "float", "m": "-25", "e": -1}, {"k": "str", "v": "abc"},
                  {"k": "str", "v": " a"}, {"k": "str", "v": "a "}, {"k": "str", "v": " "}, {"k": "str", "v": "a b"}]


PUNCT_KEYS = ["a.b", "a/b", "a\\b", "(a)", "a[0]", "[b", "a]", "^a", "a$", "%a", "x y", "it's", 'q"q', "a", "b", 1]


def random_doc(rng, budget=25, depth=0, anchors=None, keys=None, twins=False):
    """Random document with <= budget nodes: maps, seqs, Arrays-of-Hashes, sets, anchors/aliases.
    twins: a Hash may hold an integer key next to the text key of the same spelling (1 and '1'); off by default (C02 / C15
    documents are unchanged)."""
    if anchors is None:
        anchors = {}
    if keys is None:
        keys = RKEYS
    r = rng.random()
    if budget <= 1 or depth > 4 or r < 0.25:
        if anchors and rng.random() < 0.08:
            return json.loads(json.dumps(rng.choice(list(anchors.values()))))   # alias
        v = dict(rng.choice(RVALS))
        if v["k"] != "null" and rng.random() < 0.1:
            name = rng.choice(["x", "y", "z"])
            if name not in anchors:
                v["a"] = name
                anchors[name] = v
        return v
    if r < 0.33:
        n = rng.randint(0, min(4, budget - 1))
        ms = []
        for k in rng.sample(keys[:8], n):
            if not (k in (1, 0) and False):
                ms.append(k)
        # no int next to its string twin; no 1/True clashes (bools are not generated as keys)
        return {"k": "set", "m": ms}
    nkids = rng.randint(0, min(5, budget - 1))
    share = max(1, (budget - 1) // max(1, nkids))
    if r < 0.5:
        # Array of Hashes (sometimes with a null or a stray scalar)
        items = []
        keyset = rng.sample(["a", "b", "ab", "c", 1, "1"] if twins else ["a", "b", "ab", "c", 1], rng.randint(1, 3))
        for _ in range(nkids):
            q = rng.random()
            if q < 0.1:
                items.append({"k": "null"})
            elif q < 0.15:
                items.append(dict(rng.choice(RVALS)))
            else:
                es = []
                for k in keyset:
                    if rng.random() < 0.8:
                        es.append([k, random_doc(rng, max(1, share // max(1, len(keyset))), depth + 2, anchors, keys, twins)])
                items.append({"k": "map", "e": es})
        out = {"k": "seq", "i": items}
    elif r < 0.72:
        out = {"k": "seq", "i": [random_doc(rng, share, depth + 1, anchors, keys, twins) for _ in range(nkids)]}
    else:
        ks = rng.sample(keys, min(nkids, len(keys)))
        if "1" in ks and 1 in ks and not twins:
            ks.remove("1")
        out = {"k": "map", "e": [[k, random_doc(rng, share, depth + 1, anchors, keys, twins)] for k in ks]}
    if rng.random() < 0.06:
        name = rng.choice(["x", "y", "z"])
        if name not in anchors:
            out["a"] = name
            anchors[name] = out
    return out


KEYWORD_ITEMS = ["[unique()]", "[distinct()]", "[unique(a)]", "[distinct(a)]", "[max(a)]", "[min(a)]", "[max()]", "[min()]",
                 "[has_child(a)]", "[!has_child(a)]", "[name()]", "[parent()]", "[parent(2)]", "[max(b)]", "[unique(b)]",
                 "[!max(a)]", "[!unique()]", "[!distinct()]"] + [
    "[parent(0)]", "[parent(3)]", "[parent(x)]", "[min(b)]", "[!min(a)]", "[has_child(b)]", "[has_child(1)]", "[!unique(a)]",
    "[max(a,b)]", "[name(a)]", "[!name()]", "[!parent()]", "[has_child()]", "[unique(c)]", "[distinct(b)]", "[max(c)]"]


def random_seg(rng):
    r = rng.random()
    if r < 0.3:
        return rng.choice(["a", "b", "ab", "c", "1", "-1", "0", "2", "-3", "7", "x\\ y", "a\\.b"])
    if r < 0.42:
        return "[%d]" % rng.randint(-9, 9)
    if r < 0.52:
        if rng.random() < 0.8:
            return "[%d:%d]" % (rng.randint(-9, 9), rng.randint(-9, 9))
        return rng.choice(["[a:b]", "[a:c]", "[0:z]", "[b:a]", "[1:a]"])
    if r < 0.57:
        return rng.choice(["[&x]", "[&y]", "[&z]"])
    if r < 0.82:
        attr = rng.choice([".", ".", ".", "a", "b", "ab", "c", "1", "a.b", "b.a", "a[0]", "c.a"])
        op = rng.choice(["=", "!=", "^", "$", "%", ">", "<", ">=", "<=", "=~"])
        term = rng.choice(["a", "b", "ab", "1", "0", "2", "1.5", "true", "", "None", "10", "-1", "abc"])
        if rng.random() < 0.12:
            term = rng.choice(BLANK_TERMS)
        if op == "=~":
            term = rng.choice(["/^a/", "/b$/", "/./", "/1/", "/(/", "/[a-b]+/", "/^$/"])
        inv = "!" if rng.random() < 0.15 else ""
        return "[%s%s%s%s]" % (inv, attr, op, term)
    if r < 0.86:
        return rng.choice(["a*", "*b", "a*b", "*a*"])
    if r < 0.92:
        return "*"
    if r < 0.96:
        return rng.choice(KEYWORD_ITEMS)
    return "**"


def random_path(rng, maxlen=5):
    n = rng.randint(1, maxlen)
    return [random_seg(rng) for _ in range(n)]


def key_text(k):
    """A key as KEY-segment text (dot and slash notation safe)."""
    s = str(k)
    for ch in "\\./ ()[]^$%'\"":
        s = s.replace(ch, "\\" + ch)
    return s


def scalar_term(j):
    k = j["k"]
    if k == "null":
        return "None"
    if k == "bool":
        return "true" if j["v"] else "false"
    if k == "int":
        return j["v"]
    if k == "float":
        return repr(codec.json_to_plain(j))
    v = j["v"]
    if v and " " in v and all(c.isalnum() or c == " " for c in v):
        # blanks (also at the edges) are part of the value's text: quoted or escaped, they are part of the term
        return ("'%s'" % v, '"%s"' % v, v.replace(" ", "\\ "))[len(v) % 3]
    return v if v and all(c.isalnum() for c in v) else "a"


def guided_path(rng, doc, maxlen=5):
    """A path that follows the document most of the time, so that queries reach deep nodes."""
    cur = doc
    out = []
    n = rng.randint(1, maxlen)
    ops = ["=", "=", "=", "!=", "^", "$", "%", ">", "<", ">=", "<="]
    while len(out) < n:
        if cur is None or rng.random() < 0.2:
            out.append(random_seg(rng))
            cur = None if rng.random() < 0.7 else cur
            continue
        k = cur["k"]
        r = rng.random()
        if r < 0.07:
            out.append("**")
            continue
        if k == "map" and cur["e"]:
            kk, v = rng.choice(cur["e"])
            if r < 0.55:
                out.append(key_text(kk)); cur = v
            elif r < 0.65:
                out.append("*"); cur = v
            elif r < 0.75:
                t = str(kk)
                out.append("[.%s%s]" % (rng.choice(ops), t if t.isalnum() else "a"))
                cur = v if rng.random() < 0.5 else None
            elif r < 0.85 and v["k"] not in ("map", "seq", "set"):
                out.append("[%s%s%s]" % (key_text(kk) if str(kk).isalnum() else "a", rng.choice(ops), scalar_term(v)))
                cur = v if rng.random() < 0.5 else None
            elif r < 0.9 and "a" in v:
                out.append("[&%s]" % v["a"]); cur = v
            elif r < 0.95:
                ks = sorted(str(x[0]) for x in cur["e"] if str(x[0]).isalnum())
                if ks:
                    out.append("[%s:%s]" % (ks[0], rng.choice(ks)))
                else:
                    out.append("*")
                cur = None
            else:
                out.append("[%s.%s=1]" % ("c", "a")); cur = None
        elif k == "seq" and cur["i"]:
            i = rng.randrange(len(cur["i"]))
            v = cur["i"][i]
            maps = [x for x in cur["i"] if x["k"] == "map" and x["e"]]
            if r < 0.3:
                out.append("[%d]" % (i if rng.random() < 0.7 else i - len(cur["i"]))); cur = v
            elif r < 0.4:
                out.append(str(i if rng.random() < 0.7 else i - len(cur["i"]))); cur = v
            elif r < 0.5:
                out.append("*"); cur = v
            elif r < 0.62:
                lo = rng.randint(-len(cur["i"]) - 1, len(cur["i"]))
                hi = rng.randint(-len(cur["i"]) - 1, len(cur["i"]) + 2)
                out.append("[%d:%d]" % (lo, hi))
                cur = {"k": "seq", "i": [x for x in cur["i"] if x["k"] == "map"]} if rng.random() < 0.7 else None
            elif r < 0.8 and maps:
                m = rng.choice(maps)
                kk, vv = rng.choice(m["e"])
                if rng.random() < 0.5 or vv["k"] in ("map", "seq", "set"):
                    out.append(key_text(kk)); cur = vv
                else:
                    out.append("[%s%s%s]" % (key_text(kk) if str(kk).isalnum() else "a", rng.choice(ops), scalar_term(vv)))
                    cur = m
            elif r < 0.92 and v["k"] not in ("map", "seq", "set"):
                out.append("[.%s%s]" % (rng.choice(ops), scalar_term(v))); cur = v
            elif "a" in v:
                out.append("[&%s]" % v["a"]); cur = v
            else:
                out.append(random_seg(rng)); cur = None
        elif k == "set" and cur["m"]:
            m = rng.choice(cur["m"])
            if r < 0.5:
                out.append(key_text(m))
            elif r < 0.7:
                out.append("*")
            elif r < 0.85:
                out.append("[.%s%s]" % (rng.choice(ops), str(m) if str(m).isalnum() else "a"))
            else:
                out.append("[a:b]")
            cur = None
        elif k not in ("map", "seq", "set"):
            out.append("[.%s%s]" % (rng.choice(ops), scalar_term(cur)) if r < 0.6 else random_seg(rng))
            cur = cur if r < 0.6 else None
        else:
            out.append(random_seg(rng)); cur = None
    if rng.random() < 0.12:
        out.insert(rng.randint(0, len(out)), rng.choice(KEYWORD_ITEMS))
    return out


# --------------------------------------------------------------------------- the implementation side

class Timeout(Exception):
    pass


def _alarm(_s, _f):
    raise Timeout()


def with_timer(fn, limit=10.0):
    """Run fn under a CPU-time limit (ITIMER_VIRTUAL: immune to machine pauses and overload; the
    evaluator does no I/O, so a hang is a busy loop)."""
    old = signal.signal(signal.SIGVTALRM, _alarm)
    signal.setitimer(signal.ITIMER_VIRTUAL, limit)
    try:
        return fn()
    finally:
        signal.setitimer(signal.ITIMER_VIRTUAL, 0)
        signal.signal(signal.SIGVTALRM, old)


def parse_segments(text):
    """Segments of the real parser (escaped), or None when the text does not parse."""
    from yamlpath import YAMLPath
    try:
        return codec.segs_to_json(list(YAMLPath(text).escaped))
    except Exception:
        return None


def written_segments(parsed):
    """{text: segments} for the path texts whose SEARCH segments, as the real parser delivers them, differ from what
    the text says (read by the parser model, `parse` op of the driver, which C08/C14 hold against the real parser):
    same number and types of segments, every non-search segment identical, at least one search segment with another
    attribute, operator, inversion or term (e.g. a quoted or escaped blank at the edge of a term that got lost on the
    way into the SearchTerms object).  The evaluator model mirrors what happens AFTER parsing, so it is given the
    search as written; all other differences between the parsers are C08/C14's business and change nothing here."""
    todo = [(t, sg) for t, sg in parsed if sg is not None and all(ord(ch) < 128 for ch in t)
            and any(k == "SEARCH" for k, _a in sg)]
    todo = list({t: (t, sg) for t, sg in todo}.values())
    if not todo:
        return {}
    out = {}
    answers = core.Driver().ask([{"op": "parse", "t": t, "sep": "auto"} for t, _sg in todo])
    for (t, sg), mo in zip(todo, answers):
        ms = mo.get("esc", {}).get("ok")
        if ms is None or ms == sg or len(ms) != len(sg):
            continue
        if all((a == b) or (a[0] == "SEARCH" and b[0] == "SEARCH") for a, b in zip(sg, ms)):
            out[t] = ms
    return out


def subnodes(j, obj, out):
    """(json, object) of every node, key and set member of a document (parallel walk)."""
    out.append((j, obj))
    k = j["k"]
    if k == "map":
        for (kk, vj), (ko, vo) in zip(j["e"], obj.items()):
            out.append((key_scalar(kk), ko))
            subnodes(vj, vo, out)
    elif k == "seq":
        for vj, vo in zip(j["i"], obj):
            subnodes(vj, vo, out)
    elif k == "set":
        for kk, ko in zip(j["m"], obj):
            out.append((key_scalar(kk), ko))


def key_scalar(k):
    return {"k": "int", "v": str(k)} if isinstance(k, int) else {"k": "str", "v": k}


def search_terms(segs, acc, attrs):
    """Collect (method, term) of every SEARCH segment, and parse every attribute that is a path."""
    for t, a in segs:
        if t == "SEARCH" and isinstance(a, dict) and "search" in a:
            s = a["search"]
            acc.add((s["m"], s["term"]))
            at = s["attr"]
            if at != "." and at not in attrs:
                sub = with_timer(lambda: parse_segments(at))
                attrs[at] = sub if sub is not None else {"err": "ypath"}
                if sub is not None:
                    search_terms(sub, acc, attrs)


import re as _re

SAFE_TEXT = _re.compile(r"^[A-Za-z0-9 ._+\-]*$")


def is_container(hj):
    return hj["k"] in ("map", "seq", "set")


def simple_pair(hj, term):
    """Pairs the comparison model (Model/Compare.lean) is expected to decide by itself: a scalar haystack and a term
    without the characters of the fenced literal classes.  Everything else gets an oracle row."""
    if is_container(hj):
        return False
    if hj["k"] == "str" and not SAFE_TEXT.match(hj["v"]):
        return False
    return bool(SAFE_TEXT.match(term))


def haystack_text(hj, ho):
    """str(haystack) as Searches.search_matches computes it (a Boolean is compared as bool)."""
    if hj["k"] == "bool":
        return "True" if hj["v"] else "False"
    return str(ho)


def oracle_tables(doc_json, doc_obj, segs):
    """(rx, mt, attrs): the regex oracle rows [pattern, text, found|None] for every REGEX term x scalar haystack,
    the real Searches.search_matches answers for the (haystack, term) pairs outside the comparison model
    (container haystacks, fenced literal classes), and the real parse of every search attribute."""
    import re
    from yamlpath.common import Searches
    from yamlpath.enums import PathSearchMethods
    terms, attrs = set(), {}
    search_terms(segs, terms, attrs)
    mt, rx = [], []
    if terms:
        subs = []
        subnodes(doc_json, doc_obj, subs)
        if any(t == "KEYWORD_SEARCH" for t, _a in segs):
            # [name()] turns a parentref into a haystack: None at the root, list indexes as they were written
            subs.append(({"k": "null"}, None))
            subs += [({"k": "int", "v": str(i)}, i) for i in range(-45, 46)]
        seen = set()
        rxseen = set()
        for (m, term) in sorted(terms):
            meth = PathSearchMethods[m]
            for hj, ho in subs:
                if m == "REGEX" and not is_container(hj):
                    text = haystack_text(hj, ho)
                    if (term, text) not in rxseen:
                        rxseen.add((term, text))
                        try:
                            found = re.compile(term).search(text) is not None
                        except re.error:
                            found = None
                        rx.append([term, text, found])
                if simple_pair(hj, term):
                    continue
                key = (m, term, json.dumps(hj, sort_keys=True))
                if key in seen:
                    continue
                seen.add(key)
                try:
                    ans = bool(Searches.search_matches(meth, term, ho))
                except Timeout:
                    raise
                except Exception as e:  # noqa
                    ans = core.exc_class(e)
                mt.append([m, hj, term, ans])
    return rx, mt, [[a, v] for a, v in attrs.items()]


def resolve(root, addr):
    """The object at an address of the real document (None when it does not exist)."""
    cur = root
    for kind, ref in addr:
        try:
            if kind == "m":
                if ref not in cur:
                    return None
                cur = ref
            else:
                cur = cur[ref]
        except Exception:
            return None
    return cur


def canon_addr(root, table, addr):
    """Canonical address (first occurrence of an aliased container) of a model address."""
    if not addr:
        return []
    parent = resolve(root, addr[:-1])
    pa = table.get(id(parent)) if parent is not None else None
    if pa is None:
        return list(addr)
    return list(pa) + [list(addr[-1])]


def canon_nc(nc, root, table, problems):
    """Canonical observable of one real NodeCoords: {"a": address, ...} or {"v": [...]}."""
    from yamlpath.wrappers import NodeCoords
    from ruamel.yaml.comments import CommentedSeq, CommentedSet
    node = nc.node
    if isinstance(node, NodeCoords):
        return canon_nc(node, root, table, problems)
    if type(node) is list:
        items = []
        for e in node:
            if isinstance(e, NodeCoords):
                items.append(canon_nc(e, root, table, problems))
            else:
                problems.append("virtual-list-holds-raw-element")
                items.append({"raw": True})
        return {"v": items}
    parent, ref = nc.parent, nc.parentref
    out = {}
    if parent is None:
        if node is not root:
            problems.append("no-parent-but-not-root")
        out["a"] = []
        out["p"] = None
        out["r"] = None
    else:
        pa = table.get(id(parent))
        if pa is None:
            problems.append("parent-not-in-document")
            out["a"] = None
            return out
        try:
            r = codec.ref_of(parent, ref)
        except codec.OutOfModel:
            problems.append("parentref-unusable")
            out["a"] = None
            return out
        out["r"] = list(r)
        if r[0] == "i":
            n = len(parent)
            if not -n <= r[1] < n:
                problems.append("parentref-out-of-range")
                out["a"] = None
                return out
            if parent[r[1]] is not node:
                problems.append("parent[parentref]-is-not-node")
            r = ["i", r[1] % n]
        elif r[0] == "k":
            if ref not in parent or parent[ref] is not node:
                problems.append("parent[parentref]-is-not-node")
        else:
            if ref not in parent:
                problems.append("member-not-in-parent-set")
        out["a"] = list(pa) + [r]
        out["p"] = list(pa)
    # the ancestry must walk, by object identity, from the root to the node
    out["anc_walk"] = ancestry_walk(nc, root)
    anc = []
    for (ap, aref) in (nc.ancestry or []):
        apa = table.get(id(ap))
        try:
            anc.append([apa, list(codec.ref_of(ap, aref))])
        except codec.OutOfModel:
            anc.append([apa, ["?", repr(aref)]])
    out["anc"] = anc
    # the raw text the Processor accumulated section by section (Lean: Acc.accObj_eq / Acc.joinText)
    out["orig"] = getattr(nc.path, "original", None) if nc.path is not None else None
    try:
        out["path"] = str(nc.path) if nc.path is not None else None
    except Timeout:
        raise
    except Exception:  # the reported path does not even parse
        out["path"] = None
        problems.append("reported-path-does-not-parse")
    if RENDER_BOTH and out["path"] is not None:
        out["rendered"] = rendered_paths(nc.path)
    return out


RENDER_BOTH = False     # set by compare_chunk for C02: also render every reported path in dot and in forward-slash notation


def rendered_paths(path):
    """The reported path rendered in each notation by the library's own means: a copy of the path whose `separator`
    is set to the notation, then str().  {"dot": text | None, "fslash": text | None} (None: rendering raised)."""
    from yamlpath import YAMLPath
    from yamlpath.enums import PathSeparators
    out = {}
    for name, sep in (("dot", PathSeparators.DOT), ("fslash", PathSeparators.FSLASH)):
        try:
            cp = YAMLPath(path)
            cp.separator = sep
            out[name] = str(cp)
        except Timeout:
            raise
        except Exception:
            out[name] = None
    return out


def ancestry_walk(nc, root):
    """None when nc.ancestry is a chain root -> … -> node (each step parent[ref] is the next parent,
    the last one is the node / a member); else a short reason."""
    from ruamel.yaml.comments import CommentedSet
    anc = nc.ancestry or []
    if nc.parent is None:
        return None if not anc else "root-with-ancestry"
    if not anc:
        return "empty"
    if anc[0][0] is not root:
        return "does-not-start-at-root"
    for i, (obj, ref) in enumerate(anc):
        nxt = anc[i + 1][0] if i + 1 < len(anc) else nc.node
        try:
            if isinstance(obj, (CommentedSet, set)):
                ok = ref in obj and i + 1 == len(anc) and (ref is nxt or ref == nxt)
            else:
                ok = obj[ref] is nxt
        except Exception:
            ok = False
        if not ok:
            return "step-%d-does-not-lead-on" % i
    if anc[-1][0] is not nc.parent:
        return "last-entry-is-not-the-parent"
    return None


def run_query(doc_json, text, mode):
    """One query on a fresh document.  Returns {"res": [...]} | {"err": cls, "site":…} (+ problems, mutated)."""
    from yamlpath import Processor
    d = codec.json_to_ruamel(doc_json)
    table = codec.build_addr_table(d)
    p = Processor(core.quiet_logger(), d)
    out = {}
    problems = []
    try:
        def go():
            if mode == "exists":
                return {"exists": bool(p.exists(text))}
            res = [canon_nc(nc, d, table, problems) for nc in p.get_nodes(text, mustexist=(mode == "req"))]
            return {"res": res}
        out = with_timer(go)
    except Timeout:
        out = {"err": "timeout", "site": "?"}
    except RecursionError as e:
        out = {"err": "crash:RecursionError", "site": core.crash_site(e)}
    except Exception as e:  # noqa
        out = {"err": core.exc_class(e), "site": core.crash_site(e)}
    if problems:
        out["problems"] = sorted(set(problems))
    if mode != "opt":
        try:
            after = codec.node_to_json(d)
        except Exception:
            after = None
        if after != doc_json:
            out["mutated"] = True
    return out, d, table


def addr_only(r):
    if r is None:
        return None
    if "v" in r:
        return {"v": [addr_only(x) for x in r["v"]]}
    return r.get("a")


def model_addrs(gen, root, table):
    out = []
    for r in gen["res"]:
        if "v" in r:
            out.append({"v": [canon_addr(root, table, x["a"]) for x in r["v"]]})
        else:
            out.append(canon_addr(root, table, r["a"]))
    return out


def err_class(e):
    """Compare classes only: every YAMLPathException subclass is 'ypath'."""
    if e is None:
        return None
    return "ypath" if e.startswith("ypath") else e


def seg_kinds(segs, slices=False):
    """Segment kinds of a path; a keyword search is named by its keyword (KW:parent, KW:has_child, …); with `slices`
    (C02) an INDEX segment that is a slice `[a:b]` is named SLICE."""
    out = []
    for t, a in segs:
        if t == "KEYWORD_SEARCH" and isinstance(a, dict) and "keyword" in a:
            out.append("KW:" + a["keyword"]["kw"].lower())
        elif slices and t == "INDEX" and isinstance(a, str):
            out.append("SLICE")
        else:
            out.append(t)
    return ",".join(out)


def has_keyword(segs):
    return any(t == "KEYWORD_SEARCH" for t, _a in segs)


# --------------------------------------------------------------------------- one chunk of cases

def compare_chunk(args):
    """cases: list of (doc_json, [vocabulary items]); returns (stats, violations, disagreements, samples).
    opts: {"c02": bool, "slash": bool}"""
    cases, opts = args
    core.use_repo()
    global RENDER_BOTH
    RENDER_BOTH = bool(opts.get("c02"))
    stats = {"n": 0, "queries": 0, "nonempty": 0, "ypath": 0, "crash": 0, "oom": 0, "unparsable": 0, "slash_skipped": 0,
             "opt_compared": 0, "virtual": 0, "c09_mutations": 0, "deep_results": 0, "requeries": 0,
             "search_as_written": 0, "kinds": {}, "docsize": {}}
    viol, disag, samples, nontrivial = [], [], [], set()
    per_sig = {}

    def report(lst, sig, what, case):
        n = per_sig.get(sig, 0)
        per_sig[sig] = n + 1
        if n < 3:
            lst.append((sig, what, case))

    prepared = []
    reqs = []
    parsed = []
    for doc, items in cases:
        text = path_text(items, False)
        parsed.append((text, with_timer(lambda: parse_segments(text))))
    written = written_segments(parsed)
    for (doc, items), (text, segs) in zip(cases, parsed):
        stats["n"] += 1
        if segs is None:
            stats["unparsable"] += 1
            continue
        if text in written:
            # the real parser hands its evaluator a search whose attribute / term / operator is not the one written in
            # the path text: the specification is evaluated on the search as written (the query is judged as a whole)
            segs = written[text]
            stats["search_as_written"] += 1
        # the real run (required) gives us the objects for the oracle tables
        req, d, table = run_query(doc, text, "req")
        stats["queries"] += 1
        try:
            try:
                rx, mt, attrs = with_timer(lambda: oracle_tables(doc, d, segs))
            except Timeout:
                # the guard is there for a hanging regular expression; a pause of the interpreter (garbage collection
                # of a large inherited heap on an overloaded machine) can trip it too: once more with a long limit
                rx, mt, attrs = with_timer(lambda: oracle_tables(doc, d, segs), 120.0)
        except (codec.OutOfModel, Timeout):
            stats["oom"] += 1
            continue
        prepared.append((doc, items, text, segs, req, d, table))
        reqs.append({"op": "C01.eval", "doc": doc, "segs": segs, "rx": rx, "mt": mt, "attrs": attrs})
    answers = core.Driver().ask(reqs) if reqs else []
    for (doc, items, text, segs, req, d, table), mo in zip(prepared, answers):
        case = {"doc": doc, "path": text, "items": items}
        kinds = seg_kinds(segs, bool(opts.get("c02")))
        for t, _a in segs:
            stats["kinds"][t] = stats["kinds"].get(t, 0) + 1
        sz = count_nodes(doc)
        stats["docsize"][sz] = stats["docsize"].get(sz, 0) + 1
        m_get, m_spec, m_req = mo["get"], mo["spec"], mo["req"]
        m_err = err_class(m_get["err"])
        oom = any(err_class(g["err"]) == "outOfModel" for g in (m_get, m_spec))
        # ---- direct C15 check on every query
        queries = [("req", text, req)]
        ex, _d2, _t2 = run_query(doc, text, "exists")
        queries.append(("exists", text, ex))
        stext = path_text(items, True)
        sreq = None
        if opts.get("slash", True):
            ssegs = with_timer(lambda: parse_segments(stext))
            if ssegs == segs:
                sreq, sd, stable = run_query(doc, stext, "req")
                queries.append(("req/", stext, sreq))
            else:
                stats["slash_skipped"] += 1
        stats["queries"] += len(queries) - 1
        crashed = False
        for qn, qt, qo in queries:
            e = qo.get("err")
            if e is not None and e != "ypath":
                crashed = True
                stats["crash"] += 1
                report(viol, "crash:%s@%s" % (e.split(":", 1)[-1], qo.get("site")),
                       "%s query %r raised %s at %s" % (qn, qt, e, qo.get("site")),
                       dict(case, query=qn, impl=qo, prop="C15"))
            if qo.get("mutated"):
                stats["c09_mutations"] += 1
        # ---- C02, the clauses that need no model: keyword paths and the optional mode (judged whether or not the model
        # covers the case)
        kw_path = has_keyword(segs)
        kw_name = "KW:name" in kinds.split(",")
        if opts.get("c02") and req.get("err") is None and not kw_name:
            c02_model_free(case, kinds, req, kw_path, stats, report, viol)
            if opts.get("c02_fslash") and (kw_path or zlib_mod(text, 3) == 0):
                c02_fslash(case, kinds, items, segs, req, stats, report, viol)
        if oom:
            stats["oom"] += 1
            continue
        if crashed:
            # the model mirrors the fixed code: it cannot agree with a crash; already reported (C15)
            if m_err is not None and m_err.startswith("crash"):
                pass
            continue
        # ---- C01: required query = Spec.select (addresses in order, or error class)
        impl_err = req.get("err")
        if impl_err == "ypath":
            stats["ypath"] += 1
        # keyword results: [name()] yields a key, not a document node - its coordinates are not judged (C02); the results of
        # every other keyword (parent, has_child, min, max, unique, distinct) are document nodes and are judged directly
        probs = [] if kw_name or opts.get("c02") else (req.get("problems") or [])      # C02: reported by c02_model_free
        impl_addrs = None if impl_err else [addr_only(r) for r in req["res"]]
        spec_g = dict(m_spec)
        # get_nodes(mustexist=True) raises when nothing matched; a null document yields nothing
        doc_null = doc["k"] == "null"
        if doc_null:
            spec_err, spec_addrs = None, []
        else:
            spec_err = err_class(spec_g["err"])
            spec_addrs = model_addrs(spec_g, d, table)
            if spec_err is None and not spec_addrs:
                spec_err = "ypath"
        get_err = err_class(m_get["err"])
        get_addrs = model_addrs(m_get, d, table)
        if any(isinstance(a, dict) for a in (impl_addrs or [])):
            stats["virtual"] += 1
        bad = False
        if (impl_err or None) != spec_err or (impl_err is None and impl_addrs != spec_addrs):
            bad = True
            report(viol, "c01:select-differs:%s" % kinds,
                   "get_nodes(%r, mustexist=True): implementation %s, specification %s" % (
                       text, impl_err or impl_addrs, spec_err or spec_addrs),
                   dict(case, impl=req, spec=spec_g, prop="C01"))
        if (get_err, get_addrs if get_err is None else None) != (spec_err, spec_addrs if spec_err is None else None):
            report(disag, "model-vs-spec", "model getRequired differs from Spec.select (theorem says equal)",
                   dict(case, model=m_get, spec=spec_g))
        if probs:
            report(viol, "c02:%s:%s" % (probs[0], kinds), "result coordinates of %r: %s" % (text, probs),
                   dict(case, impl=req, prop="C02"))
        # exists()
        if "exists" in ex:
            want = mo["exists"].get("ok")
            if "err" in mo["exists"] or bool(want) != ex["exists"]:
                report(viol, "c01:exists-differs:%s" % kinds,
                       "exists(%r) = %s, model %s" % (text, ex["exists"], mo["exists"]), dict(case, prop="C01"))
        elif ex.get("err") == "ypath":
            if "err" not in mo["exists"]:
                report(viol, "c01:exists-differs:%s" % kinds,
                       "exists(%r) raised, model %s" % (text, mo["exists"]), dict(case, prop="C01"))
        # slash notation: same answer
        if sreq is not None:
            s_addrs = None if sreq.get("err") else [addr_only(r) for r in sreq["res"]]
            if (sreq.get("err"), s_addrs) != (impl_err, impl_addrs):
                report(viol, "c01:notation-differs:%s" % kinds,
                       "dot %r gives %s, slash %r gives %s" % (text, impl_err or impl_addrs, stext, sreq.get("err") or s_addrs),
                       dict(case, prop="C01"))
        # optional query, compared when the model's optional evaluation needs no creation
        m_opt = mo["opt"]
        if err_class(m_opt["err"]) != "outOfModel":
            opt, od, otable = run_query(doc, text, "opt")
            stats["queries"] += 1
            stats["opt_compared"] += 1
            oe = opt.get("err")
            if oe is not None and oe != "ypath":
                report(viol, "crash:%s@%s" % (oe.split(":", 1)[-1], opt.get("site")),
                       "optional query %r raised %s" % (text, oe), dict(case, query="opt", impl=opt, prop="C15"))
            else:
                o_addrs = None if oe else [addr_only(r) for r in opt["res"]]
                mo_err = err_class(m_opt["err"])
                mo_addrs = model_addrs(m_opt, od, otable)
                if (oe or None) != mo_err or (oe is None and o_addrs != mo_addrs):
                    report(viol, "c01:optional-differs:%s" % kinds,
                           "get_nodes(%r, mustexist=False): implementation %s, model %s" % (text, oe or o_addrs, mo_err or mo_addrs),
                           dict(case, impl=opt, model=m_opt, prop="C01"))
        elif opts.get("opt_create"):
            # C15: the optional query would have to CREATE nodes (C09 models that); here only the type of an exception that
            # escapes it is judged, on a fresh copy of the document
            opt, _od, _ot = run_query(doc, text, "opt")
            stats["queries"] += 1
            stats["opt_creating"] = stats.get("opt_creating", 0) + 1
            oe = opt.get("err")
            if oe is not None and oe != "ypath":
                report(viol, "optcreate:crash:%s@%s" % (oe.split(":", 1)[-1], opt.get("site")),
                       "optional (creating) query %r raised %s" % (text, oe), dict(case, query="opt", impl=opt, prop="C15"))
        if impl_err is None and impl_addrs:
            stats["nonempty"] += 1
            nontrivial.add(hash((json.dumps(doc, sort_keys=True), text)))
        # ---- C02: coordinates, ancestry, path text, re-query
        if opts.get("c02") and impl_err is None and not bad and not kw_path:
            c02_compare(case, kinds, req, m_req, d, table, stats, report, viol)
        elif opts.get("c02") and impl_err is None and not kw_path:
            c02_direct(case, kinds, req, stats, report, viol, "", (), "unmodelled")    # C01 differs: no model to compare with
        if len(samples) < 2 and impl_err is None and impl_addrs and len(segs) > 1:
            samples.append({"doc": doc, "path": text, "impl": impl_addrs, "spec": spec_addrs})
    stats["nontrivial"] = len(nontrivial)
    return stats, viol, disag, samples


def dotted(sections):
    return ".".join(sections)


def c02_compare(case, kinds, req, m_req, d, table, stats, report, viol):
    """Per real result: parent address, parentref, ancestry chain, path text; re-query of the path."""
    from yamlpath import Processor
    text = case["path"]
    for ir, mr in zip(req["res"], m_req["res"]):
        if "v" in ir or "v" in mr or ir.get("a") is None:
            continue
        if len(ir["a"]) >= 2:
            stats["deep_results"] += 1
        want_p = None
        if mr["p"] is not None:
            pobj = resolve(d, mr["p"])
            want_p = table.get(id(pobj), mr["p"]) if pobj is not None else mr["p"]
        if ir.get("p") != want_p:
            report(viol, "c02:parent-differs:%s" % kinds, "%r: parent of result %s is %s, expected %s" % (
                text, ir["a"], ir.get("p"), want_p), dict(case, impl=ir, model=mr, prop="C02"))
            continue
        a = ir["a"]
        if ir.get("anc_walk") is not None:
            report(viol, "c02:ancestry-not-chain:%s" % kinds, "%r: ancestry of result %s: %s" % (text, a, ir["anc_walk"]),
                   dict(case, impl=ir, model=mr, prop="C02"))
            continue
        if len(ir.get("anc") or []) != len(mr.get("anc") or []):
            report(viol, "c02:ancestry-length-differs-from-model:%s" % kinds,
                   "%r: ancestry of result %s has %d entries, the model %d" % (text, a, len(ir.get("anc") or []), len(mr.get("anc") or [])),
                   dict(case, impl=ir, model=mr, prop="C02-model"))
        # path text: model sections joined; then the re-query
        ptxt = ir.get("path")
        if ptxt is None:
            report(viol, "c02:no-path:%s" % kinds, "%r: result %s has no path" % (text, a), dict(case, prop="C02"))
            continue
        # the model's path sections denote the same segments as the reported path
        msegs = with_timer(lambda: parse_segments(dotted(mr.get("path") or [])))
        isegs = with_timer(lambda: parse_segments(ptxt))
        if msegs != isegs:
            report(viol, "c02:path-segments-differ-from-model:%s" % kinds,
                   "%r: result %s reports path %r; the model expects %r" % (text, a, ptxt, dotted(mr.get("path") or [])),
                   dict(case, impl=ir, model=mr, prop="C02-model"))
        # the accumulated raw text is the model's sections joined by the dot (Acc.accObj_eq): compared as text
        # whenever no section holds two adjacent escaped backslashes (escape_path_section copies such a pair: C07-K6)
        mtxt = dotted(mr.get("path") or [])
        if ir.get("orig") is not None and ir["orig"] != mtxt and "\\\\\\\\" not in mtxt:
            report(viol, "c02:accumulated-path-text-differs-from-model:%s" % kinds,
                   "%r: result %s accumulated the path text %r; the model's sections give %r" % (text, a, ir["orig"], mtxt),
                   dict(case, impl=ir, model=mr, prop="C02-model"))
        judge_reported_path(case, kinds, ir, isegs, stats, report, viol, dict(model=mr))


def reresolves(doc, ptxt, a, isegs):
    """Does the path text, evaluated by the real Processor on a fresh copy of the document, return exactly the node at
    address a (every bearer of the anchor when the path names one)?  -> (ok, query outcome, addresses)"""
    rq, rd, _rt = run_query(doc, ptxt, "req")
    got = None if rq.get("err") else [addr_only(x) for x in rq["res"]]
    # a path that names an anchor returns the node once per place it is aliased
    has_anchor = any(sg[0] == "ANCHOR" for sg in (isegs or []))
    if has_anchor and got is not None and a in got:
        node_obj = resolve(rd, a)
        if isegs[-1][0] == "ANCHOR":
            # "... once per place it is aliased": every child of the result's parent that bears the anchor, no other
            parent = resolve(rd, a[:-1]) if a else None
            name = isegs[-1][1] if isinstance(isegs[-1][1], str) else None
            places = None
            if name is not None and isinstance(parent, dict):
                places = [list(a[:-1]) + [["k", k]] for k, v in parent.items() if getattr(getattr(v, "anchor", None), "value", None) == name]
            elif name is not None and isinstance(parent, list):
                places = [list(a[:-1]) + [["i", i]] for i, v in enumerate(parent) if getattr(getattr(v, "anchor", None), "value", None) == name]
            if places is not None and all(isinstance(x, list) for x in got):
                norm = lambda xs: sorted(json.dumps(x, sort_keys=True, default=str) for x in xs)    # noqa: E731
                if len(places) > 1 and norm(got) != norm(places):
                    return False, rq, got
            return True, rq, got
        if all(isinstance(x, list) and resolve(rd, x) is node_obj for x in got):
            return True, rq, got
    return got == [a], rq, got


def judge_reported_path(case, kinds, ir, isegs, stats, report, viol, extra=None, mode=""):
    """str(result.path) re-queried returns exactly the result; so does the path rendered in dot and in forward-slash
    notation through the `separator` setter ("this holds in both notations")."""
    text, a, ptxt = case["path"], ir["a"], ir["path"]
    stats["requeries"] += 1
    ok, rq, got = reresolves(case["doc"], ptxt, a, isegs)
    if not ok:
        report(viol, "c02:%spath-does-not-reresolve:%s" % (mode, kinds),
               "%s%r: result %s reports path %r, which evaluates to %s" % (mode and mode[:-1] + " query ", text, a, ptxt, rq.get("err") or got),
               dict(case, impl=ir, requery=rq, prop="C02", **(extra or {})))
        return
    for nota, rtxt in sorted((ir.get("rendered") or {}).items()):
        if rtxt == ptxt:
            continue
        if rtxt is None:
            report(viol, "c02:%spath-does-not-render-in-%s:%s" % (mode, nota, kinds),
                   "%r: the path %r of result %s cannot be rendered in %s notation (separator setter + str() raised)" % (
                       text, ptxt, a, nota), dict(case, impl=ir, notation=nota, prop="C02"))
            continue
        stats["requeries"] += 1
        stats["rendered_requeries"] = stats.get("rendered_requeries", 0) + 1
        rsegs = with_timer(lambda: parse_segments(rtxt))
        ok, rq, got = reresolves(case["doc"], rtxt, a, rsegs)
        if not ok:
            report(viol, "c02:%spath-does-not-reresolve-in-%s:%s" % (mode, nota, kinds),
                   "%r: result %s reports path %r; rendered in %s notation (separator setter) it is %r, which evaluates to %s" % (
                       text, a, ptxt, nota, rtxt, rq.get("err") or got),
                   dict(case, impl=ir, notation=nota, rendered=rtxt, requery=rq, prop="C02"))


def c02_model_free(case, kinds, req, kw_path, stats, report, viol):
    """The C02 clauses judged on the real code alone, for a required query that succeeded (so every node the path names
    exists): coordinate problems of every result; keyword paths in full (c02_direct); and the results of the same query in
    the DEFAULT optional mode (get_nodes(mustexist=False), which runs other code: _get_optional_nodes) - coordinates,
    ancestry chain, and re-resolution of every reported path the required query has not already shown to re-resolve."""
    text = case["path"]
    probs = req.get("problems") or []
    if probs:
        report(viol, "c02:%s:%s" % (probs[0], kinds), "result coordinates of %r: %s" % (text, probs),
               dict(case, impl=req, prop="C02"))
    if kw_path:
        c02_direct(case, kinds, req, stats, report, viol)
    opt, od, _ot = run_query(case["doc"], text, "opt")
    stats["queries"] += 1
    if opt.get("err") is not None:
        return          # an optional query that raises on an existing path is C01's / C15's business
    try:
        after = codec.node_to_json(od)
    except Exception:
        after = None
    if after != case["doc"] or len(opt["res"]) != len(req["res"]):
        # a multi-match segment (`*`, `**`, a search, a pass-through key) reached a branch in which the rest of the path
        # does not exist, and the optional mode built it (in the document, or in the temporary list of a slice result - then
        # the document is unchanged but there are more results than matches): not all results are nodes of the document as
        # given (C09's subject)
        stats["opt_created"] = stats.get("opt_created", 0) + 1
        return
    stats["opt_judged"] = stats.get("opt_judged", 0) + 1
    oprobs = opt.get("problems") or []
    if oprobs:
        report(viol, "c02:optional:%s:%s" % (oprobs[0], kinds), "result coordinates of optional query %r: %s" % (text, oprobs),
               dict(case, query="opt", impl=opt, prop="C02"))
    seen = set()
    for ir in req["res"]:
        if "v" not in ir and ir.get("a") is not None and ir.get("anc_walk") is None:
            seen.add(json.dumps([ir["a"], ir.get("path"), ir.get("rendered")], sort_keys=True))
    c02_direct(case, kinds, opt, stats, report, viol, "optional:", seen)


def zlib_mod(text, n):
    import zlib
    return zlib.crc32(text.encode("utf-8")) % n


def c02_fslash(case, kinds, items, segs, req, stats, report, viol):
    """"This holds in both notations": the same query WRITTEN in forward-slash notation (when the real parser reads it as the
    same segments).  Its results must be located the same way - parent[parentref] is the node, the ancestry walks from the
    root, the reported path (as it is, and rendered in either notation) re-resolves to the node.  Results reporting the same
    node with the same path as the dot query are judged there already; anything else is judged here on the real code."""
    stext = path_text(items, True)
    ssegs = with_timer(lambda: parse_segments(stext))
    if ssegs is None or ssegs != with_timer(lambda: parse_segments(case["path"])):
        stats["fslash_skipped"] = stats.get("fslash_skipped", 0) + 1
        return
    sreq, _sd, _st = run_query(case["doc"], stext, "req")
    stats["queries"] += 1
    stats["fslash_judged"] = stats.get("fslash_judged", 0) + 1
    scase = dict(case, path=stext, dot_path=case["path"], notation="fslash")
    if sreq.get("err") is not None:
        stats["fslash_query_raises"] = stats.get("fslash_query_raises", 0) + 1
        return          # the two notations selecting differently is C01's subject (notation-differs), a crash C15's
    # a result that the dot query reports identically (same node, same path and renderings, same ancestry verdict, and the
    # same coordinate problems for the query as a whole) is judged there - also against the known findings
    same_probs = sorted(sreq.get("problems") or []) == sorted(req.get("problems") or [])
    if not same_probs:
        sprobs = sreq["problems"] if sreq.get("problems") else ["coordinate-problems-differ-from-dot-query"]
        report(viol, "c02:fslash:%s:%s" % (sprobs[0], kinds), "result coordinates of %r: %s (the dot query %r: %s)" % (
            stext, sprobs, case["path"], req.get("problems") or "none"), dict(scase, impl=sreq, prop="C02"))
    finger = lambda ir: json.dumps([ir.get("a"), ir.get("path"), ir.get("rendered"), ir.get("anc_walk")], sort_keys=True)  # noqa: E731
    seen = {finger(ir) for ir in req["res"] if "v" not in ir}
    fresh = [ir for ir in sreq["res"] if "v" in ir or finger(ir) not in seen]
    stats["fslash_results"] = stats.get("fslash_results", 0) + len(sreq["res"])
    if fresh:
        before = stats.get("opt_results", 0)
        c02_direct(scase, kinds, {"res": fresh}, stats, report, viol, "fslash:")
        stats["fslash_fresh_results"] = stats.get("fslash_fresh_results", 0) + stats.get("opt_results", 0) - before
        stats["opt_results"] = before


def c02_direct(case, kinds, req, stats, report, viol, mode="", seen=(), tag="kw"):
    """The property's clauses judged on the real code alone (keyword paths without [name()]; results of the optional
    mode, mode="optional:").  parent[parentref] is the node (canon_nc -> problems, reported by the caller); the ancestry
    walks from the root to the node; str(path) - and the path rendered in either notation - re-queried on the same
    document returns exactly that node."""
    text = case["path"]
    if not mode:
        stats[tag + "_judged"] = stats.get(tag + "_judged", 0) + 1
    for ir in req["res"]:
        if "v" in ir or ir.get("a") is None:
            continue
        a = ir["a"]
        if not mode:
            if len(a) >= 2:
                stats["deep_results"] += 1
            stats[tag + "_results"] = stats.get(tag + "_results", 0) + 1
        else:
            stats["opt_results"] = stats.get("opt_results", 0) + 1
        if ir.get("anc_walk") is not None:
            report(viol, "c02:%sancestry-not-chain:%s" % (mode, kinds), "%s%r: ancestry of result %s: %s" % (
                mode and mode[:-1] + " query ", text, a, ir["anc_walk"]), dict(case, impl=ir, prop="C02"))
            continue
        ptxt = ir.get("path")
        if ptxt is None:
            report(viol, "c02:%sno-path:%s" % (mode, kinds), "%r: result %s has no path" % (text, a), dict(case, prop="C02"))
            continue
        if json.dumps([a, ptxt, ir.get("rendered")], sort_keys=True) in seen:
            continue        # same node, same reported path as a result of the required query: judged there
        isegs = with_timer(lambda: parse_segments(ptxt))
        judge_reported_path(case, kinds, ir, isegs, stats, report, viol, None, mode)


# --------------------------------------------------------------------------- collectors (C15, direct check only)

COLL_OPERANDS = ["a", "b", "ab", "c", "a.b", "b.a", "[0]", "[1]", "[-1]", "*", "**", "a[0]", "a.*", "[.=a]", "[.>0]", "[a=1]",
                 "1", "[0:2]", "a[0:2]", "[.!=1]", "*.a", "[&x]"]


def random_collector(rng):
    ops = []
    n = rng.randint(1, 3)
    operands = [rng.choice(COLL_OPERANDS) for _ in range(n)]
    text = "(%s)" % operands[0]
    for o in operands[1:]:
        text += rng.choice(["+", "-", "&"]) + "(%s)" % o
    tail = rng.choice(["", "", "", "[0]", "[.=a]", "[1:2]", "[-1]"])
    return operands, text + tail


def selects_only_scalars(doc, operand):
    """Does the operand path, evaluated on the document root, select scalars only (the quantifier of C15)?"""
    from yamlpath import Processor
    from yamlpath.wrappers import NodeCoords
    d = codec.json_to_ruamel(doc)
    p = Processor(core.quiet_logger(), d)
    try:
        for nc in p.get_nodes(operand, mustexist=True):
            v = NodeCoords.unwrap_node_coords(nc)
            if isinstance(v, (dict, list, set)):
                return False
    except Timeout:
        raise
    except Exception:
        return True     # an operand that raises is judged by the whole query
    return True


def gathers_only_scalars(doc, operand):
    """Does the operand path select scalars, or lists / sets all of whose members are scalars?  (A collector expands such
    a list into its members: what the operand contributes to the collection is scalars only.)"""
    from yamlpath import Processor
    from yamlpath.wrappers import NodeCoords
    d = codec.json_to_ruamel(doc)
    p = Processor(core.quiet_logger(), d)
    try:
        for nc in p.get_nodes(operand, mustexist=True):
            v = NodeCoords.unwrap_node_coords(nc)
            if isinstance(v, dict):
                return False
            if isinstance(v, (list, set)) and any(isinstance(NodeCoords.unwrap_node_coords(x), (dict, list, set)) for x in v):
                return False
    except Timeout:
        raise
    except Exception:
        return True     # an operand that raises is judged by the whole query
    return True


def collector_chunk(args):
    """cases: (doc, operands, text).  Direct C15 check of collector paths whose operands select scalars;
    the evaluator model does not cover collectors (counted out of model).  opts["expand_lists"]: an operand may also
    select lists of scalars (the collector expands them into their scalar members)."""
    cases, _opts = args
    core.use_repo()
    stats = {"n": 0, "in_quantifier": 0, "nonscalar_operand": 0, "crash_outside_quantifier": 0, "mutated": 0, "ok": 0, "ypath": 0}
    viol = []
    per_sig = {}
    pred = gathers_only_scalars if _opts.get("expand_lists") else selects_only_scalars
    for doc, operands, text in cases:
        stats["n"] += 1
        try:
            scalar_only = with_timer(lambda: all(pred(doc, o) for o in operands))
        except Timeout:
            scalar_only = True
        for mode in ("req", "exists"):
            out, _d, _t = run_query(doc, text, mode)
            e = out.get("err")
            if out.get("mutated"):
                stats["mutated"] += 1
            if e is None:
                stats["ok"] += 1
            elif e == "ypath":
                stats["ypath"] += 1
            elif not scalar_only:
                stats["crash_outside_quantifier"] += 1
            else:
                sig = "crash:%s@%s" % (e.split(":", 1)[-1], out.get("site"))
                n = per_sig.get(sig, 0)
                per_sig[sig] = n + 1
                if n < 3:
                    viol.append((sig, "%s query %r (collector, scalar operands) raised %s at %s" % (mode, text, e, out.get("site")),
                                 {"doc": doc, "path": text, "items": [text], "prop": "C15", "impl": out}))
        stats["in_quantifier" if scalar_only else "nonscalar_operand"] += 1
    return stats, viol


# --------------------------------------------------------------------------- keyword segments (C15, direct check only)


KEYWORDS = ["has_child", "name", "max", "min", "parent", "unique", "distinct"]
# keyword parameter texts at the edges of the parameter parser: blanks (dropped when bare, kept when quoted or escaped),
# empty quotes, the anchor mark alone, lone / unbalanced quotes, separators without values
KEYWORD_PARAM_TEXTS = ['" "', "' '", '"  "', "'   '", '""', "''", " ", "  ", "\\ ", "\\ \\ ", "&", '"&"', "& ", '" &"', '"& "', "&&",
                       '" &x"', "'&x '", "&x", '"', "'", "\\\"", "\\'", '"\'', ",", ",,", "a,", ",a", " , ", '" "," "', '"",""', "'',a",
                       '","', "', '", '"a"', "' a '", "a b", '"a b"', "0", '" 0"', "-1", '"-1 "', "a", "\\&x", "\\,", '" ", a']


def keyword_param_items():
    """`[kw(<text>)]` and `[!kw(<text>)]` for every keyword x every parameter text of KEYWORD_PARAM_TEXTS."""
    return ["[%s%s(%s)]" % (inv, kw, t) for kw in KEYWORDS for inv in ("", "!") for t in KEYWORD_PARAM_TEXTS]


def keyword_chunk(args):
    """cases: (doc, items).  Direct C15 check of paths holding a keyword segment (outside the evaluator model).
    opts["kw_opt"]: also through get_nodes(mustexist=False)."""
    cases, _opts = args
    core.use_repo()
    stats = {"n": 0, "ok": 0, "ypath": 0, "crash": 0}
    viol = []
    per_sig = {}
    modes = ("req", "exists", "opt") if _opts.get("kw_opt") else ("req", "exists")
    for doc, items in cases:
        stats["n"] += 1
        text = path_text(items, False)
        for mode in modes:
            out, _d, _t = run_query(doc, text, mode)
            e = out.get("err")
            if e is None:
                stats["ok"] += 1
            elif e == "ypath":
                stats["ypath"] += 1
            else:
                stats["crash"] += 1
                sig = "crash:%s@%s" % (e.split(":", 1)[-1], out.get("site"))
                n = per_sig.get(sig, 0)
                per_sig[sig] = n + 1
                if n < 3:
                    viol.append((sig, "%s query %r (%s) raised %s at %s" % (mode, text, _opts.get("what", "keyword segment"), e, out.get("site")),
                                 {"doc": doc, "path": text, "items": items, "prop": "C15", "impl": out}))
    return stats, viol


# --------------------------------------------------------------------------- collectors against the model (C01, wave w3)
# Additive block: the evaluator model `W3.requiredM` (lean/Ypv/Model/Collector.lean) parses the path TEXT itself
# (parser model) and threads the document through the evaluation; driver op `C01.coll`.

W3_VALS = [{"k": "int", "v": "1"}, {"k": "int", "v": "2"}, {"k": "str", "v": "a"}, {"k": "str", "v": "1"}, {"k": "bool", "v": True},
           {"k": "float", "m": "15", "e": -1}, {"k": "null"}, {"k": "str", "v": "ab"}, {"k": "int", "v": "0"}]
W3_KEYS = ["a", "b", "c", "x", "y", 1, 0]


def w3_dealias(j, seen=None):
    """Drop every anchor name that already occurred (no shared objects: the model has none)."""
    if seen is None:
        seen = set()
    j = dict(j)
    a = j.get("a")
    if a is not None:
        if a in seen:
            del j["a"]
        else:
            seen.add(a)
    if j["k"] == "map":
        j["e"] = [[k, w3_dealias(v, seen)] for k, v in j["e"]]
    elif j["k"] == "seq":
        j["i"] = [w3_dealias(v, seen) for v in j["i"]]
    return j


def w3_shared_doc(rng):
    """Hashes (and lists of hashes / scalars) sharing keys and values, so that - and & have something to do."""
    def small_map():
        ks = rng.sample(["x", "y", "a", "b", 1], rng.randint(0, 3))
        return {"k": "map", "e": [[k, leaf()] for k in ks]}

    def leaf():
        r = rng.random()
        if r < 0.75:
            return dict(rng.choice(W3_VALS[:5]))
        if r < 0.85:
            return {"k": "seq", "i": [dict(rng.choice(W3_VALS[:4])) for _ in range(rng.randint(0, 3))]}
        return small_map()

    def member():
        r = rng.random()
        if r < 0.45:
            return small_map()
        if r < 0.65:
            return {"k": "seq", "i": [small_map() if rng.random() < 0.6 else leaf() for _ in range(rng.randint(0, 3))]}
        if r < 0.75:
            return {"k": "seq", "i": [dict(rng.choice(W3_VALS)) for _ in range(rng.randint(0, 4))]}
        if r < 0.8:
            return {"k": "set", "m": rng.sample(["a", "b", "x", 1], rng.randint(0, 3))}
        return leaf()
    def twin(j):
        """A copy in which some scalars are replaced by look-alikes (1 / "1", true / "True": unequal, same str())."""
        j = json.loads(json.dumps(j))
        if j["k"] == "map":
            j["e"] = [[k, twin(v)] for k, v in j["e"] if rng.random() < 0.9]
        elif j["k"] == "seq":
            j["i"] = [twin(v) for v in j["i"]]
        elif rng.random() < 0.4:
            if j["k"] == "int":
                return {"k": "str", "v": j["v"]}
            if j["k"] == "bool":
                return {"k": "str", "v": "True" if j["v"] else "False"}
            if j["k"] == "str" and j["v"] == "1":
                return {"k": "int", "v": "1"}
        return j
    if rng.random() < 0.8:
        ks = rng.sample(W3_KEYS, rng.randint(1, 4))
        es = [[k, member()] for k in ks]
        if len(es) >= 2 and rng.random() < 0.4:
            es[1][1] = twin(es[0][1])
        return {"k": "map", "e": es}
    items = [member() for _ in range(rng.randint(1, 4))]
    if len(items) >= 2 and rng.random() < 0.4:
        items[1] = twin(items[0])
    return {"k": "seq", "i": items}


def w3_addr_paths(j, pre="", out=None, depth=0):
    """Straight paths (dot notation, plain keys / [i]) to the nodes of a document."""
    if out is None:
        out = []
    if depth > 3:
        return out
    if j["k"] == "map":
        for k, v in j["e"]:
            ks = str(k)
            if not ks or any(c in ks for c in " ./\\[]()&*!{}'\"#=~^$%,:<>@|;?+-"):
                continue
            p = (pre + "." if pre else "") + ks
            out.append(p)
            w3_addr_paths(v, p, out, depth + 1)
    elif j["k"] == "seq":
        for i, v in enumerate(j["i"]):
            p = pre + "[%d]" % i
            out.append(p)
            w3_addr_paths(v, p, out, depth + 1)
    return out


W3_GENERIC = ["*", "**", "a", "b", "x", "a.x", "a.*", "*.x", "[0]", "[1]", "[-1]", "[0:2]", "[1:1]", "a[0]", "[.=a]", "[.>0]", "[x=1]",
              "[.!=1]", "1", "0", "[&x]", "a.b", "b.a", "c", "y", "*.*", "[a:b]", "[.^a]", ""]


def w3_operand(rng, paths, depth=0, near=None):
    r = rng.random()
    if near and r < 0.2:
        # a sibling of the first operand, or something below a sibling (twins live there)
        cut = max(near.rfind("."), near.rfind("["))
        par = near[:cut] if cut > 0 else ""
        sib = [q for q in paths if q != near and not q.startswith(near) and q.startswith(par) and q.count(".") + q.count("[") <= near.count(".") + near.count("[") + 1]
        if sib:
            p = rng.choice(sib)
            return p + ".*" if rng.random() < 0.3 else p
    if near and r < 0.5:
        rel = [q for q in paths if q != near and (q.startswith(near) or near.startswith(q))]
        if rel:
            p = rng.choice(rel)
            return p + ".*" if rng.random() < 0.2 else p
    if r < 0.72 and paths:
        p = rng.choice(paths)
        q = rng.random()
        if q < 0.15:
            return p + ".*"
        if q < 0.2:
            return p + "[0:2]"
        return p
    if r < 0.8 and depth < 2:
        return w3_collector(rng, paths, depth + 1, tail=False)
    return rng.choice(W3_GENERIC)


def w3_collector(rng, paths, depth=0, tail=True):
    n = rng.choice([1, 2, 2, 2, 3, 3, 4]) if depth == 0 else rng.choice([1, 2, 2])
    first = w3_operand(rng, paths, depth)
    near = first[:-2] if first.endswith(".*") else first
    near = near if near in paths else None
    text = "(%s)" % first
    for _ in range(n - 1):
        text += rng.choice(["+", "-", "-", "&"]) + "(%s)" % w3_operand(rng, paths, depth, near)
    if tail:
        text += rng.choice(["", "", "", "", "", "", "", "", "", "", "", "[0]", "[1]", "[-1]", "[0:2]", "[1:1]", ".a", ".x", "[0].x", "[0][0]", ".0",
                            "[7]", "[.=a]", ".(x)", "(x)", ".(x)+(y)", "[0](x)-(y)"])
        if depth == 0 and rng.random() < 0.12 and paths:
            text = rng.choice(paths) + "." + text
    return text


def w3_leaves(nc, table, out):
    from yamlpath.wrappers import NodeCoords
    from ruamel.yaml.comments import CommentedSet
    node = nc.node
    if isinstance(node, NodeCoords):
        return w3_leaves(node, table, out)
    if type(node) is list:
        for e in node:
            if isinstance(e, NodeCoords):
                w3_leaves(e, table, out)
            else:
                out.append({"raw": True})
        return
    leaf = {"n": codec.node_to_json(node)}
    p = nc.parent
    leaf["p"] = None if p is None else table.get(id(p), "not-in-document")
    try:
        leaf["r"] = None if nc.parentref is None else codec.key_to_json(nc.parentref)
    except Exception:
        leaf["r"] = "?"
    if isinstance(node, (dict, list, CommentedSet, set)):
        leaf["a"] = table.get(id(node), "not-in-document")
    out.append(leaf)


def w3_run(doc_json, text, mode):
    from yamlpath import Processor
    d = codec.json_to_ruamel(doc_json)
    table = codec.build_addr_table(d)
    p = Processor(core.quiet_logger(), d)
    try:
        def go():
            if mode == "exists":
                return {"exists": bool(p.exists(text))}
            ncs = list(p.get_nodes(text, mustexist=True))
            res = []
            for nc in ncs:          # after the generator is exhausted: the nodes reflect every deletion
                leaves = []
                w3_leaves(nc, table, leaves)
                res.append(leaves)
            return {"res": res}
        out = with_timer(go)
    except Timeout:
        out = {"err": "timeout", "site": "?"}
    except RecursionError as e:
        out = {"err": "crash:RecursionError", "site": core.crash_site(e)}
    except Exception as e:  # noqa
        out = {"err": core.exc_class(e), "site": core.crash_site(e)}
    try:
        out["doc"] = codec.node_to_json(d)
    except Exception:
        out["doc"] = None
    return out


def w3_model_leaves(res):
    out = []
    for leaves in res:
        ls = []
        for lf in leaves:
            x = {"n": lf["n"], "p": lf["p"], "r": None if lf["r"] is None else lf["r"][1]}
            if lf["n"]["k"] in ("map", "seq", "set"):
                x["a"] = lf["a"]
            ls.append(x)
        out.append(ls)
    return out


def w3_ops(text):
    return "".join(sorted(set(c for i, c in enumerate(text) if c in "+-&" and i > 0 and text[i - 1] == ")" and text[i + 1:i + 2] == "(")))


def w3_chunk(args):
    """cases: (doc, text, layer).  Real get_nodes(mustexist=True) / exists() against `C01.coll`."""
    cases, _opts = args
    core.use_repo()
    stats = {"n": 0, "oom": 0, "nonempty": 0, "ypath": 0, "crash_agree": 0, "mutated": 0, "virtual_results": 0, "hashsub": 0,
             "ops": {}}
    viol, disag, nontrivial = [], [], set()
    per_sig = {}

    def report(lst, sig, what, case):
        n = per_sig.get(sig, 0)
        per_sig[sig] = n + 1
        if n < 3:
            lst.append((sig, what, case))
    reqs = [{"op": "C01.coll", "doc": doc, "path": text} for doc, text, _l in cases]
    answers = core.Driver().ask(reqs) if reqs else []
    for (doc, text, layer), mo in zip(cases, answers):
        stats["n"] += 1
        case = {"doc": doc, "path": text, "items": [text], "layer": layer}
        ops = w3_ops(text)
        stats["ops"][ops] = stats["ops"].get(ops, 0) + 1
        m_err = err_class(mo["err"])
        m_ex = mo["exists"]
        if m_err == "outOfModel" or err_class(m_ex.get("err")) == "outOfModel":
            stats["oom"] += 1
            continue
        esc = "escape:" if layer == "escape" else ""
        impl = w3_run(doc, text, "req")
        ex = w3_run(doc, text, "exists")
        if mo["hashSub"]:
            stats["hashsub"] += 1
        # ---- get_nodes(mustexist=True)
        i_err = impl.get("err")
        if i_err is not None and i_err != "ypath":
            if m_err == i_err:
                stats["crash_agree"] += 1        # the model has the same crash outcome (class of C09-F1, see Props/C15)
            elif m_err is not None and m_err.startswith("crash"):
                report(viol, "c01:%scollector-crash-differs:%s" % (esc, ops), "get_nodes(%r): implementation %s at %s, model %s" % (
                    text, i_err, impl.get("site"), m_err), dict(case, impl=impl, model=mo, prop="C01"))
            else:
                report(viol, "crash:%s@%s" % (i_err.split(":", 1)[-1], impl.get("site")),
                       "req query %r (collector) raised %s at %s; the model has no crash outcome there" % (text, i_err, impl.get("site")),
                       dict(case, impl=impl, model=mo, prop="C15"))
        else:
            m_res = w3_model_leaves(mo["res"])
            if m_err is None and not m_res and doc["k"] != "null":
                m_err = "ypath"
            if (i_err or None) != m_err or (i_err is None and impl["res"] != m_res):
                report(viol, "c01:%scollector-differs:%s" % (esc, ops), "get_nodes(%r, mustexist=True): implementation %s, model %s" % (
                    text, i_err or impl["res"], m_err or m_res), dict(case, impl=impl, model=mo, prop="C01"))
            elif i_err is None:
                if impl["res"]:
                    stats["nonempty"] += 1
                    nontrivial.add(hash((json.dumps(doc, sort_keys=True), text)))
                if any(len(ls) != 1 for ls in impl["res"]):
                    stats["virtual_results"] += 1
            else:
                stats["ypath"] += 1
        if impl.get("doc") != mo["doc"]:
            report(viol, "c01:%scollector-document-differs:%s" % (esc, ops), "document after get_nodes(%r): implementation %s, model %s" % (
                text, json.dumps(impl.get("doc"))[:300], json.dumps(mo["doc"])[:300]), dict(case, impl=impl, model=mo, prop="C01"))
        elif impl.get("doc") != doc:
            stats["mutated"] += 1
        # ---- exists()
        e_err = ex.get("err")
        if e_err is not None and e_err != "ypath":
            if err_class(m_ex.get("err")) != e_err:
                if (m_ex.get("err") or "").startswith("crash"):
                    report(viol, "c01:%scollector-crash-differs:%s" % (esc, ops), "exists(%r): implementation %s, model %s" % (
                        text, e_err, m_ex), dict(case, impl=ex, model=mo, prop="C01"))
                else:
                    report(viol, "crash:%s@%s" % (e_err.split(":", 1)[-1], ex.get("site")),
                           "exists query %r (collector) raised %s at %s; the model has no crash outcome there" % (
                               text, e_err, ex.get("site")), dict(case, impl=ex, model=mo, prop="C15"))
        else:
            want = ("ypath" if err_class(m_ex.get("err")) == "ypath" else None, m_ex.get("ok"))
            got = (e_err, ex.get("exists"))
            if "err" in m_ex and err_class(m_ex["err"]) != "ypath" or want != got:
                report(viol, "c01:%scollector-exists-differs:%s" % (esc, ops), "exists(%r) = %s, model %s" % (text, got, m_ex),
                       dict(case, impl=ex, model=mo, prop="C01"))
        if ex.get("doc") != mo["exdoc"]:
            report(viol, "c01:%scollector-document-differs:%s" % (esc, ops), "document after exists(%r): implementation %s, model %s" % (
                text, json.dumps(ex.get("doc"))[:300], json.dumps(mo["exdoc"])[:300]), dict(case, impl=ex, model=mo, prop="C01"))
    stats["nontrivial"] = len(nontrivial)
    return stats, viol, disag


W3_ESC_DOC = {"k": "map", "e": [["a.b", {"k": "int", "v": "1"}], ["c.d", {"k": "int", "v": "2"}],
                                 ["c", {"k": "map", "e": [["d", {"k": "int", "v": "3"}]]}],
                                 ["a", {"k": "map", "e": [["b", {"k": "int", "v": "4"}]]}],
                                 ["x y", {"k": "int", "v": "5"}]]}
W3_ESC_PATHS = [r"(a\.b)+(c\.d)", r"(c\.d)+(a\.b)", r"(a\.b)", r"(a.b)+(c\.d)", r"(*)-(c\.d)", r"(*)&(a\.b)", r"(a\.b)+(c.d)",
                r"(a.b)+(x\ y)", r"((a\.b)+(c\.d))", r"(a\.b)-(c\.d)+(a\.b)"]


def w3_cases(rng, n):
    cases = [(W3_ESC_DOC, t, "escape") for t in W3_ESC_PATHS]
    for i in range(n):
        if rng.random() < 0.6:
            d = w3_shared_doc(rng)
        else:
            d = w3_dealias(random_doc(rng, rng.choice([6, 10, 15]), keys=["a", "b", "ab", "c", 1, -1, 0, "x", "y"]))
        paths = w3_addr_paths(d)
        cases.append((d, w3_collector(rng, paths), "random"))
    return cases
