"""C03 — a set changes exactly the matched nodes (and their aliases), nothing else."""
from __future__ import annotations

import copy
import json
import os
import random

from harness import core, codec
from harness.props import editing as ed

RULE = ("(1) value tables: Nodes.typed_value on every text of length <= 3 over a 16-character alphabet plus a word list, and "
        "Nodes.make_new_node / wrap_type over the full grid value x format x anchored-or-not, compared with the model - the texts "
        "and values include TEXT SPELLED LIKE A PYTHON LITERAL: simple quoted string literals ('abc', \"two words\", ''), integer "
        "look-alikes (an int for ast.literal_eval, a ValueError for int(): 0x1F, -0o17, 0b101, (1), (-12), - 5; a fixed list + 300 "
        "seeded ones) and neighbours of both classes; "
        "(2) single edits: seeded random documents (repeated equal small ints and one-character strings, values equal to key "
        "names, anchored scalars aliased under map keys and inside sequences, sets and empty containers as bystanders) x paths "
        "built from the document (exact incl. negative indexes, wildcards, slices, searches, keyword searches incl. name(), "
        "anchors, collectors) x new values of every scalar type (10 % of them literal-looking texts as in (1): in the DEFAULT format "
        "the set must go ahead and every target hold THAT TEXT, theorem literal_text_kept) x every modelled format: the matched nodes are gathered by the "
        "real evaluator on a twin, set_value(mustexist=True) runs on the real document, and the WHOLE document afterwards "
        "(canonical form incl. anchors) must equal the Lean specification setSpec (proved equal to the model); a quarter of the "
        "cases are also dumped with yamlpath's editor and reloaded with its strict loader and the data compared - and, when the "
        "unedited document dumps with all its anchor names, the anchor name (or none) of every value node of the DUMPED TEXT "
        "(ruamel compose, document order) must equal that of the edited document in memory (anchored scalars with and without "
        "aliases; also in part (5)); "
        "(3) histories of <= 8 (quick) / <= 30 (thorough) mixed set / delete / create steps compared after every step and at the end; "
        "(4) real code only (merge keys are outside the model): seeded YAML texts with merge keys (1-3 anchored source maps "
        "holding plain and anchored scalars, nested maps/lists, sources merging sources; consumers merging one or several "
        "sources at the top level and inside a list, own keys overriding inherited ones, aliases of the anchored scalars "
        "under keys and in lists, aliases of whole source maps), loaded with the tool's loader, x a set at the own key / "
        "index of up to 6 scalars per document (anchored ones first): the physical document (own keys in order, merge "
        "references, anchors, container sharing) is as before except the matched scalar and the scalars carrying its anchor, "
        "which hold the new value; dump + strict reload gives the same physical document; "
        "(5) real code only (exponent reprs are outside the model's float domain): floats of every magnitude - sign x 1-4 digit "
        "mantissa x 10**e, e in -17..25, i.e. plain reprs and exponent reprs both ways (|x| < 1e-4, |x| >= 1e16) - written by "
        "set_value as a float object, as numeric text in DEFAULT format and as text with value_format=FLOAT, at exact paths and "
        "generated paths of seeded documents (anchored targets with aliases included): in memory the matched scalars and their "
        "aliases hold exactly that number and nothing else changed; after dump + strict reload the reloaded number == the "
        "written number; "
        "(6) real code only, documents LOADED FROM YAML TEXT holding long scalars in every style (plain, single / double quoted "
        "with escapes, literal and folded block scalars with all chomping indicators, ordinary lines and more-indented lines "
        "longer than 80 columns, blank lines; long keys; long flow sequences / mappings; block sequences of them; anchored long "
        "scalars with aliases) next to short scalars x a set at up to 3 SHORT scalars (short values and one > 80 columns): the "
        "physical document is as before except the target (string contents compared character by character), and the dump "
        "with the tool's editor + strict reload gives the same data - judged for EVERY edited document, no 'the unedited "
        "document round-trips' filter; "
        "(7) real code only, documents loaded from YAML text with date and timestamp nodes (yyyy-mm-dd; timestamps with T / t / "
        "space separator, fractions, no zone / Z / +hh:mm / -hh:mm / +hh; anchored and aliased under keys and in lists) next to "
        "strings and ints x a set at up to 6 scalars (anchored dates first) x new value in {datetime.date, naive and aware "
        "datetime.datetime, a copy of a date / offset-less timestamp node of the same text loaded a second time, date text, "
        "timestamp text, other text} x format in {DEFAULT, DATE, TIMESTAMP}: the rest of the document is as before; for the "
        "judged mixes (date object or node / DEFAULT, DATE; datetime object or node / DEFAULT, TIMESTAMP; date text / DATE; "
        "timestamp text / TIMESTAMP; any text / DEFAULT = that text) the set is not refused and the target and every scalar "
        "carrying its anchor denote the new value in the same type family (a date stays a date, a timestamp keeps local time "
        "and UTC offset; independent reading dt_den / dt_parse), anchor kept; dump + strict reload denotes the same.  "
        "(8) real code only (set members as targets, aliases as mapping KEYS and aliases among set members are outside the "
        "model), SEQUENCES of 1-3 sets on ONE Processor over documents loaded from YAML text: 1-4 anchored scalars (strings, "
        "ints) aliased as mapping keys in first / middle / last position (`*a : v`), as mapping values, sequence items, flow-list "
        "items and !!set members; !!sets as mapping values and as ELEMENTS OF SEQUENCES (also nested sequences); plain scalars "
        "repeating the anchored values; each step targets an anchored scalar, one of its aliases, a plain or aliased set member "
        "or a plain scalar with a fresh value; the oracle is a pure function on an independent tree reading of the document "
        "(target slot and every key / value / item / member carrying its anchor hold the new value under the old anchor; key "
        "order and everything else as before; set members as a multiset) and the next step starts from the oracle's tree; after "
        "every step dump + strict reload = the oracle's data (skipped for documents whose UNEDITED form ruamel cannot dump: an "
        "alias among set members); 1 500 documents quick / 15 000 thorough.  "
        "Sizes: quick 12 000 documents x 3 edits, 2 500 histories, 1 200 merge-key documents, 700 long-scalar and 900 date documents; thorough 150 000 documents x 3 "
        "edits, 40 000 histories, 12 000 merge-key documents, 8 000 long-scalar and 10 000 date documents (trimmed from 200 000 / 20 000 to keep the thorough tier under "
        "~20 min on a loaded 16-core machine; the value tables of (1) stay exhaustive in both tiers; all histories of one "
        "worker job go to the model in one driver call).  "
        "distinct_nontrivial = distinct single edits that changed >= 1 node + distinct histories with >= 2 effective steps.")

FMT_RELOADABLE = {"DEFAULT", "DQUOTE", "SQUOTE", "BOOLEAN", "FLOAT", "INT"}


def S(v):
    return {"k": "str", "v": v}


def I(v):
    return {"k": "int", "v": str(v)}


CORPUS = [
    {"doc": {"k": "seq", "i": [I(1), I(1), I(2)]}, "path": "[1]", "v": ["int", 9], "fmt": "DEFAULT"},
    {"doc": {"k": "map", "e": [["a", S("b")], ["b", S("x")]]}, "path": "a", "v": ["str", "z"], "fmt": "DEFAULT"},
    {"doc": {"k": "map", "e": [["a", dict(I(1), a="x")], ["b", {"k": "seq", "i": [dict(I(1), a="x"), I(2)]}]]}, "path": "a", "v": ["int", 5], "fmt": "DEFAULT"},
    {"doc": {"k": "map", "e": [["a", dict(I(1), a="x")], ["b", {"k": "map", "e": [["c", dict(I(1), a="x")]]}]]}, "path": "b.c", "v": ["int", 5], "fmt": "DEFAULT"},
    {"doc": {"k": "map", "e": [["a", I(1)]]}, "path": "a", "v": ["float", 10.0], "fmt": "DEFAULT"},
    {"doc": {"k": "map", "e": [["a", I(1)]]}, "path": "a", "v": ["float", 5.0], "fmt": "FLOAT"},
    {"doc": {"k": "map", "e": [["a", I(1)]]}, "path": "a", "v": ["str", "1000.0"], "fmt": "DEFAULT"},
    {"doc": {"k": "map", "e": [["s", {"k": "set", "m": ["a", "b"]}], ["x", I(1)]]}, "path": "x", "v": ["int", 9], "fmt": "DEFAULT"},
    {"doc": {"k": "map", "e": [["l", {"k": "seq", "i": [I(1), I(2), I(3), I(4)]}]]}, "path": "l[1:3]", "v": ["int", 9], "fmt": "DEFAULT"},
    {"doc": {"k": "map", "e": [["l", {"k": "seq", "i": [I(1), I(2), I(1)]}]]}, "path": "l[-1]", "v": ["int", 9], "fmt": "DEFAULT"},
    {"doc": {"k": "map", "e": [["a", dict(I(1), a="x")], ["b", dict(I(1), a="x")]]}, "path": "a", "v": ["null", None], "fmt": "DEFAULT"},
    {"doc": {"k": "map", "e": [["a", {"k": "map", "e": [["b", I(1)], ["c", I(2)]]}]]}, "path": "a.b[name()]", "v": ["str", "z"], "fmt": "DEFAULT"},
    {"doc": {"k": "map", "e": [["a", {"k": "map", "e": [["b", I(1)], ["c", I(2)]]}]]}, "path": "a.b[name()]", "v": ["str", "c"], "fmt": "DEFAULT"},
]


def gen_cases(rng, n):
    cases = []
    for _ in range(n):
        doc = ed.gen_doc(rng)
        for _ in range(3):
            v = rng.choice(ed.VALUES)
            fmt = rng.choice(ed.FORMATS)
            if rng.random() < 0.1:
                # text spelled like a Python literal: quoted string literals, integer look-alikes (0x1F, 0o17, (1), - 5)
                v = ("str", gen_literal_text(rng))
                fmt = rng.choice(["DEFAULT", "DEFAULT", fmt])
            cases.append({"doc": doc, "path": ed.gen_path(rng, doc), "v": [v[0], v[1]], "fmt": fmt,
                          "reload": rng.random() < 0.25})
    return cases


def gen_histories(rng, n, maxlen):
    out = []
    for _ in range(n):
        doc = ed.gen_doc(rng)
        steps = []
        for _ in range(rng.randint(2, maxlen)):
            steps.append({"r": rng.random(), "seed": rng.randrange(1 << 30)})
        out.append({"doc": doc, "steps": steps, "history": True})
    return out


def run(chk: core.Check):
    core.use_repo()
    if chk.replay_in:
        rp = json.load(open(chk.replay_in))
        case = rp.get("case") or ((rp.get("broken_correspondence") or [{}])[0].get("case")) or rp
        chunks = [[case]]
    else:
        table_check(chk)
        cases = [dict(c, reload=True) for c in CORPUS]
        d = os.path.join(core.CORPUS_DIR, "C03")
        if os.path.isdir(d):
            for fn in sorted(os.listdir(d)):
                try:
                    cases.append(json.load(open(os.path.join(d, fn))))
                except Exception:
                    pass
        rng = random.Random(chk.seed)
        quick = chk.tier == "quick"
        cases += gen_cases(rng, 12000 if quick else 150000)
        cases += gen_histories(rng, 2500 if quick else 40000, 8 if quick else 30)
        mcases = gen_merge_cases(rng, 1200 if quick else 12000)
        chk.extra_cov["merge_key_document_cases"] = len(mcases)
        cases += mcases
        fcases = gen_float_cases(rng, 4500 if quick else 60000)
        chk.extra_cov["float_magnitude_cases"] = len(fcases)
        cases += fcases
        lcases = gen_long_cases(rng, 700 if quick else 8000)
        chk.extra_cov["long_scalar_document_cases"] = len(lcases)
        cases += lcases
        dcases = gen_date_cases(rng, 900 if quick else 10000)
        chk.extra_cov["date_timestamp_document_cases"] = len(dcases)
        cases += dcases
        acases = gen_alias_cases(rng, 1500 if quick else 15000)
        chk.extra_cov["alias_key_and_set_document_sequences"] = len(acases)
        cases += acases
        rng.shuffle(cases)
        chunks = core.chunked(cases, 64)
    # histories that ACQUIRE anchors: alias_nodes, then set_value, on one reused Processor (c03_alias.py, Model/Alias.lean)
    from harness.props import c03_alias
    alias_chunks = []
    if chk.replay_in:
        if chunks[0][0].get("alias"):
            alias_chunks, chunks = chunks, []
    else:
        asteps = c03_alias.gen_alias_steps(random.Random(chk.seed * 31 + 7), 3000 if chk.tier == "quick" else 40000)
        chk.extra_cov["alias_then_set_histories"] = len(asteps)
        alias_chunks = core.chunked(asteps, 48)
    for st, viol, disag, keys in core.pmap(c03_alias.alias_chunk, alias_chunks):
        chk.evaluations += st.pop("n")
        chk.out_of_model += st.pop("oom")
        for k, v in st.items():
            chk.count(k, v)
        for k in keys:
            chk.nontrivial.add("alias:" + k)
        for sig, w, case in viol:
            chk.violation(sig, w, case)
        for sig, w, case in disag:
            chk.disagreements_checked += 1
            chk.disagreement(sig, w, case)
    results = core.pmap(_job, chunks)
    for stats, viol, disag, samples, keys in results:
        chk.evaluations += stats.pop("n")
        chk.out_of_model += stats.pop("oom")
        for k, v in stats.items():
            chk.count(k, v)
        for k in keys:
            chk.nontrivial.add(k)
        for s in samples:
            chk.sample(s)
        for sig, w, case in viol:
            chk.violation(sig, w, case)
        for sig, w, case in disag:
            chk.disagreements_checked += 1
            chk.disagreement(sig, w, case)
    if chk.replay_in:
        print("replay:", json.dumps({"violations": chk.violations[:2], "disagreements": chk.disagreements[:2],
                                     "known": {k: v["n"] for k, v in chk.known_hits.items()}})[:1500])
    return chk


# --------------------------------------------------------------------------- tables

TYPED_ALPHABET = ["a", "T", "r", "u", "e", "N", "0", "1", "5", ".", "-", "+", " ", "_", "n", "o"]
WORDS = ["true", "True", "TRUE", "false", "False", "None", "none", "null", "yes", "no", "12", "-12", "+12", "1.5", "-1.5", "007",
         "1.50", "10.0", "0.0", "0", "-0", "1e5", "1_0", "a b", "ab ", " ab", "a-b", "a.b", "inf", "nan", "Infinity", "123456789012345",
         "1234567890123456", "0.1", ".5", "5.", "x1", "_a", "if", "not", "a.", "a-", "lambda", "1 ", " 1", "--1", "+-1", "1.2.3"]


# Texts spelled like Python literals (every text handed to set_value goes through ast.literal_eval): simple quoted string
# literals, integer look-alikes (an int for literal_eval, a ValueError for int()) - both must end as THAT TEXT - and
# neighbours of the two classes (mostly outside the model, then skipped and counted).
LIT_TEXTS = ["'abc'", '"abc"', "''", '""', "'two words'", '"two words"', "'5'", '"true"', "'1.5'", "'None'", "'it\"s'", '"it\'s"',
             "'x*'", "' pad '", "'é'", "'a.b'", "'#'", "'0x1F'",
             "0x1F", "0X1f", "0x0", "0xdeadBEEF", "-0x10", "+0x10", "0o17", "0O7", "-0o17", "0b101", "0B0", "-0b1", "(1)", "(0)", "(12)",
             "(-12)", "(+5)", "- 5", "+ 5", "- 0", "(300)",
             "'a'b'", "'a\\nb'", "'abc", "abc'", "'", "'" * 3 + "a" + "'" * 3, "0x", "0xg", "0b102", "0o8", "0x1_f", "(1.5)", "(01)", "()",
             "((1))", "( 1)", "-  5", "(True)", "[1]", "(1,2)", "1j", "b'ab'", "'a' 'b'"]


def gen_literal_text(rng):
    from harness.props import c09
    return c09.gen_literal_text(rng)


def table_check(chk):
    """typed_value / make_new_node / wrap_type of the real code against the model, on a complete small grid."""
    import itertools
    from yamlpath.common import Nodes
    from yamlpath.enums import YAMLValueFormats
    texts = set(WORDS) | set(LIT_TEXTS)
    lrng = random.Random(chk.seed ^ 0x5EED)
    lits = set(LIT_TEXTS) | set(gen_literal_text(lrng) for _ in range(300))
    texts |= lits
    for n in range(0, 4):
        for t in itertools.product(TYPED_ALPHABET, repeat=n):
            texts.add("".join(t))
    texts = sorted(texts)
    ans = core.Driver().ask([{"op": "C03.typed", "t": t} for t in texts])
    bad = 0
    for t, a in zip(texts, ans):
        chk.evaluations += 1
        if a["k"] == "unmodelled":
            chk.count("typed:unmodelled")
            continue
        chk.count("typed:" + a["k"])
        try:
            real = Nodes.typed_value(t)
        except Exception as e:  # noqa
            real = e
        try:
            rj = {"k": "str"} if isinstance(real, str) and real == t else codec.scalar_to_json(real)
        except Exception:
            rj = {"k": "other", "v": repr(real)}
        if a.get("lit") == "int-lookalike":
            # the class is DEFINED as: literal_eval yields an int, int(text) raises ValueError
            chk.count("typed:int-lookalike")
            try:
                int(t)
                readable = True
            except ValueError:
                readable = False
            if type(real) is int and not readable:
                continue
            rj = {"k": "not-an-int-lookalike", "v": repr(real)}
        elif a.get("k") == "str" and "v" in a:
            chk.count("typed:quoted-literal")
        if rj != a:
            bad += 1
            chk.disagreement("typed-value-table", "Nodes.typed_value(%r) = %r, model says %s" % (t, real, a), {"text": t})
    # make_new_node grid
    vals = ed.VALUES + [("str", w) for w in WORDS] + [("str", w) for w in sorted(lits)]
    fmts = sorted(set(ed.FORMATS))
    reqs, metas = [], []
    for v in vals:
        for f in fmts:
            reqs.append({"op": "C03.newscalar", "v": codec.scalar_to_json(v[1]), "fmt": f})
            metas.append((v, f))
    ans = core.Driver().ask(reqs)
    from ruamel.yaml.scalarint import ScalarInt
    for (v, f), a in zip(metas, ans):
        for which, src in (("plain", 1), ("anchored", ScalarInt(1, anchor="x"))):
            chk.evaluations += 1
            m = a[which]
            if m.get("err") == "outOfModel":
                chk.count("newscalar:unmodelled")
                continue
            res = ed.guarded(lambda: Nodes.make_new_node(src, v[1], YAMLValueFormats[f], tag=None))
            if res[0] == "ok":
                try:
                    rj = {"ok": codec.scalar_to_json(res[1])}
                    if which == "anchored" and codec.anchor_of(res[1]) != "x":
                        rj = {"ok": "anchor-lost"}
                except Exception:
                    rj = {"ok": "other:" + type(res[1]).__name__}
            elif res[0] in ("crash:ValueError", "crash:TypeError"):
                rj = {"err": "ypath:typeMismatch"}     # _apply_change turns both into a YAML Path error
            else:
                rj = {"err": res[0]}
            chk.count("newscalar:" + ("ok" if "ok" in m else m["err"]))
            if rj != m:
                chk.disagreement("make-new-node-table", "make_new_node(%s, %r, %s) = %s, model says %s" % (which, v[1], f, rj, m),
                                 {"v": list(v), "fmt": f, "which": which})
        # wrap_type
        m = a["wrap"]
        if f == fmts[0] and m.get("err") != "outOfModel":
            from harness.props import c09
            if c09.is_int_lookalike(v[1]):
                # wrap_type is the value of CREATED nodes: the pinned code lets the ValueError of ScalarInt(text) escape
                # there (known finding C09-F4, judged by ./check C09 on creations; the model is as repaired)
                chk.count("wrap:int-lookalike-left-to-C09")
                continue
            chk.evaluations += 1
            res = ed.guarded(lambda: Nodes.wrap_type(v[1]))
            try:
                rj = {"ok": codec.scalar_to_json(res[1])} if res[0] == "ok" else {"err": res[0]}
            except Exception:
                rj = {"ok": "other"}
            if rj != m:
                chk.violation("wrap-type-table", "Nodes.wrap_type(%r) = %s, expected %s" % (v[1], rj, m), {"v": list(v)})
    chk.extra_cov["typed_value_table"] = "every text of length <= 3 over %d characters + %d words" % (len(TYPED_ALPHABET), len(WORDS))
    chk.exhaustive = True


# --------------------------------------------------------------------------- documents with YAML merge keys (real code only)
#
# Merge keys (`<<: *anchor`) are outside the Lean model.  The clauses of the property are judged directly on the real
# code, on the PHYSICAL document: every mapping's own keys (`non_merged_items`, in order) with their values, its merge
# references (which mappings it includes, in order), every sequence, every anchor, and which containers are shared.
# After a set at an own key / index: the matched scalar and - if it carries an anchor - every scalar carrying that
# anchor hold the new value (anchor kept), everything else is exactly as before; the dump with the tool's editor reloads
# with its strict loader to the same physical document.

MK_KEYS = ["a", "b", "c", "k", "t"]
MK_VALUES = [("int", 5), ("int", 1), ("int", 0), ("int", -3), ("str", "new"), ("str", "a"), ("str", "b x")]


def gen_merge_text(rng):
    """YAML text of a document with merge keys: 1-3 anchored source maps (scalars, some with an anchor of their own, a
    nested map or list now and then, a source may itself merge an earlier one), consumers merging one or several
    sources (at the top level and as elements of a list) with own keys that may override inherited ones, aliases of
    the anchored scalars under keys and inside lists, and an alias of a whole source map now and then."""
    lines = ["---"]
    sanchors = []           # anchors of scalars defined so far
    sources = []            # anchors of source maps defined so far
    counter = [0]

    def scalar(allow_anchor=True, allow_alias=True):
        r = rng.random()
        if allow_alias and sanchors and r < 0.25:
            return "*" + rng.choice(sanchors)
        v = rng.choice(["1", "1", "2", "3", "a", "b", "k", "30", "x y", "true"])
        if allow_anchor and r > 0.55:
            name = "s%d" % counter[0]
            counter[0] += 1
            sanchors.append(name)
            return "&%s %s" % (name, v)
        return v

    def body(ind, nkeys, avoid=()):
        ks = rng.sample([k for k in MK_KEYS if k not in avoid] or MK_KEYS, nkeys)
        for k in ks:
            r = rng.random()
            if r < 0.12:
                lines.append("%s%s:" % (ind, k))
                for k2 in rng.sample(MK_KEYS, rng.randint(1, 2)):
                    lines.append("%s  %s: %s" % (ind, k2, scalar()))
            elif r < 0.22:
                lines.append("%s%s: [%s]" % (ind, k, ", ".join(scalar() for _ in range(rng.randint(1, 3)))))
            else:
                lines.append("%s%s: %s" % (ind, k, scalar()))

    def merge_line(ind):
        if len(sources) > 1 and rng.random() < 0.35:
            picks = rng.sample(sources, 2)
            lines.append("%s<<: [%s]" % (ind, ", ".join("*" + a for a in picks)))
        else:
            lines.append("%s<<: *%s" % (ind, rng.choice(sources)))

    for i in range(rng.randint(1, 3)):
        lines.append("base%d: &m%d" % (i, i))
        if sources and rng.random() < 0.4:
            merge_line("  ")
        body("  ", rng.randint(1, 3))
        sources.append("m%d" % i)
    for i in range(rng.randint(1, 3)):
        lines.append("svc%d:" % i)
        where = rng.random()
        if where < 0.5:
            merge_line("  ")
        body("  ", rng.randint(0, 2))
        if where >= 0.5:
            merge_line("  ")
    if rng.random() < 0.6:
        lines.append("items:")
        for i in range(rng.randint(1, 3)):
            if rng.random() < 0.8:
                lines.append("  - <<: *%s" % rng.choice(sources))
                lines.append("    n: %s" % scalar())
            else:
                lines.append("  - %s" % scalar())
    for i in range(rng.randint(0, 2)):
        lines.append("top%d: %s" % (i, scalar(allow_anchor=False)))
    if rng.random() < 0.3:
        lines.append("copy: *%s" % rng.choice(sources))
    if rng.random() < 0.4:
        lines.append("al: [%s]" % ", ".join(scalar(allow_anchor=False) for _ in range(rng.randint(1, 3))))
    return "\n".join(lines) + "\n"


def mk_load(text):
    from yamlpath.common import Parsers
    (data, ok) = Parsers.get_yaml_data(Parsers.get_yaml_editor(), core.quiet_logger(), text, literal=True)
    return data if ok else None


def mk_phys(root, anchors=True, ids_out=None, scalar=None, styles_out=None):
    """The physical document as a table of containers (numbered in first-visit order; a shared container appears once):
    mapping = own keys in order with their values + merge references + anchor, sequence = items + anchor;
    scalars inline as [canonical value, anchor]."""
    from ruamel.yaml.comments import CommentedMap, CommentedSeq
    ids, out = {}, []
    enc = scalar or codec.scalar_to_json

    def visit(n, slot=None):
        if isinstance(n, (CommentedMap, CommentedSeq)):
            if id(n) in ids:
                return ["ref", ids[id(n)]]
            i = ids[id(n)] = len(out)
            out.append(None)
            if isinstance(n, CommentedMap):
                merges = [visit(m[1]) for m in getattr(n, "merge", [])]
                own = [[codec.key_to_json(k), visit(v, (i, "own", pi))] for pi, (k, v) in enumerate(n.non_merged_items())]
                out[i] = {"t": "map", "anchor": codec.anchor_of(n) if anchors else None, "merge": merges, "own": own}
            else:
                out[i] = {"t": "seq", "anchor": codec.anchor_of(n) if anchors else None,
                          "items": [visit(v, (i, "items", pi)) for pi, v in enumerate(n)]}
            return ["ref", i]
        if isinstance(n, (dict, list, set)):
            raise codec.OutOfModel("plain container")
        if styles_out is not None and slot is not None:
            styles_out[slot] = type(n).__name__
        return ["s", enc(n), codec.anchor_of(n) if anchors else None]
    visit(root)
    if ids_out is not None:
        ids_out.update(ids)
    return out


def mk_slots(table):
    """Every scalar position: (container number, 'own'|'items', position in that list)."""
    for ci, c in enumerate(table):
        fld = "own" if c["t"] == "map" else "items"
        for pi, e in enumerate(c[fld]):
            val = e[1] if fld == "own" else e
            if val[0] == "s":
                yield ci, fld, pi, val


def mk_paths(table):
    """A path text (own keys and indexes from the root) to every container."""
    paths = {0: ""}
    todo = [0]
    while todo:
        ci = todo.pop(0)
        c = table[ci]
        ents = [(k, v) for k, v in c["own"]] if c["t"] == "map" else list(enumerate(c["items"]))
        for ref, v in ents:
            if v[0] == "ref" and v[1] not in paths:
                paths[v[1]] = (paths[ci] + "[%d]" % ref) if c["t"] == "seq" else ((paths[ci] + "." if paths[ci] else "") + str(ref))
                todo.append(v[1])
    return paths


def mk_slot_path(table, paths, ci, fld, pi):
    if ci not in paths:
        return None
    if fld == "items":
        return paths[ci] + "[%d]" % pi
    return (paths[ci] + "." if paths[ci] else "") + str(table[ci]["own"][pi][0])


def gen_merge_cases(rng, ndocs):
    cases = []
    for _ in range(ndocs):
        text = gen_merge_text(rng)
        doc = mk_load(text)
        if doc is None:
            continue
        try:
            table = mk_phys(doc)
        except codec.OutOfModel:
            continue
        paths = mk_paths(table)
        slots = [(ci, fld, pi, val) for ci, fld, pi, val in mk_slots(table) if val[1]["k"] != "null"]
        anchored = [sl for sl in slots if sl[3][2]]
        picks = rng.sample(anchored, min(3, len(anchored))) + rng.sample(slots, min(3, len(slots)))
        for ci, fld, pi, _ in picks:
            path = mk_slot_path(table, paths, ci, fld, pi)
            if path is None:
                continue
            v = rng.choice(MK_VALUES)
            cases.append({"merge": True, "text": text, "path": path, "slot": [ci, fld, pi], "v": [v[0], v[1]]})
    return cases


def mk_masked(table, targets):
    out = json.loads(json.dumps(table))
    for ci, fld, pi in targets:
        if ci < len(out) and pi < len(out[ci].get(fld, [])):
            if fld == "own":
                out[ci]["own"][pi][1] = "TARGET"
            else:
                out[ci]["items"][pi] = "TARGET"
    return out


def mk_describe(before, after):
    """Which part of the frame differs: signature + text."""
    if len(before) != len(after):
        return "merge-doc:containers-added-or-removed", "%d containers before, %d after" % (len(before), len(after))
    for ci, (b, a) in enumerate(zip(before, after)):
        if b == a:
            continue
        if b["t"] != a["t"]:
            return "merge-doc:container-kind-changed", "container %d" % ci
        if b["t"] == "map":
            if [k for k, _ in b["own"]] != [k for k, _ in a["own"]]:
                return ("merge-doc:own-keys-changed", "mapping #%d owned the keys %s, now %s" % (
                    ci, [k for k, _ in b["own"]], [k for k, _ in a["own"]]))
            if b["merge"] != a["merge"]:
                return "merge-doc:merge-references-changed", "mapping #%d: %s -> %s" % (ci, b["merge"], a["merge"])
        elif len(b["items"]) != len(a["items"]):
            return "merge-doc:sequence-length-changed", "sequence #%d" % ci
        if b["anchor"] != a["anchor"]:
            return "merge-doc:container-anchor-changed", "container #%d: %s -> %s" % (ci, b["anchor"], a["anchor"])
        return "merge-doc:bystander-changed", "container #%d: %s -> %s" % (ci, json.dumps(b)[:200], json.dumps(a)[:200])
    return "merge-doc:differs", ""


def merge_case(case, bump, viol, keys):
    from yamlpath import Processor
    text, path, v = case["text"], case["path"], case["v"][1]
    doc = mk_load(text)
    if doc is None:
        bump("merge-doc:skipped-does-not-load")
        return
    before = mk_phys(doc)
    ci, fld, pi = case["slot"]
    try:
        c = before[ci]
        node = c["own"][pi][1] if fld == "own" else c["items"][pi]
        assert node[0] == "s"
    except Exception:
        bump("merge-doc:skipped-slot-not-a-scalar")
        return
    # the matched node and, if it is anchored, every scalar carrying its anchor
    targets = [(ci, fld, pi)]
    if node[2]:
        targets += [(c2, f2, p2) for c2, f2, p2, val in mk_slots(before) if val[2] == node[2] and (c2, f2, p2) != (ci, fld, pi)]
    proc = Processor(core.quiet_logger(), doc)
    res = ed.guarded(lambda: proc.set_value(path, v, mustexist=True))
    rep = dict(case)
    what = "set_value(%s, %r) on a document with merge keys" % (path, v)
    bump("merge-doc:impl:" + res[0].split(":")[0])
    bump("merge-doc:targets:%d" % min(len(targets), 4))
    if res[0] == "timeout":
        viol.append(("timeout", what + " did not finish", rep))
        return
    if res[0] != "ok":
        viol.append(("merge-doc:%s@%s" % (res[0], res[1]), what + " raised %s (%s)" % (res[0], res[1]), rep))
        return
    after = mk_phys(proc.data)
    mb, ma = mk_masked(before, targets), mk_masked(after, targets)
    if mb != ma:
        sig, detail = mk_describe(mb, ma)
        viol.append((sig, what + ": the rest of the document is not as before (%s)\n%s" % (detail, text), rep))
        return
    want = codec.scalar_to_json(v)
    for (c2, f2, p2) in targets:
        got = after[c2]["own"][p2][1] if f2 == "own" else after[c2]["items"][p2]
        old = before[c2]["own"][p2][1] if f2 == "own" else before[c2]["items"][p2]
        if got[0] != "s" or got[1] != want:
            viol.append(("merge-doc:target-not-updated", what + ": %s of container #%d holds %s, expected %s\n%s" % (
                f2, c2, got, want, text), rep))
            return
        if got[2] != old[2]:
            viol.append(("merge-doc:target-anchor-changed", what + ": anchor %s -> %s\n%s" % (old[2], got[2], text), rep))
            return
    keys.append(_key({"doc": text, "path": path, "v": case["v"]}))
    # dump + strict reload: the same physical document (anchor names aside; which containers are shared is compared)
    if mk_roundtrip(mk_load(text)) != "ok":
        bump("merge-doc:reload:skipped-original-does-not-roundtrip")
        return
    rt = mk_roundtrip(proc.data)
    bump("merge-doc:reload:" + rt.split("\n")[0])
    if rt != "ok":
        viol.append(("merge-doc:reload:" + rt.split("\n")[0], what + ": the edited document does not dump + reload to the same data\n" + rt[:600], rep))


def mk_roundtrip(data):
    import io
    from yamlpath.common import Parsers
    buf = io.StringIO()
    try:
        Parsers.get_yaml_editor().dump(data, buf)
    except Exception as e:  # noqa
        return "dump-failed\n" + type(e).__name__
    try:
        back = mk_load(buf.getvalue())
    except Exception as e:  # noqa
        return "reload-crashed\n" + type(e).__name__ + "\n" + buf.getvalue()
    if back is None:
        return "reload-failed\n" + buf.getvalue()
    try:
        same = mk_phys(back, anchors=False) == mk_phys(data, anchors=False)
    except codec.OutOfModel:
        return "ok"
    return "ok" if same else "data-differs\n" + buf.getvalue()


# --------------------------------------------------------------------------- documents loaded from YAML text (real code only)
#
# Two more classes of documents that only exist when YAML TEXT is loaded (the Lean model and `codec.json_to_ruamel`
# know neither scalar styles nor dates):
#   "long"  - long scalars in every style (plain, single / double quoted, literal `|`, folded `>` with ordinary lines and
#             more-indented lines longer than 80 columns, long keys, long flow sequences / mappings, block sequences of
#             them, anchored long scalars with aliases) next to short scalars; a set at a SHORT scalar;
#   "date"  - date and timestamp nodes (`2019-06-30`, `2001-12-14t21:59:43.10-05:00`, `... Z`, naive; anchored and
#             aliased under keys and in lists) next to strings and ints; a set at any scalar, the new value being a date /
#             datetime object, a copy of a date / timestamp node of the same text loaded a second time, date-like text,
#             an ordinary string / int, with value_format DEFAULT / DATE / TIMESTAMP.
# Judged like the merge-key documents on the physical document (`mk_phys`): everything but the matched scalar and the
# scalars carrying its anchor is exactly as before (string contents compared character by character); the targets hold
# the new value (dates: same Python type family - a date stays a date, a timestamp a timestamp with its UTC offset) under
# the old anchor; the dump with the tool's editor reloads with its strict loader to the same data.  NO "the unedited
# document round-trips" pre-filter here: the property promises the reload for every edited document.

LS_WORDS = ["alpha", "beta", "gamma", "delta", "exporter", "--source", "/srv/data/incoming", "--target", "/srv/data/outgoing",
            "--mode", "incremental", "--verbose", "the", "and", "then", "check", "log", "x=1", "value", "a", "of", "configuration",
            "https://example.org/p?q=1", "50%", "(note)", "it's", "end.", "run", "like", "so", "1", "22", "true", "null", "~", "é"]
LS_FLOW_WORDS = ["alpha", "beta", "gamma", "delta", "exporter", "incremental", "configuration", "value", "1", "22", "true", "x=1",
                 "/srv/data/incoming", "long text here"]
LS_STYLES = ["plain", "sq", "dq", "lit", "fold", "fold", "fold", "longkey", "flowseq", "flowmap", "blockseq"]
LS_VALUES = MK_VALUES + [("str", "a new value that is itself a good deal longer than eighty columns so that an emitter with a "
                                 "narrow line width has to wrap it somewhere in the middle")]


def ls_line(rng, lo, hi):
    """Words joined by single spaces, total length about lo..hi, first word alphabetic."""
    want = rng.randint(lo, hi)
    out = rng.choice(["alpha", "beta", "the", "run", "exporter", "value"])
    while len(out) < want:
        out += " " + rng.choice(LS_WORDS)
    return out


def ls_block_body(rng, ind, folded):
    """Body lines of a block scalar at indentation ind: paragraphs of ordinary lines (short ones and ones longer than 80
    columns), more-indented lines (2-6 extra spaces, most of them longer than 80 columns), blank lines in between.  The
    first paragraph is an ordinary one (it fixes the indentation of the scalar)."""
    lines = []
    for p in range(rng.randint(1, 4)):
        if p and rng.random() < 0.7:
            lines.append("")
        if p and rng.random() < (0.5 if folded else 0.3):
            for _ in range(rng.randint(1, 2)):
                lines.append(ind + " " * rng.choice([2, 4, 4, 6]) + ls_line(rng, 60, 170))
        else:
            for _ in range(rng.randint(1, 3)):
                lines.append(ind + ls_line(rng, 10, 150))
    return lines


def ls_scalar(rng, ind, prefix, style, st):
    """YAML lines of one long scalar / flow collection written after `prefix` ("key: " or "- ")."""
    anchor = ""
    if style in ("plain", "sq", "dq", "lit", "fold") and rng.random() < 0.15:
        name = "L%d" % len(st["anchors"])
        st["anchors"].append(name)
        anchor = "&%s " % name
    if style == "plain":
        return [ind + prefix + anchor + ls_line(rng, 85, 220)]
    if style == "sq":
        return [ind + prefix + anchor + "'" + ls_line(rng, 85, 220).replace("'", "''") + "'"]
    if style == "dq":
        body = ls_line(rng, 85, 220).replace("\\", "\\\\").replace('"', '\\"')
        if rng.random() < 0.5:
            body = body.replace(" the ", "\\tthe ", 1).replace(" and ", ' \\"and\\" ', 1)
        return [ind + prefix + anchor + '"' + body + '"']
    if style in ("lit", "fold"):
        head = ("|" if style == "lit" else ">") + rng.choice(["", "", "-", "+"])
        return [ind + prefix + anchor + head] + ls_block_body(rng, ind + "  ", style == "fold")
    if style == "flowseq":
        return [ind + prefix + "[" + ", ".join(rng.choice(LS_FLOW_WORDS) for _ in range(rng.randint(12, 30))) + "]"]
    if style == "flowmap":
        return [ind + prefix + "{" + ", ".join("k%d: %s" % (i, rng.choice(LS_FLOW_WORDS)) for i in range(rng.randint(8, 20))) + "}"]
    raise ValueError(style)


def gen_long_text(rng):
    """YAML text of a document holding long scalars in every style next to short scalars (the set targets)."""
    st = {"anchors": []}
    lines = ["---"]
    nshort = [0]

    def short(ind, prefix=None):
        nshort[0] += 1
        lines.append(ind + (prefix if prefix is not None else "s%d: " % nshort[0]) + rng.choice(["1", "2", "a", "b", "nobody", "true", "30", "x y"]))

    def entries(ind, depth):
        for _ in range(rng.randint(2, 5)):
            r = rng.random()
            if r < 0.3:
                short(ind)
                continue
            style = rng.choice(LS_STYLES)
            key = "%s%d" % (style[:2], len(lines))
            if style == "longkey":
                lines.append(ind + ls_line(rng, 85, 200).replace("'", "") + ": " + rng.choice(["1", "v", ls_line(rng, 85, 120)]))
            elif style == "blockseq":
                lines.append(ind + key + ":")
                for _ in range(rng.randint(1, 3)):
                    if rng.random() < 0.3:
                        short(ind + "  ", "- ")
                    else:
                        lines.extend(ls_scalar(rng, ind + "  ", "- ", rng.choice(["plain", "sq", "dq", "lit", "fold", "fold"]), st))
            elif depth > 0 and r > 0.85:
                lines.append(ind + "m%d:" % len(lines))
                entries(ind + "  ", depth - 1)
            else:
                lines.extend(ls_scalar(rng, ind, key + ": ", style, st))
        if st["anchors"] and rng.random() < 0.3:
            lines.append(ind + "al%d: *%s" % (len(lines), rng.choice(st["anchors"])))
    entries("", 2)
    short("")
    return "\n".join(lines) + "\n"


SIMPLE_PATH = None


def tx_simple(path):
    global SIMPLE_PATH
    if SIMPLE_PATH is None:
        import re
        SIMPLE_PATH = re.compile(r"^[A-Za-z0-9_]+(\.[A-Za-z0-9_]+|\[[0-9]+\])*$")
    return bool(path) and bool(SIMPLE_PATH.match(path))


def gen_long_cases(rng, ndocs):
    cases = []
    for _ in range(ndocs):
        text = gen_long_text(rng)
        doc = mk_load(text)
        if doc is None:
            continue
        try:
            table = mk_phys(doc)
        except codec.OutOfModel:
            continue
        paths = mk_paths(table)
        # targets: the SHORT scalars (the long ones are the bystanders this part is about)
        slots = [(ci, fld, pi) for ci, fld, pi, val in mk_slots(table) if val[1]["k"] != "null" and len(str(val[1].get("v", ""))) <= 8]
        for ci, fld, pi in rng.sample(slots, min(3, len(slots))):
            path = mk_slot_path(table, paths, ci, fld, pi)
            if path is None or not tx_simple(path):
                continue
            v = rng.choice(LS_VALUES)
            cases.append({"textdoc": "long", "text": text, "path": path, "slot": [ci, fld, pi], "v": [v[0], v[1]], "fmt": "DEFAULT"})
    return cases


# ---- dates and timestamps

def dt_den(n):
    """What a date / timestamp node denotes, independent of its Python representation: 'D:yyyy-mm-dd' for a date (a
    datetime.date that is no datetime, or yamlpath's AnchoredDate), 'T:<local ISO time><UTC offset in minutes or nothing>'
    for a timestamp (aware datetime objects carry the offset in tzinfo; loaded nodes hold UTC and keep the offset in
    their private _yaml record)."""
    import datetime as dtm
    if type(n).__name__ == "AnchoredDate" or not isinstance(n, dtm.datetime):
        return "D:%04d-%02d-%02d" % (n.year, n.month, n.day)
    y = getattr(n, "_yaml", None) or {}
    loc = dtm.datetime(n.year, n.month, n.day, n.hour, n.minute, n.second, n.microsecond)
    if n.tzinfo is not None:
        off = n.utcoffset()
    elif y.get("tz"):
        off = y.get("delta") or dtm.timedelta(0)
        loc = loc + off
    else:
        off = None
    return "T:%s%s" % (loc.isoformat(), "" if off is None else "%+d" % (off.total_seconds() // 60))


def dt_scalar(n):
    import datetime as dtm
    if isinstance(n, dtm.date):
        return {"k": "date" if dt_den(n)[0] == "D" else "timestamp", "v": dt_den(n)}
    return codec.scalar_to_json(n)


DT_TZ = ["", "", "Z", "+02:00", "-05:00", "+05:30", "-08:00", "+01"]


def gen_date_lit(rng):
    return "%04d-%02d-%02d" % (rng.choice([1999, 2001, 2019, 2022, 2024]), rng.randint(1, 12), rng.randint(1, 28))


def gen_ts_lit(rng):
    frac = rng.choice(["", "", ".5", ".10", ".250000", ".123456"])
    return "%s%s%02d:%02d:%02d%s%s" % (gen_date_lit(rng), rng.choice(["T", "t", " "]), rng.randint(0, 23), rng.randint(0, 59),
                                       rng.randint(0, 59), frac, rng.choice(DT_TZ))


def dt_parse(text):
    """Independent reading of YAML 1.1 date / timestamp text -> denotation (or None when it is neither)."""
    import re
    import datetime as dtm
    m = re.match(r"^(\d{4})-(\d\d)-(\d\d)$", text)
    if m:
        try:
            dtm.date(*[int(x) for x in m.groups()])
        except ValueError:
            return None
        return "D:%s-%s-%s" % m.groups()
    m = re.match(r"^(\d{4})-(\d\d)-(\d\d)(?:[Tt]|[ \t]+)(\d\d):(\d\d):(\d\d)(?:\.(\d+))?(?:[ \t]*(Z|[-+]\d\d?(?::\d\d)?))?$", text)
    if not m:
        return None
    y, mo, d, h, mi, s, fr, tz = m.groups()
    us = int((fr or "0").ljust(6, "0")[:6])
    try:
        loc = dtm.datetime(int(y), int(mo), int(d), int(h), int(mi), int(s), us)
    except ValueError:
        return None
    off = ""
    if tz == "Z":
        off = "+0"
    elif tz:
        hh, _, mm = tz[1:].partition(":")
        off = "%+d" % ((-1 if tz[0] == "-" else 1) * (int(hh) * 60 + int(mm or 0)))
    return "T:%s%s" % (loc.isoformat(), off)


def gen_date_text(rng):
    """YAML text with date and timestamp nodes (plain, anchored, aliased under keys and in lists, nested) next to strings
    and ints."""
    lines = ["---"]
    anchors = []
    cnt = [0]

    def scalar(allow_anchor=True):
        r = rng.random()
        if anchors and r < 0.2:
            return "*" + rng.choice(anchors)
        k = rng.random()
        v = gen_date_lit(rng) if k < 0.35 else gen_ts_lit(rng) if k < 0.75 else rng.choice(["widget", "1", "30", "x y", "true", "'2001-01-01'"])
        if allow_anchor and r > 0.7:
            name = "t%d" % len(anchors)
            anchors.append(name)
            return "&%s %s" % (name, v)
        return v

    def key():
        cnt[0] += 1
        return "k%d" % cnt[0]
    for _ in range(rng.randint(2, 5)):
        r = rng.random()
        if r < 0.6:
            lines.append("%s: %s" % (key(), scalar()))
        elif r < 0.8:
            lines.append("%s:" % key())
            for _ in range(rng.randint(1, 3)):
                lines.append("  %s: %s" % (key(), scalar()))
        elif r < 0.9:
            lines.append("%s: [%s]" % (key(), ", ".join(scalar(False) for _ in range(rng.randint(1, 3)))))
        else:
            lines.append("%s:" % key())
            for _ in range(rng.randint(1, 3)):
                lines.append("  - %s" % scalar())
    return "\n".join(lines) + "\n"


DT_FORMATS = ["DEFAULT", "DEFAULT", "DEFAULT", "DATE", "TIMESTAMP"]


def gen_date_cases(rng, ndocs):
    import re
    import datetime as dtm
    cases = []
    for _ in range(ndocs):
        text = gen_date_text(rng)
        doc = mk_load(text)
        if doc is None:
            continue
        try:
            table = mk_phys(doc, scalar=dt_scalar)
        except codec.OutOfModel:
            continue
        paths = mk_paths(table)
        slots = [(ci, fld, pi, val) for ci, fld, pi, val in mk_slots(table)]
        dated = [sl for sl in slots if sl[3][1]["k"] in ("date", "timestamp")]
        # copies of nodes as values: dates and timestamps without a UTC offset (a loaded timestamp WITH an offset keeps it in
        # a private record that no public accessor copies; not judged here)
        copyable = [sl for sl in dated if sl[3][1]["k"] == "date" or not re.search(r":\d\d(\.\d+)?[-+]\d+$", sl[3][1]["v"])]
        anchored = [sl for sl in dated if sl[3][2]]
        picks = rng.sample(anchored, min(2, len(anchored))) + rng.sample(dated, min(2, len(dated))) + rng.sample(slots, min(2, len(slots)))
        for ci, fld, pi, _ in picks:
            path = mk_slot_path(table, paths, ci, fld, pi)
            if path is None:
                continue
            r = rng.random()
            if r < 0.25:
                v = ["date", gen_date_lit(rng)]
            elif r < 0.45:
                tz = rng.choice([None, None, 120, -300, 330, 0])
                us = rng.choice([0, 0, 500000, 123456])
                d = dtm.datetime(rng.choice([2001, 2022]), rng.randint(1, 12), rng.randint(1, 28), rng.randint(0, 23), rng.randint(0, 59), rng.randint(0, 59), us)
                v = ["datetime", d.isoformat(), tz]
            elif r < 0.6 and copyable:
                c = rng.choice(copyable)
                v = ["node", [c[0], c[1], c[2]]]
            elif r < 0.75:
                v = ["text", gen_date_lit(rng)]
            elif r < 0.92:
                v = ["text", gen_ts_lit(rng)]
            else:
                v = ["text", rng.choice(["abc", "5", "2022-13-45", "x y"])]
            cases.append({"textdoc": "date", "text": text, "path": path, "slot": [ci, fld, pi], "v": v, "fmt": rng.choice(DT_FORMATS)})
    return cases


def dt_value(case, text):
    """(the Python value handed to set_value, the denotation the targets must hold afterwards or None when this
    value x format mix is not judged, what to call it)."""
    import datetime as dtm
    v, fmt = case["v"], case["fmt"]
    if v[0] == "date":
        y, m, d = [int(x) for x in v[1].split("-")]
        return dtm.date(y, m, d), ({"k": "date", "v": "D:" + v[1]} if fmt in ("DEFAULT", "DATE") else None), "datetime.date(%s)" % v[1]
    if v[0] == "datetime":
        d = dtm.datetime.fromisoformat(v[1])
        den = "T:" + d.isoformat()
        if v[2] is not None:
            d = d.replace(tzinfo=dtm.timezone(dtm.timedelta(minutes=v[2])))
            den += "%+d" % v[2]
        return d, ({"k": "timestamp", "v": den} if fmt in ("DEFAULT", "TIMESTAMP") else None), repr(d)
    if v[0] == "node":
        node = tx_node(mk_load(text), v[1])      # the same text loaded a second time: a node of ANOTHER document
        enc = dt_scalar(node)
        ok = (enc["k"] == "date" and fmt in ("DEFAULT", "DATE")) or (enc["k"] == "timestamp" and fmt in ("DEFAULT", "TIMESTAMP"))
        return node, (enc if ok else None), "a copy of the node %s" % enc["v"]
    if v[0] == "text":
        den = dt_parse(v[1])
        if fmt == "DEFAULT":
            want = codec.scalar_to_json(tx_typed(v[1]))
        elif den and ((fmt == "DATE") == (den[0] == "D")):
            want = {"k": "date" if den[0] == "D" else "timestamp", "v": den}
        else:
            want = None
        return v[1], want, repr(v[1])
    raise ValueError(v[0])


def tx_typed(text):
    """DEFAULT format of plain text: ints / bools stay what the value tables of part (1) say; the texts used here are
    either not typed (date-like text, words) or a small int."""
    try:
        return int(text) if text.strip() == text and not text.startswith("0") else text
    except ValueError:
        return text


def tx_node(root, slot):
    """The node object at slot (container number in first-visit order, field, position)."""
    from ruamel.yaml.comments import CommentedMap, CommentedSeq
    seen, order = set(), []

    def visit(n):
        if isinstance(n, (CommentedMap, CommentedSeq)) and id(n) not in seen:
            seen.add(id(n))
            order.append(n)
            if isinstance(n, CommentedMap):
                for m in getattr(n, "merge", []):
                    visit(m[1])
                for _k, v in n.non_merged_items():
                    visit(v)
            else:
                for v in n:
                    visit(v)
    visit(root)
    c = order[slot[0]]
    if slot[1] == "own":
        return list(c.non_merged_items())[slot[2]][1]
    return c[slot[2]]


TX_STYLE = {"FoldedScalarString": "folded", "LiteralScalarString": "literal", "DoubleQuotedScalarString": "double-quoted",
            "SingleQuotedScalarString": "single-quoted", "PlainScalarString": "plain", "str": "plain", "AnchoredDate": "date",
            "AnchoredTimeStamp": "timestamp"}


def tx_first_diff(a, b, styles):
    """First scalar slot whose content differs between two physical tables of the same shape -> (style, text)."""
    if len(a) != len(b):
        return "shape", "%d containers, reloaded %d" % (len(a), len(b))
    for ci, (x, y) in enumerate(zip(a, b)):
        if x == y:
            continue
        if x["t"] != y["t"]:
            return "shape", "container #%d" % ci
        fld = "own" if x["t"] == "map" else "items"
        if x["t"] == "map" and [k for k, _ in x["own"]] != [k for k, _ in y["own"]]:
            return "keys", "mapping #%d: keys %s, reloaded %s" % (ci, [k for k, _ in x["own"]][:6], [k for k, _ in y["own"]][:6])
        if len(x[fld]) != len(y[fld]):
            return "shape", "container #%d" % ci
        for pi, (e, f) in enumerate(zip(x[fld], y[fld])):
            ev, fv = (e[1], f[1]) if fld == "own" else (e, f)
            if ev != fv:
                style = TX_STYLE.get(styles.get((ci, fld, pi), ""), "scalar")
                where = "key %r of mapping #%d" % (e[0], ci) if fld == "own" else "item %d of sequence #%d" % (pi, ci)
                return style, "%s (%s): in memory %s, reloaded %s" % (where, style, json.dumps(ev)[:300], json.dumps(fv)[:300])
    return "other", ""


def tx_roundtrip(data, scalar):
    """Dump with the tool's editor, reload with its strict loader, compare the physical documents (anchor names aside).
    -> (status, style of the first differing node, detail, dumped text)"""
    import io
    from yamlpath.common import Parsers
    buf = io.StringIO()
    try:
        Parsers.get_yaml_editor().dump(data, buf)
    except Exception as e:  # noqa
        return "dump-failed", "", type(e).__name__, ""
    try:
        back = mk_load(buf.getvalue())
    except Exception as e:  # noqa
        return "reload-crashed", "", type(e).__name__, buf.getvalue()
    if back is None:
        return "reload-failed", "", "", buf.getvalue()
    styles = {}
    mem = mk_phys(data, anchors=False, scalar=scalar, styles_out=styles)
    rel = mk_phys(back, anchors=False, scalar=scalar)
    if mem == rel:
        return "ok", "", "", buf.getvalue()
    style, detail = tx_first_diff(mem, rel, styles)
    return "data-differs", style, detail, buf.getvalue()


def text_case(case, bump, viol, keys):
    from yamlpath import Processor
    from yamlpath.enums import YAMLValueFormats
    kind, text, path, fmt = case["textdoc"], case["text"], case["path"], case.get("fmt", "DEFAULT")
    tag = kind + "-doc"
    scalar = dt_scalar if kind == "date" else None
    doc = mk_load(text)
    if doc is None:
        bump(tag + ":skipped-does-not-load")
        return
    before = mk_phys(doc, scalar=scalar)
    ci, fld, pi = case["slot"]
    try:
        c = before[ci]
        node = c["own"][pi][1] if fld == "own" else c["items"][pi]
        assert node[0] == "s"
    except Exception:
        bump(tag + ":skipped-slot-not-a-scalar")
        return
    if kind == "date":
        v, want, vtext = dt_value(case, text)
    else:
        v, want, vtext = case["v"][1], codec.scalar_to_json(case["v"][1]), repr(case["v"][1])
    targets = [(ci, fld, pi)]
    if node[2]:
        targets += [(c2, f2, p2) for c2, f2, p2, val in mk_slots(before) if val[2] == node[2] and (c2, f2, p2) != (ci, fld, pi)]
    proc = Processor(core.quiet_logger(), doc)
    res = ed.guarded(lambda: proc.set_value(path, v, mustexist=True, value_format=YAMLValueFormats[fmt]))
    rep = dict(case)
    what = "set_value(%s, %s, %s) on a document loaded from YAML text" % (path, vtext, fmt)
    bump(tag + ":impl:" + res[0].split(":")[0])
    bump(tag + ":targets:%d" % min(len(targets), 4))
    if kind == "date":
        bump("date-doc:%s-node<-%s:%s:%s" % (node[1]["k"] if node[1]["k"] in ("date", "timestamp") else "other", case["v"][0], fmt,
                                             "judged" if want is not None else "not-judged"))
    if res[0] == "timeout":
        viol.append(("timeout", what + " did not finish", rep))
        return
    if res[0].startswith("crash"):
        viol.append(("%s:%s@%s" % (tag, res[0], res[1]), what + " raised %s (%s)" % (res[0], res[1]), rep))
        return
    if res[0] != "ok":
        if want is not None:
            viol.append((tag + ":set-refused", what + ": refused with a YAML Path error (%s); the value is a legitimate %s\n%s" % (
                str(res[2])[:160], want["k"], text), rep))
        return
    after = mk_phys(proc.data, scalar=scalar)
    mb, ma = mk_masked(before, targets), mk_masked(after, targets)
    if mb != ma:
        sig, detail = mk_describe(mb, ma)
        viol.append((sig.replace("merge-doc", tag), what + ": the rest of the document is not as before (%s)\n%s" % (detail, text), rep))
        return
    for (c2, f2, p2) in targets:
        got = after[c2]["own"][p2][1] if f2 == "own" else after[c2]["items"][p2]
        old = before[c2]["own"][p2][1] if f2 == "own" else before[c2]["items"][p2]
        if want is not None and (got[0] != "s" or got[1] != want):
            viol.append((tag + ":target-not-updated" + (":%s-became-%s" % (want["k"], got[1].get("k")) if kind == "date" and got[0] == "s" and
                                                        got[1].get("k") != want["k"] else ""),
                         what + ": %s of container #%d holds %s, expected %s\n%s" % (f2, c2, got, want, text), rep))
            return
        if got[2] != old[2]:
            viol.append((tag + ":target-anchor-changed", what + ": anchor %s -> %s\n%s" % (old[2], got[2], text), rep))
            return
    keys.append(_key({"doc": text, "path": path, "v": case["v"], "fmt": fmt}))
    status, style, detail, dumped = tx_roundtrip(proc.data, scalar)
    bump(tag + ":reload:" + status)
    if status == "data-differs":
        viol.append(("%s:reload:untouched-%s-differs" % (tag, style) if style not in ("shape", "keys", "other") else "%s:reload:data-differs:%s" % (tag, style),
                     what + ": the edited document does not dump + strict-reload to the same data: %s\n--- dumped\n%s" % (detail, dumped[:1500]), rep))
    elif status != "ok":
        viol.append(("%s:reload:%s" % (tag, status), what + ": the edited document does not dump / reload with yamlpath's own editor and "
                     "strict loader (%s)\n%s" % (detail, dumped[:1500]), rep))


# --------------------------------------------------------------------------- aliases as mapping keys / set members, sets inside sequences (real code only)
#
# Set members as targets, aliases used as mapping KEYS and aliases among the members of a !!set are outside the Lean model.
# Part (8) judges the clauses directly, as short SEQUENCES of sets on one Processor: the document is read into an
# independent tree (`ak_tree`: mapping = ordered entries [key scalar, value], sequence, set = members, scalar =
# [value, anchor]); the oracle of one step is the pure function `ak_expect` on that tree (the target slot and every scalar
# - key, value, item or set member - that carries the target's anchor hold the new value under the old anchor, nothing
# else moves; key order kept, set members compared as a multiset); the next step starts from the oracle's tree, never
# from the object the Processor works on.

AK_WORDS = ["web", "db", "cache", "alpha", "beta", "k", "z", "q", "red", "n"]
AK_INTS = ["5", "12", "40", "3"]
AK_KEYS = ["a", "b", "c", "k", "z", "web", "db", "alpha", "l", "m"]


def gen_alias_doc(rng):
    """A generated document (nested tuples) in which anchored scalars are aliased as mapping keys (first / middle / last
    position), as mapping values, sequence items and !!set members; !!sets are mapping values AND sequence elements (also
    of nested sequences); plain scalars repeat the anchored values."""
    st = {"anch": []}       # (name, value text) in document order
    alias_members = rng.random() < 0.45     # ruamel cannot dump an alias among set members: those documents get no reload leg

    def tok(seen, allow_def=True, words=AK_WORDS + AK_INTS):
        for _ in range(20):
            r = rng.random()
            if st["anch"] and r < 0.32:
                name, val = rng.choice(st["anch"])
                if val not in seen:
                    seen.add(val)
                    return "*" + name
            elif allow_def and len(st["anch"]) < 4 and r < 0.47:
                val = rng.choice(AK_WORDS + AK_INTS)
                if val not in seen and all(val != v for _, v in st["anch"]):
                    name = "a%d" % len(st["anch"])
                    st["anch"].append((name, val))
                    seen.add(val)
                    return "&%s %s" % (name, val)
            else:
                val = rng.choice(words)
                if val not in seen:
                    seen.add(val)
                    return val
        return "u%d" % rng.randrange(1000)

    def node(depth, want=None):
        r = rng.random()
        kind = want or ("s" if depth <= 0 or r < 0.30 else "map" if r < 0.55 else "seq" if r < 0.75 else "set" if r < 0.90 else "flow")
        if kind == "s":
            return ("s", tok(set()))
        if kind == "map":
            seen, ents = set(), []
            for _ in range(rng.randint(1, 4)):
                k = tok(seen, allow_def=False, words=AK_KEYS)
                ents.append((k, node(depth - 1)))
            return ("map", ents)
        if kind == "seq":
            return ("seq", [node(depth - 1, "set" if rng.random() < 0.3 else None) for _ in range(rng.randint(1, 4))])
        if kind == "set":
            seen = set()
            if alias_members:
                return ("set", [tok(seen, allow_def=False, words=AK_WORDS) for _ in range(rng.randint(1, 3))])
            return ("set", rng.sample(AK_WORDS, rng.randint(1, 3)))
        seen = set()
        return ("flow", [tok(set()) for _ in range(rng.randint(1, 3))])

    top = []
    defs = []
    for i in range(rng.randint(1, 3)):
        seen = set()
        while True:
            val = rng.choice(AK_WORDS + AK_INTS)
            if all(val != v for _, v in st["anch"]):
                break
        name = "a%d" % len(st["anch"])
        st["anch"].append((name, val))
        defs.append(("n%d" % i, ("s", "&%s %s" % (name, val))))
    if rng.random() < 0.6:
        top.append(("defs", ("map", defs)))
    else:
        top += defs
    names = ["hosts", "teams", "labels", "sv", "misc", "more"]
    rng.shuffle(names)
    for nm in names[:rng.randint(2, 5)]:
        want = {"hosts": "map", "teams": "seq", "labels": "flow", "sv": "set"}.get(nm)
        top.append((nm, node(2, want)))
    return ("map", top)


def ak_render(doc):
    lines = ["---"]

    def emit(n, ind, head):
        """head: text already on the line that introduces n ('key:' / '-' / '*a :')"""
        kind = n[0]
        if kind == "s":
            lines.append("%s %s" % (head, n[1]))
        elif kind == "flow":
            lines.append("%s [%s]" % (head, ", ".join(n[1])))
        elif kind == "set":
            lines.append("%s !!set" % head)
            for m in n[1]:
                lines.append("%s? %s" % (ind, m))
        elif kind == "map":
            if head is not None:
                lines.append(head)
            for k, v in n[1]:
                emit(v, ind + "  ", "%s%s :" % (ind, k) if k.startswith("*") else "%s%s:" % (ind, k))
        else:
            if head is not None:
                lines.append(head)
            for v in n[1]:
                emit(v, ind + "  ", ind + "-")
    for k, v in doc[1]:
        emit(v, "  ", "%s :" % k if k.startswith("*") else "%s:" % k)
    return "\n".join(lines) + "\n"


def ak_tree(n, anchors=True):
    """Independent reading of a loaded document."""
    from ruamel.yaml.comments import CommentedSet

    def sc(x):
        if isinstance(x, (dict, list, set, CommentedSet, tuple)):
            raise codec.OutOfModel("container used as a key / member")
        return ["s", codec.scalar_to_json(x), codec.anchor_of(x) if anchors else None]
    if isinstance(n, (CommentedSet, set, frozenset)):
        return {"t": "set", "m": [sc(m) for m in n]}
    if isinstance(n, dict):
        return {"t": "map", "e": [[sc(k), ak_tree(v, anchors)] for k, v in n.items()]}
    if isinstance(n, (list, tuple)):
        return {"t": "seq", "i": [ak_tree(v, anchors) for v in n]}
    return sc(n)


def ak_norm(t):
    """Set members in canonical order (the property does not order the members of a set)."""
    if isinstance(t, list):
        return t
    if t["t"] == "set":
        return {"t": "set", "m": sorted(t["m"], key=lambda m: json.dumps(m, sort_keys=True))}
    if t["t"] == "map":
        return {"t": "map", "e": [[k, ak_norm(v)] for k, v in t["e"]]}
    return {"t": "seq", "i": [ak_norm(v) for v in t["i"]]}


def ak_slots(t, pre=(), path=""):
    """(address, path text, role, scalar) of every scalar that a path can name: mapping values, sequence items, members."""
    out = []
    if isinstance(t, list):
        return out

    def ktext(s):
        return str(s[1].get("v"))
    if t["t"] == "map":
        for i, (k, v) in enumerate(t["e"]):
            p = (path + "." if path else "") + ktext(k)
            if isinstance(v, list):
                out.append((pre + (("v", i),), p, "map-value", v))
            else:
                out += ak_slots(v, pre + (("v", i),), p)
    elif t["t"] == "seq":
        for i, v in enumerate(t["i"]):
            p = path + "[%d]" % i
            if isinstance(v, list):
                out.append((pre + (("i", i),), p, "seq-item", v))
            else:
                out += ak_slots(v, pre + (("i", i),), p)
    else:
        for i, m in enumerate(t["m"]):
            if m[1]["k"] == "str":
                out.append((pre + (("m", i),), (path + "." if path else "") + ktext(m), "set-member", m))
    return out


def ak_expect(t, addr, anchor, new, pre=()):
    """The oracle of one set: a copy of the tree in which the slot `addr` and every scalar carrying `anchor` is `new`."""
    def sc(s, here):
        if here == tuple(addr) or (anchor and s[2] == anchor):
            return ["s", new, s[2]]
        return s
    if isinstance(t, list):
        return sc(t, pre)
    if t["t"] == "map":
        return {"t": "map", "e": [[sc(k, pre + (("k", i),)), ak_expect(v, addr, anchor, new, pre + (("v", i),))] for i, (k, v) in enumerate(t["e"])]}
    if t["t"] == "seq":
        return {"t": "seq", "i": [ak_expect(v, addr, anchor, new, pre + (("i", i),)) for i, v in enumerate(t["i"])]}
    return {"t": "set", "m": [sc(m, pre + (("m", i),)) for i, m in enumerate(t["m"])]}


def ak_diff(before, exp, got, where="root"):
    """First difference between the oracle's tree and the real one: (signature tail, text) or None."""
    def one(b, e, g, role, at):
        if e == g:
            return None
        if not isinstance(g, list):
            return "structure-changed", "%s: a scalar became a container" % at
        if e != b:
            return ("target-not-updated:" + role if g == b else "wrong-value:" + role), "%s holds %s, expected %s" % (at, g, e)
        return "bystander-changed:" + role, "%s was %s, now %s" % (at, b, g)
    if isinstance(exp, list):
        return one(before, exp, got, "scalar", where)
    if isinstance(got, list) or got["t"] != exp["t"]:
        return "structure-changed", "%s: container kind changed" % where
    if exp["t"] == "map":
        if len(exp["e"]) != len(got["e"]):
            return "structure-changed", "%s: %d entries, expected %d (keys %s)" % (where, len(got["e"]), len(exp["e"]), [k[1].get("v") for k, _ in got["e"]])
        for i, ((bk, bv), (ek, ev), (gk, gv)) in enumerate(zip(before["e"], exp["e"], got["e"])):
            d = one(bk, ek, gk, "map-key", "%s key #%d" % (where, i))
            if d:
                return d
            d = ak_diff(bv, ev, gv, "%s.%s" % (where, ek[1].get("v")))
            if d:
                return d
        return None
    if exp["t"] == "seq":
        if len(exp["i"]) != len(got["i"]):
            return "structure-changed", "%s: %d items, expected %d" % (where, len(got["i"]), len(exp["i"]))
        for i, (bv, ev, gv) in enumerate(zip(before["i"], exp["i"], got["i"])):
            d = ak_diff(bv, ev, gv, "%s[%d]" % (where, i))
            if d:
                return d
        return None
    key = lambda m: json.dumps(m, sort_keys=True)   # noqa
    if sorted(map(key, exp["m"])) == sorted(map(key, got["m"])):
        return None
    have = set(map(key, got["m"]))
    for b, e in zip(before["m"], exp["m"]):
        if e != b and key(e) not in have:
            return ("target-not-updated:set-member" if key(b) in have else "wrong-value:set-member",
                    "%s: the set holds %s, expected the member %s" % (where, [m[1].get("v") for m in got["m"]], e))
    return "bystander-changed:set-member", "%s: the set holds %s, expected %s" % (where, [m[1].get("v") for m in got["m"]], [m[1].get("v") for m in exp["m"]])


def ak_strip(t):
    if isinstance(t, list):
        return ["s", t[1], None]
    if t["t"] == "set":
        return {"t": "set", "m": [ak_strip(m) for m in t["m"]]}
    if t["t"] == "map":
        return {"t": "map", "e": [[ak_strip(k), ak_strip(v)] for k, v in t["e"]]}
    return {"t": "seq", "i": [ak_strip(v) for v in t["i"]]}


def ak_reload(data):
    """("ok", tree without anchors) | (status, detail, dumped text)"""
    import io
    from yamlpath.common import Parsers
    buf = io.StringIO()
    try:
        Parsers.get_yaml_editor().dump(data, buf)
    except Exception as e:  # noqa
        return "dump-failed", type(e).__name__, ""
    try:
        back = mk_load(buf.getvalue())
    except Exception as e:  # noqa
        return "reload-crashed", type(e).__name__, buf.getvalue()
    if back is None:
        return "reload-failed", "", buf.getvalue()
    return "ok", ak_norm(ak_tree(back, anchors=False)), buf.getvalue()


def ak_quiet(fn):
    """The strict loader reports what it rejects on stderr; the verdict carries that text."""
    import contextlib
    import io
    with contextlib.redirect_stderr(io.StringIO()):
        return fn()


def gen_alias_cases(rng, ndocs):
    return [{"aliasdoc": True, "text": ak_render(gen_alias_doc(rng)), "seed": rng.randrange(1 << 30), "nsteps": rng.choice([1, 2, 2, 3])}
            for _ in range(ndocs)]


def ak_pick(rng, tree, k):
    """One step for the oracle's current tree: a slot (anchored scalars and set members preferred) and a fresh value."""
    slots = ak_slots(tree)
    if not slots:
        return None
    r = rng.random()
    pref = [s for s in slots if s[3][2]] if r < 0.55 else [s for s in slots if s[2] == "set-member"] if r < 0.8 else slots
    addr, path, role, _ = rng.choice(pref or slots)
    v = ("v%d" % k) if rng.random() < 0.7 else 7000 + k
    return {"addr": [list(a) for a in addr], "path": path, "v": v}


def alias_case(case, bump, viol, keys):
    from yamlpath import Processor
    text = case["text"]
    doc = mk_load(text)
    if doc is None:
        bump("alias-doc:skipped-does-not-load")
        return
    cur = ak_tree(doc)
    pre = ak_quiet(lambda: ak_reload(mk_load(text)))
    reload_leg = pre[0] == "ok" and pre[1] == ak_norm(ak_strip(cur))
    if not reload_leg:
        bump("alias-doc:reload:skipped-unedited-document-does-not-roundtrip")     # ruamel: an alias among the members of a !!set
    proc = Processor(core.quiet_logger(), doc)          # ONE Processor for the whole sequence
    rng = random.Random(case["seed"])
    steps = case.get("steps")
    done = []
    for k in range(len(steps) if steps else case["nsteps"]):
        step = steps[k] if steps else ak_pick(rng, cur, k)
        if step is None:
            return
        done.append(step)
        addr = tuple(tuple(a) for a in step["addr"])
        slot = [s for s in ak_slots(cur) if s[0] == addr]
        if not slot:
            bump("alias-doc:skipped-slot-not-found")
            return
        _, path, role, old = slot[0]
        exp = ak_expect(cur, addr, old[2], codec.scalar_to_json(step["v"]))
        res = ed.guarded(lambda: proc.set_value(path, step["v"], mustexist=True))
        rep = {"aliasdoc": True, "text": text, "seed": case["seed"], "steps": list(done)}
        what = "step %d of %s: set_value(%s, %r) [%s%s]" % (k + 1, [s["path"] for s in done], path, step["v"], role, ", anchor &" + old[2] if old[2] else "")
        bump("alias-doc:step:%s:%s" % (role, "anchored" if old[2] else "plain"))
        bump("alias-doc:impl:" + res[0].split(":")[0])
        if res[0] == "timeout":
            viol.append(("timeout", what + " did not finish", rep))
            return
        if res[0] != "ok":
            viol.append(("alias-doc:%s@%s" % (res[0], res[1]), what + " raised %s (%s): %s\n%s" % (res[0], res[1], str(res[2])[:160], text), rep))
            return
        got = ak_tree(proc.data)
        d = ak_diff(cur, exp, got)
        if d:
            viol.append(("alias-doc:" + d[0], what + ": %s\n%s" % (d[1], text), rep))
            return
        if reload_leg:
            rl = ak_quiet(lambda: ak_reload(proc.data))
            bump("alias-doc:reload:" + rl[0])
            if rl[0] != "ok":
                viol.append(("alias-doc:reload:" + rl[0], what + ": the edited document does not dump / reload with yamlpath's own editor and strict "
                             "loader (%s)\n%s" % (rl[1], rl[2][:1200]), rep))
                return
            if rl[1] != ak_norm(ak_strip(exp)):
                viol.append(("alias-doc:reload:data-differs", what + ": dump + strict reload holds different data\n" + rl[2][:1200], rep))
                return
        cur = exp
    keys.append(_key({"doc": text, "path": [s["path"] for s in done], "v": [s["v"] for s in done]}))


# --------------------------------------------------------------------------- floats of every magnitude (real code only)
#
# Floats whose repr() is in exponent form (|x| < 1e-4 or |x| >= 1e16) are outside the (m, e) domain the value tables
# exercise; the clauses of the property are judged directly on the real code: after set_value writes the float (as a
# float object, as numeric text in DEFAULT format, or as text with value_format=FLOAT) every matched scalar and every
# scalar carrying a matched node's anchor holds exactly that number (anchor kept), the rest of the document is as
# before, and the dump with the tool's editor reloads with its strict loader to the same data - the reloaded number
# == the written number.

FLOAT_FIXED = [3.75, -0.5, 0.001, 0.0001, 9.9e-05, 123456.789, 1e15, 1e16, 2e-05, -1.25e-05, 1e-07, 1.5e-10, 1e-15,
               -4e+20, 1e+22, 1.23e+25, 1.5e+17, 7e-12, 0.000123, 12345678.9, 1e-16, 0.1 + 0.2, 1.0 / 3, 1e-300, 3.3e-16]
FLOAT_MODES = ["obj", "text", "fmt"]


def gen_float(rng):
    """sign x 1-4 digit mantissa x 10**e, e from -17 to 25: ordinary reprs, exponent reprs both ways."""
    r = rng.random()
    if r < 0.2:
        return rng.choice(FLOAT_FIXED)
    digits = rng.choice([1, 1, 2, 3, 4])
    m = rng.randrange(10 ** (digits - 1), 10 ** digits)
    if r < 0.55:
        e = rng.randint(-17, -5)           # small: repr uses a negative exponent
    elif r < 0.8:
        e = rng.randint(16 - digits + 1, 25)  # large: repr uses a positive exponent
    else:
        e = rng.randint(-4, 12)
    v = float("%de%d" % (m, e))
    return -v if rng.random() < 0.3 else v


def float_class(v):
    """'fixed15' when the number has at most 15 fractional digits (its '.15f' rendering reads back as itself),
    else 'beyond15' (known finding C03-F3 of the pinned tree)."""
    return "fixed15" if float(format(v, ".15f")) == v else "beyond15"


def gen_float_cases(rng, n):
    cases = []
    while len(cases) < n:
        doc = ed.gen_doc(rng)
        nodes = [(a, nd) for a, nd in ed.all_addrs(doc) if nd["k"] not in ("map", "seq", "set")]
        if not nodes:
            continue
        for _ in range(3):
            if rng.random() < 0.75:
                a, _nd = rng.choice(nodes)
                path = ed.path_of_addr(a, rng, doc)
            else:
                path = ed.gen_path(rng, doc)
            cases.append({"floatset": True, "doc": doc, "path": path, "fv": repr(gen_float(rng)), "mode": rng.choice(FLOAT_MODES)})
    return cases


def node_at(j, addr):
    for kind, ref in addr:
        if kind == "k":
            j = [v for k, v in j["e"] if k == ref and type(k) is type(ref)][0]
        elif kind == "i":
            j = j["i"][ref]
        else:
            raise codec.OutOfModel("set member")
    return j


def float_spec(j, addrs, newj):
    """Plain-data specification: the nodes at addrs and every scalar carrying the anchor of one of them become newj
    (anchor kept); nothing else changes."""
    tset = set(json.dumps(a) for a in addrs)
    anchors = set(node_at(j, a).get("a") for a in addrs) - {None}

    def walk(n, addr):
        k = n["k"]
        if k == "map":
            out = {"k": "map", "e": [[kk, walk(v, addr + [["k", kk]])] for kk, v in n["e"]]}
        elif k == "seq":
            out = {"k": "seq", "i": [walk(v, addr + [["i", i]]) for i, v in enumerate(n["i"])]}
        elif k == "set":
            out = dict(n)
        else:
            if json.dumps(addr) in tset or n.get("a") in anchors:
                out = dict(newj)
                if n.get("a"):
                    out["a"] = n["a"]
                return out
            return dict(n)
        if n.get("a"):
            out["a"] = n["a"]
        return out
    return walk(j, [])


def float_case(case, bump, viol, keys):
    from yamlpath import Processor
    from yamlpath.enums import YAMLValueFormats
    j, path, mode = case["doc"], case["path"], case["mode"]
    v = float(case["fv"])
    cls = float_class(v)
    g = ed.gather(j, path, "set")
    if g[0] != "ok" or not g[1]:
        bump("float-set:skipped:" + (g[0] if g[0] != "ok" else "no-match"))
        return
    addrs = [p[0] for p in g[1]]
    if any(p[1] for p in g[1]) or ed.nested(addrs) or not all(a for a in addrs):
        bump("float-set:skipped:name-nested-or-root")
        return
    try:
        if any(node_at(j, a)["k"] in ("map", "seq", "set") for a in addrs):
            bump("float-set:skipped:container-target")
            return
    except (IndexError, KeyError):
        bump("float-set:skipped:unaddressable")
        return
    pre = ed.dump_reload(ed.build(j))
    reload_leg = pre[0] == "ok" and pre[1] == codec.strip_anchors(j)
    anchors_leg = reload_leg and pre[3] == ed.anchor_seq(j)       # the unedited document dumps with every anchor name in place
    doc = ed.build(j)
    proc = Processor(core.quiet_logger(), doc)
    if mode == "obj":
        res = ed.guarded(lambda: proc.set_value(path, v, mustexist=True))
    elif mode == "text":
        res = ed.guarded(lambda: proc.set_value(path, case["fv"], mustexist=True))
    else:
        res = ed.guarded(lambda: proc.set_value(path, case["fv"], mustexist=True, value_format=YAMLValueFormats.FLOAT))
    rep = dict(case, addrs=addrs)
    what = "set_value(%s, %s%s) [float repr %s, %s]" % (path, case["fv"] if mode == "obj" else repr(case["fv"]),
                                                          ", FLOAT" if mode == "fmt" else "", case["fv"], cls)
    bump("float-set:%s:%s:%s" % (cls, "exp-repr" if "e" in case["fv"] else "plain-repr", mode))
    bump("float-set:impl:" + res[0].split(":")[0])
    if res[0] == "timeout":
        viol.append(("timeout", what + " did not finish", rep))
        return
    if res[0] != "ok":
        viol.append(("float-set:%s@%s" % (res[0], res[1]), what + " raised %s (%s)" % (res[0], res[1]), rep))
        return
    after = ed.snapshot(proc.data)
    want = float_spec(j, addrs, codec.scalar_to_json(v))
    if after != want:
        viol.append(("float-set:" + classify(j, want, after), what + ": the document in memory differs from 'matched "
                     "nodes and their aliases hold the number, nothing else changed'", rep))
        return
    keys.append(_key(dict(case, v=case["fv"], fmt=mode)))
    if not reload_leg:
        bump("float-set:reload:skipped-original-does-not-roundtrip")
        return
    rl = ed.dump_reload(proc.data)
    bump("float-set:reload:" + rl[0])
    known = ":beyond-15-fraction-digits" if cls == "beyond15" else ""
    if rl[0] in ("dump-failed", "reload-failed", "reload-crashed"):
        viol.append(("float-set:reload:" + rl[0] + known, what + ": the edited document does not dump/reload with yamlpath's "
                     "own editor and strict loader: %r" % rl[2][:200], rep))
    elif rl[0] == "ok" and rl[1] != codec.strip_anchors(after):
        got = sorted(set(json.dumps(node_at(rl[1], a)) for a in addrs if _has(rl[1], a)))
        viol.append(("float-set:reload:written-number-differs" + known,
                     what + ": dump + strict reload holds %s, written %s: %r" % (got, case["fv"], rl[2][:200]), rep))
    elif rl[0] == "ok" and anchors_leg:
        bump("float-set:reload:anchor-names-compared")
        if rl[3] != ed.anchor_seq(after):
            viol.append(("float-set:reload:anchor-names-differ", what + ": " + anchor_diff(after, rl[3]) + ": %r" % rl[2][:200], rep))


def anchor_diff(after, seq):
    """The anchor names of the value nodes in document order: edited document in memory vs its dump."""
    return "the value nodes of the edited document carry the anchors %s (document order, - = none), the dumped text %s" % (
        " ".join("&" + a if a else "-" for a in ed.anchor_seq(after)), " ".join("&" + a if a else "-" for a in (seq or [])))


def _has(j, addr):
    try:
        node_at(j, addr)
        return True
    except Exception:
        return False


# --------------------------------------------------------------------------- single edits

def real_set(j, path, v, fmt, reload_leg):
    from yamlpath import Processor
    from yamlpath.enums import YAMLValueFormats
    doc = ed.build(j)
    proc = Processor(core.quiet_logger(), doc)
    res = ed.guarded(lambda: proc.set_value(path, v, mustexist=True, value_format=YAMLValueFormats[fmt]))
    after = ed.snapshot(proc.data)
    rl = None
    if reload_leg and res[0] == "ok":
        rl = ed.dump_reload(proc.data)
    return res, after, rl


def classify(j, spec_doc, after):
    want = set(ed.differing(j, spec_doc))
    got = set(ed.differing(j, after))
    missed, extra = want - got, got - want
    if extra and not missed:
        return "set-bystander-changed"
    if missed and not extra:
        return "set-target-not-updated"
    if missed and extra:
        return "set-target-not-updated+bystander-changed"
    return "set-wrong-value"


def _job(cases):
    stats = {"n": 0, "oom": 0}
    viol, disag, samples, keys = [], [], [], []

    def bump(k):
        stats[k] = stats.get(k, 0) + 1
    pend, hpend = [], []
    for case in cases:
        if case.get("merge"):
            stats["n"] += 1
            try:
                merge_case(case, bump, viol, keys)
            except codec.OutOfModel:
                stats["oom"] += 1
            continue
        if case.get("textdoc"):
            stats["n"] += 1
            try:
                text_case(case, bump, viol, keys)
            except codec.OutOfModel:
                stats["oom"] += 1
            continue
        if case.get("aliasdoc"):
            stats["n"] += 1
            try:
                alias_case(case, bump, viol, keys)
            except codec.OutOfModel:
                stats["oom"] += 1
            continue
        if case.get("floatset"):
            stats["n"] += 1
            try:
                float_case(case, bump, viol, keys)
            except codec.OutOfModel:
                stats["oom"] += 1
            continue
        if case.get("history"):
            stats["n"] += 1
            try:
                h = run_history(case, bump)
                if h is not None:
                    hpend.append(h)
            except codec.OutOfModel:
                stats["oom"] += 1
            continue
        stats["n"] += 1
        j, path = case["doc"], case["path"]
        v = case["v"][1]
        try:
            g = ed.gather(j, path, "set")
        except codec.OutOfModel:
            stats["oom"] += 1
            continue
        if g[0] == "err":
            bump("skipped:query-" + g[1].split(":")[0])
            continue
        if g[0] == "impure":
            bump("skipped:query-mutates-document")
            continue
        if g[0] == "oom":
            stats["oom"] += 1
            continue
        if g[0] == "notlocated":
            bump("skipped:result-does-not-locate-a-node")
            continue
        pairs = g[1]
        if not pairs:
            bump("skipped:no-match")
            continue
        names = set(p[1] for p in pairs)
        addrs = [p[0] for p in pairs]
        if len(names) > 1 or (ed.nested(addrs) and names == {False}):
            bump("skipped:nested-or-mixed-matches")
            continue
        rename = names == {True}
        if rename and (case["v"][0] not in ("str", "int") or len(addrs) != 1):
            bump("skipped:rename-multi-or-nonkey-value")
            continue
        reload_leg = bool(case.get("reload")) and not rename
        if reload_leg:
            pre = ed.dump_reload(ed.build(j))
            if pre[0] != "ok" or pre[1] != codec.strip_anchors(j):
                reload_leg = False
                bump("reload:skipped-original-does-not-roundtrip")
            anchors_leg = reload_leg and pre[3] == ed.anchor_seq(j)
        try:
            res, after, rl = real_set(j, path, v, case["fmt"], reload_leg)
        except codec.OutOfModel:
            stats["oom"] += 1
            continue
        if rl is not None and len(rl) > 3 and not (reload_leg and anchors_leg):
            rl = rl[:3]         # the unedited document does not reload with its anchor names: names not compared
        if rename:
            req = {"op": "C03.rename", "doc": j, "addrs": addrs, "key": v}
        else:
            req = {"op": "C03.set", "doc": j, "addrs": addrs, "v": codec.scalar_to_json(v), "fmt": case["fmt"]}
        pend.append((case, addrs, rename, res, after, rl, req))
    if pend:
        answers = core.Driver().ask([p[-1] for p in pend])
        for (case, addrs, rename, res, after, rl, _), ans in zip(pend, answers):
            judge(case, addrs, rename, res, after, rl, ans, bump, viol, disag, samples, keys, stats)
    if hpend:
        # one model call for all histories of the job (starting the driver costs more than a whole history)
        answers = core.Driver().ask([r for h in hpend for r in h[0]])
        pos = 0
        for h in hpend:
            try:
                judge_history(h, answers[pos:pos + len(h[0])], bump, viol, disag, keys, stats)
            except codec.OutOfModel:
                stats["oom"] += 1
            pos += len(h[0])
    return stats, viol, disag, samples, keys


def judge(case, addrs, rename, res, after, rl, ans, bump, viol, disag, samples, keys, stats):
    j = case["doc"]
    rep = dict(case, addrs=addrs)
    model = ans["model"]
    spec = ans.get("spec", model)
    if model.get("err") == "outOfModel":
        stats["oom"] += 1
        return
    bump("op:" + ("rename" if rename else "set:" + case["fmt"]))
    bump("matches:%s" % min(len(addrs), 6))
    bump("impl:" + res[0].split(":")[0])
    if res[0] == "timeout":
        viol.append(("timeout", "set_value did not finish in 10 s", rep))
        return
    if res[0].startswith("crash"):
        viol.append(("%s@%s" % (res[0], res[1]), "set_value(%s, %r, %s) raised %s (%s)" % (case["path"], case["v"][1], case["fmt"], res[0], res[1]), rep))
        return
    if "err" in model:
        mclass = ed.err_class(model["err"])
        if res[0] == "ok":
            disag.append(("model-errs-impl-ok", "model says %s, set_value succeeded" % model["err"], rep))
        elif res[0] != mclass:
            disag.append(("error-class", "model says %s, set_value raised %s" % (model["err"], res[0]), rep))
        elif after != j:
            bump("note:failed-set-left-partial-change")     # the property does not speak about failed sets
        return
    if "ok" in spec and spec != model:
        disag.append(("model-vs-spec", "Lean model setValue differs from setSpec", rep))
    want = spec["ok"] if "ok" in spec else model["ok"]
    if res[0] != "ok":
        viol.append(("set-unexpected-error", "set_value(%s, %r, %s) raised a YAML Path error; the model sets the value" % (
            case["path"], case["v"][1], case["fmt"]), rep))
        return
    if after != want:
        sig = "rename-differs" if rename else classify(j, want, after)
        viol.append((sig, "after set_value(%s, %r, %s) the document differs from 'matched nodes and their aliases hold the value, nothing else changed'" % (
            case["path"], case["v"][1], case["fmt"]), rep))
        return
    if after != j:
        keys.append(_key(case))
    if rl is not None:
        bump("reload:" + rl[0])
        if rl[0] in ("dump-failed", "reload-failed", "reload-crashed"):
            viol.append(("reload:" + rl[0] + (":" + rl[1] if rl[1] else ""), "the edited document does not dump/reload with yamlpath's own editor and strict loader: %r" % rl[2][:200], rep))
        elif rl[0] == "ok" and case["fmt"] in FMT_RELOADABLE and rl[1] != codec.strip_anchors(after):
            viol.append(("reload:data-differs", "dump + strict reload of the edited document yields different data: %r" % rl[2][:200], rep))
        elif rl[0] == "ok" and len(rl) > 3 and rl[1] == codec.strip_anchors(after):
            # "every ... anchor of the document is exactly as before": the anchor NAMES the reloaded nodes carry
            bump("reload:anchor-names-compared")
            if rl[3] != ed.anchor_seq(after):
                viol.append(("reload:anchor-names-differ", "after set_value(%s, %r, %s): %s: %r" % (
                    case["path"], case["v"][1], case["fmt"], anchor_diff(after, rl[3]), rl[2][:200]), rep))
    if len(samples) < 2 and len(addrs) > 1:
        samples.append({"path": case["path"], "addrs": addrs, "v": case["v"], "fmt": case["fmt"]})


def _key(case):
    import hashlib
    return hashlib.blake2b(json.dumps([case["doc"], case.get("path"), case.get("v"), case.get("fmt"), case.get("steps")],
                                      sort_keys=True).encode(), digest_size=8).hexdigest()


# --------------------------------------------------------------------------- histories

def make_step(rng, j):
    """One concrete step for the current document: ("set"|"delete"|"create", path, value, fmt)."""
    r = rng.random()
    v = rng.choice(ed.VALUES)
    fmt = rng.choice(ed.FORMATS)
    if r < 0.45:
        return {"o": "set", "path": ed.gen_path(rng, j), "v": [v[0], v[1]], "fmt": fmt}
    if r < 0.72:
        return {"o": "delete", "path": ed.gen_path(rng, j)}
    from harness.props import c09
    segs = c09.gen_segs(rng, j)
    return {"o": "create", "segs": segs, "path": c09.path_text(segs), "v": [v[0], v[1]], "fmt": fmt}


def run_history(case, bump):
    """The real side of one history: every step on the real document, a snapshot after each, and the model requests
    (one per step from the real document before it, plus the whole history threaded through the model)."""
    from yamlpath import Processor
    from yamlpath.enums import YAMLValueFormats
    j0 = case["doc"]
    doc = ed.build(j0)
    proc = Processor(core.quiet_logger(), doc)
    cur = j0
    reqs, expect, ops, done = [], [], [], []
    for st in case["steps"]:
        rng = random.Random(st["seed"])
        step = st.get("step") or make_step(rng, cur)
        st["step"] = step
        if step["o"] in ("set", "delete"):
            g = ed.gather(cur, step["path"], step["o"], twin=copy.deepcopy(proc.data))
            if g[0] != "ok" or not g[1]:
                bump("history-step-skipped:" + g[0])
                continue
            addrs = [p[0] for p in g[1]] if step["o"] == "set" else g[1]
            if step["o"] == "set" and (any(p[1] for p in g[1]) or ed.nested(addrs)):
                bump("history-step-skipped:name-or-nested")
                continue
        v = step.get("v", [None, None])[1]
        if step["o"] == "set":
            fn = lambda: proc.set_value(step["path"], v, mustexist=True, value_format=YAMLValueFormats[step["fmt"]])  # noqa
            op = {"o": "set", "addrs": addrs, "v": codec.scalar_to_json(v), "fmt": step["fmt"]}
        elif step["o"] == "delete":
            fn = lambda: list(proc.delete_nodes(step["path"]))  # noqa
            op = {"o": "delete", "addrs": addrs}
        else:
            fn = lambda: proc.set_value(step["path"], v, value_format=YAMLValueFormats[step["fmt"]])  # noqa
            op = {"o": "create", "segs": step["segs"], "v": codec.scalar_to_json(v), "fmt": step["fmt"]}
        res = ed.guarded(fn)
        after = ed.snapshot(proc.data)
        reqs.append({"op": "C03.history", "doc": cur, "ops": [op]})
        expect.append((step, res, cur, after))
        if res[0] == "ok":
            ops.append(op)
            done.append(step)
        elif after != cur:
            # a failing step that changed the document ends the comparable part of the history
            break
        cur = after
        bump("history-step:" + step["o"])
    if not reqs:
        return None
    reqs.append({"op": "C03.history", "doc": j0, "ops": ops})
    return reqs, case, expect, cur


def judge_history(h, ans, bump, viol, disag, keys, stats):
    _reqs, case, expect, cur = h
    j0 = case["doc"]
    rep = {"doc": j0, "steps": case["steps"], "history": True}
    effective = 0
    for (step, res, before, after), a in zip(expect, ans):
        m = a["steps"][0]
        if m.get("err") == "outOfModel":
            stats["oom"] += 1
            return
        what = "history step %s %s" % (step["o"], step["path"])
        if res[0] == "timeout" or (res[0].startswith("crash") and m.get("err") != res[0]):
            # (a crash the model predicts - a create step whose negative index lies below the list: IndexError, document
            # unchanged - is the evaluator's refusal, counted by C09 as not judged)
            viol.append(("history:%s@%s" % (res[0], res[1]), what + " raised " + res[0], rep))
            return
        if "err" in m:
            if res[0] == "ok":
                disag.append(("history:model-errs-impl-ok", what + ": model says %s" % m["err"], rep))
                return
            if after != before:
                bump("note:history-ended-by-failed-step-with-partial-change")
                break
            continue
        if res[0] != "ok":
            viol.append(("history:unexpected-error:" + step["o"], what + " raised a YAML Path error; the model performs it", rep))
            return
        if after != m["ok"]:
            sig = "history:" + step["o"] + ":" + (classify(before, m["ok"], after) if step["o"] == "set" else "differs")
            viol.append((sig, what + ": document differs from the model after this step", rep))
            return
        if after != before:
            effective += 1
    final = ans[-1]["steps"][-1] if ans[-1]["steps"] else {"ok": j0}
    if "ok" in final and final["ok"] != cur and not any(r[1][0] != "ok" for r in expect):
        disag.append(("history:final-state", "threaded model history ends in a different document", rep))
    if effective >= 2:
        keys.append(_key(rep))
