"""Shared by C03, C04, C09: document / path / value generators, the bridge from real NodeCoords to
addresses, and the runners that apply one edit to the real Processor and to the Lean edit model.

Decoupling from the evaluator: the matched nodes of a path are obtained from the REAL evaluator
on a twin copy of the document (built from the same canonical JSON), converted to addresses, and
handed to the model; the real edit then runs on the real document and the WHOLE documents are
compared (canonical JSON incl. anchors)."""
from __future__ import annotations

import io
import json
import os
import signal
import tempfile

from harness import core, codec


class Timeout(Exception):
    pass


def _alarm(_s, _f):
    raise Timeout()


def guarded(fn, limit_s=10.0):
    """Run fn() under a timer; returns ("ok", value) | ("ypath"| "crash:<T>" | "timeout", site, exc)."""
    old = signal.signal(signal.SIGVTALRM, _alarm)
    signal.setitimer(signal.ITIMER_VIRTUAL, limit_s)
    try:
        return ("ok", fn())
    except Timeout:
        return ("timeout", "?", None)
    except RecursionError as e:
        return ("crash:RecursionError", core.crash_site(e), e)
    except Exception as e:  # noqa
        return (core.exc_class(e), core.crash_site(e), e)
    finally:
        signal.setitimer(signal.ITIMER_VIRTUAL, 0)
        signal.signal(signal.SIGVTALRM, old)


# --------------------------------------------------------------------------- documents

KEYS = ["a", "b", "c", "ab", "x", "l", "k"]
SCALARS = [{"k": "int", "v": "1"}, {"k": "int", "v": "1"}, {"k": "int", "v": "2"}, {"k": "int", "v": "0"},
           {"k": "str", "v": "a"}, {"k": "str", "v": "b"}, {"k": "str", "v": "x"}, {"k": "str", "v": "ab"},
           {"k": "str", "v": "a"}, {"k": "bool", "v": True}, {"k": "bool", "v": False}, {"k": "null"},
           {"k": "float", "m": "15", "e": -1}, {"k": "str", "v": ""}, {"k": "int", "v": "-1"},
           {"k": "str", "v": "l"}, {"k": "str", "v": "k"}, {"k": "int", "v": "300"}, {"k": "str", "v": "long text"}]
ANCHORS = ["x", "y"]


def gen_node(rng, depth, st):
    """Random canonical document node.  st: {"anch": {name: scalar-json}}; only scalars carry anchors."""
    r = rng.random()
    if depth <= 0 or r < 0.38:
        if st["anch"] and rng.random() < 0.30:
            name = rng.choice(sorted(st["anch"]))
            return dict(st["anch"][name], a=name)
        s = dict(rng.choice(SCALARS))
        if s["k"] != "null" and len(st["anch"]) < 2 and rng.random() < 0.22:
            name = ANCHORS[len(st["anch"])]
            st["anch"][name] = dict(s)
            s["a"] = name
        return s
    if r < 0.66:
        n = rng.choice([0, 1, 2, 2, 3, 3, 4, 5])
        return {"k": "seq", "i": [gen_node(rng, depth - 1, st) for _ in range(n)]}
    if r < 0.96:
        n = rng.choice([0, 1, 2, 2, 3, 3, 4])
        ks = rng.sample(KEYS, min(n, len(KEYS)))
        if ks and rng.random() < 0.08:
            ks[0] = 1
        return {"k": "map", "e": [[k, gen_node(rng, depth - 1, st)] for k in ks]}
    ms = rng.sample(["a", "b", "x", "ab"], rng.choice([1, 2, 3]))
    return {"k": "set", "m": ms}


def gen_doc(rng, depth=3):
    st = {"anch": {}}
    n = rng.choice([2, 3, 3, 4, 5])
    if rng.random() < 0.15:
        return {"k": "seq", "i": [gen_node(rng, depth - 1, st) for _ in range(n)]}
    ks = rng.sample(KEYS, n)
    return {"k": "map", "e": [[k, gen_node(rng, depth - 1, st)] for k in ks]}


def all_addrs(j, pre=()):
    """(address, node-json) of every node below the root, document order."""
    out = []
    if j["k"] == "map":
        for k, v in j["e"]:
            a = pre + (("k", k),)
            out.append((a, v))
            out += all_addrs(v, a)
    elif j["k"] == "seq":
        for i, v in enumerate(j["i"]):
            a = pre + (("i", i),)
            out.append((a, v))
            out += all_addrs(v, a)
    return out


def path_of_addr(addr, rng=None, doc=None):
    """A YAML Path text (dot notation) leading to the address; sequences sometimes by negative index."""
    parts = []
    cur = doc
    for kind, ref in addr:
        if kind == "k":
            parts.append(str(ref))
            if cur is not None:
                cur = dict((str(k), v) for k, v in cur["e"]).get(str(ref))
        else:
            n = len(cur["i"]) if cur is not None else None
            if rng is not None and n and rng.random() < 0.25:
                parts.append("[%d]" % (ref - n))
            else:
                parts.append("[%d]" % ref)
            if cur is not None:
                cur = cur["i"][ref]
    text = ""
    for p in parts:
        if p.startswith("["):
            text += p
        else:
            text += ("." if text else "") + p
    return text


SEARCHES = ["[.=1]", "[.=a]", "[.^a]", "[.=~/^[ab]/]", "[.!=1]", "[.>0]", "[.%b]", "*", "**", "*[.=1]", "**[.=a]",
            "[has_child(a)]", "[!has_child(a)]", "[name()]", "[parent()]", "[max()]", "[min()]", "[unique()]", "[distinct()]",
            "[0]", "[-1]", "[1]", "[0:2]", "[1:3]", "[1:1]", "a", "b", "ab", "x", "l", "&x", "[&x]"]


def gen_path(rng, doc, want="any"):
    """A path text for the document: exact paths to nodes, wildcards, searches, slices, keyword
    searches, anchors and collector expressions over them."""
    nodes = all_addrs(doc)
    if not nodes:
        return "*"
    r = rng.random()

    def base():
        a, _ = rng.choice(nodes)
        return path_of_addr(a, rng, doc)

    def prefix():
        a, _ = rng.choice(nodes)
        return path_of_addr(a[:-1], rng, doc)

    def join(p, s):
        if not p:
            return s if not s.startswith("[") else s
        if s.startswith("[") or s.startswith("&") and False:
            return p + s
        return p + "." + s
    if r < 0.30:
        return base()
    if r < 0.62:
        return join(prefix(), rng.choice(SEARCHES))
    if r < 0.72:
        return join(join(prefix(), rng.choice(SEARCHES)), rng.choice(SEARCHES))
    if r < 0.80:
        return rng.choice(["**", "*", "**[.=1]", "**[.=a]", "**[.^a]", "*.*", "**.a", "/**/l/*", "*[.=~/./]"])
    # collectors
    op = rng.choice(["+", "+", "-", "&"])
    lhs = rng.choice([base(), join(prefix(), rng.choice(SEARCHES))])
    rhs = rng.choice([base(), lhs, join(prefix(), rng.choice(SEARCHES))])
    if rng.random() < 0.12:
        rhs = "/"
    text = "(%s)%s(%s)" % (lhs, op, rhs)
    if rng.random() < 0.25:
        text += rng.choice(["[0]", ".a", "[name()]", ".*"])
    return text


VALUES = [("int", 5), ("int", 1), ("int", 0), ("str", "5"), ("str", "a"), ("str", "b"), ("str", "new"), ("str", "true"),
          ("str", "False"), ("str", "1.50"), ("str", "-3"), ("str", "None"), ("str", ""), ("str", "x y"), ("str", "yes"),
          ("bool", True), ("bool", False), ("null", None), ("float", 1.5), ("float", 10.0), ("float", 5.0), ("float", -0.25),
          ("float", 1000.0), ("float", 0.0), ("str", "10.0"), ("str", "+7"), ("int", -12), ("str", "a-b"), ("str", "inf"),
          ("int", 300), ("float", 123.456)]
FORMATS = ["DEFAULT", "DEFAULT", "DEFAULT", "DEFAULT", "BARE", "DQUOTE", "SQUOTE", "FOLDED", "LITERAL", "BOOLEAN",
           "FLOAT", "INT"]


def value_json(v):
    return codec.scalar_to_json(v[1])


# --------------------------------------------------------------------------- bridge

def build(j):
    return codec.json_to_ruamel(j)


def snapshot(data):
    return codec.node_to_json(data, anchors=True)


def norm_ref(parent, parentref):
    if isinstance(parent, list) and isinstance(parentref, int) and not isinstance(parentref, bool) and parentref < 0:
        parentref += len(parent)
    return codec.ref_of(parent, parentref)


def flatten_for_delete(ncs, table, out):
    """The real DOM references behind gathered NodeCoords, in gather order (virtual collector /
    slice results opened up as `_delete_nodes` does)."""
    from yamlpath.wrappers import NodeCoords
    for nc in ncs:
        node = nc.node
        if isinstance(node, list) and len(node) > 0 and isinstance(node[0], NodeCoords):
            flatten_for_delete(node, table, out)
        elif isinstance(node, NodeCoords):
            flatten_for_delete([node], table, out)
        else:
            out.append(addr_of(nc, table))


def flatten_for_set(nc, table, out):
    """Mirror of the traversal of `_apply_change` (note: a NodeCoords wrapping a NodeCoords is
    applied to the inner one AND then treated itself)."""
    from yamlpath.wrappers import NodeCoords
    from yamlpath.path.searchkeywordterms import SearchKeywordTerms
    from yamlpath.enums import PathSearchKeywords
    node = nc.node
    if isinstance(node, NodeCoords):
        flatten_for_set(node, table, out)
    if isinstance(node, list) and len(node) > 0 and isinstance(node[0], NodeCoords):
        for x in node:
            flatten_for_set(x, table, out)
        return
    seg = nc.path_segment
    is_name = False
    if seg is not None:
        sv = seg[1]
        is_name = isinstance(sv, SearchKeywordTerms) and sv.keyword is PathSearchKeywords.NAME
    out.append((addr_of(nc, table), is_name))


class NotLocated(codec.OutOfModel):
    """The evaluator handed out a NodeCoords whose (parent, parentref) does not lead to a node
    (C02's subject, not judged here)."""


def addr_of(nc, table):
    from ruamel.yaml.comments import CommentedSet
    parent, ref = nc.parent, nc.parentref
    if parent is None:
        return []
    base = table.get(id(parent))
    if base is None:
        raise codec.OutOfModel("detached parent")
    if isinstance(parent, (CommentedSet, set)):
        ok = ref in parent
    elif isinstance(parent, dict):
        try:
            ok = ref in parent
        except TypeError:
            ok = False
    elif isinstance(parent, list):
        ok = isinstance(ref, int) and not isinstance(ref, bool) and -len(parent) <= ref < len(parent)
    else:
        ok = False
    if not ok:
        raise NotLocated("parentref %r not in parent" % (ref,))
    return base + [norm_ref(parent, ref)]


def gather(j, path, mode, twin=None):
    """Matched addresses of `path` on a twin of the document.  Returns
    ("ok", addrs-or-(addr,is_name) list) | ("err", class, site) | ("impure",) | ("oom", why).
    `twin`: a ready-made twin whose canonical form is `j` (histories pass a deep copy of the living document: the
    canonical form does not tell ruamel's ScalarInt / quoted-string objects, which earlier steps leave behind, from the
    plain int / str that `build` makes, and Searches compares the two kinds differently)."""
    from yamlpath import Processor
    if twin is None:
        twin = build(j)
    table = codec.build_addr_table(twin)
    proc = Processor(core.quiet_logger(), twin)
    res = guarded(lambda: list(proc.get_nodes(path, mustexist=True)))
    if res[0] != "ok":
        return ("err", res[0], res[1])
    try:
        if snapshot(twin) != j:
            return ("impure",)
        out = []
        if mode == "delete":
            flatten_for_delete(res[1], table, out)
        else:
            for nc in res[1]:
                flatten_for_set(nc, table, out)
        return ("ok", out)
    except NotLocated as e:
        return ("notlocated", str(e))
    except codec.OutOfModel as e:
        return ("oom", str(e))


def nested(addrs):
    """True if one address is a proper prefix of another."""
    s = [tuple(map(tuple, a)) for a in addrs]
    for a in s:
        for b in s:
            if len(a) < len(b) and b[:len(a)] == a:
                return True
    return False


def has_dup(addrs):
    s = [json.dumps(a) for a in addrs]
    return len(set(s)) != len(s)


def unsorted_siblings(addrs):
    """True if two addresses with the same parent list appear in non-increasing index order."""
    last = {}
    for a in addrs:
        if a and a[-1][0] == "i":
            p = json.dumps(a[:-1])
            if p in last and last[p] >= a[-1][1]:
                return True
            last[p] = max(last.get(p, -1), a[-1][1])
    return False


# --------------------------------------------------------------------------- comparison helpers

def flat(j, pre=()):
    """address -> shallow description of every node (root included)."""
    out = {}
    k = j["k"]
    if k == "map":
        out[pre] = ("map", j.get("a"), tuple(str(type(x[0]).__name__) + ":" + str(x[0]) for x in j["e"]))
        for kk, v in j["e"]:
            out.update(flat(v, pre + (("k", kk),)))
    elif k == "seq":
        out[pre] = ("seq", j.get("a"), len(j["i"]))
        for i, v in enumerate(j["i"]):
            out.update(flat(v, pre + (("i", i),)))
    elif k == "set":
        out[pre] = ("set", j.get("a"), tuple(j["m"]))
    else:
        out[pre] = ("scalar", json.dumps(j, sort_keys=True))
    return out


def differing(ja, jb):
    fa, fb = flat(ja), flat(jb)
    return sorted((a for a in set(fa) | set(fb) if fa.get(a) != fb.get(a)), key=lambda a: (len(a), str(a)))


def err_class(s):
    """model error text -> harness class: ypath:* -> ypath"""
    if s.startswith("ypath"):
        return "ypath"
    return s


def anchor_seq(j):
    """Anchor name (or None) of every value node of a canonical document, in document order (set members: none)."""
    out = [j.get("a")]
    if j["k"] == "map":
        for _, v in j["e"]:
            out += anchor_seq(v)
    elif j["k"] == "seq":
        for v in j["i"]:
            out += anchor_seq(v)
    return out


def text_anchor_seq(text):
    """The same for a YAML text, from ruamel's composed node graph (an alias is the anchored node itself)."""
    from ruamel.yaml import YAML
    from ruamel.yaml.nodes import MappingNode, SequenceNode
    try:
        root = YAML().compose(text)
    except Exception:  # noqa
        return None

    def walk(n):
        out = [n.anchor or None]
        if isinstance(n, MappingNode) and not str(n.tag).endswith(":set"):
            for _, v in n.value:
                out += walk(v)
        elif isinstance(n, SequenceNode):
            for v in n.value:
                out += walk(v)
        return out
    return walk(root) if root is not None else [None]


def dump_reload(data):
    """Dump with the tool's own editor, reload with the strict loader.  Returns ("ok", plain-json)
    | ("dump-failed", T) | ("reload-failed",)."""
    from yamlpath.common import Parsers
    yaml = Parsers.get_yaml_editor()
    buf = io.StringIO()
    try:
        yaml.dump(data, buf)
    except Exception as e:  # noqa
        return ("dump-failed", type(e).__name__, "")
    text = buf.getvalue()
    fd, fn = tempfile.mkstemp(prefix="ypv-g4-", suffix=".yaml")
    try:
        os.write(fd, text.encode("utf-8"))
        os.close(fd)
        try:
            (back, ok) = Parsers.get_yaml_data(Parsers.get_yaml_editor(), core.quiet_logger(), fn)
        except Exception as e:  # noqa
            return ("reload-crashed", type(e).__name__, text)
    finally:
        os.unlink(fn)
    if not ok:
        return ("reload-failed", "", text)
    try:
        # 4th element: the anchor name (or None) of every value node of the DUMPED TEXT in document order, read from the
        # composed node graph (the constructor drops the anchor of some scalars, e.g. `&x 0`, so objects will not do)
        return ("ok", codec.node_to_json(back, anchors=False), text, text_anchor_seq(text))
    except codec.OutOfModel as e:
        return ("oom", str(e), text)
