"""C19 — EYAML key rotation re-keys every secret once and touches nothing else.

The real `eyaml_rotate_keys.main()` runs in-process on generated files with a deterministic stand-in
`eyaml` executable (harness/tools/fake_eyaml); the Lean model (Ypv/Model/Rotate.lean, same stand-in
cipher) rotates the same document."""
from __future__ import annotations

import itertools
import json
import os
import random
import shutil
import signal
import sys
import tempfile

from harness import core, codec

RULE = ("seeded random YAML files (plus a fixed corpus) mixing plaintext scalars with secrets of the stand-in cipher at "
        "arbitrary positions: mapping values, sequence elements, nested, anchored with aliases (scalars and containers), "
        "plain / quoted-with-blanks / folded / literal layouts, double-quoted scalars padded with 0..40 blanks and line breaks, "
        "literal and folded blocks with an indentation indicator whose marker comes after empty lines and up to 40 extra "
        "blanks (also with the line break inside the marker), near-miss markers, values under a foreign key, plaintexts "
        "with trailing blanks or looking encrypted, plaintexts that BEGIN with blanks, a tab or empty lines (indented "
        "snippets, padded passphrases; loss of leading white space has its own signature, apart from the known loss of "
        "trailing white space), plaintexts with CR LF or a lone CR in their interior (certificates / keys / scripts with Windows or "
        "old-Mac line endings, in string and block layouts, bare and anchored+aliased: the plaintext under the new key is compared "
        "EXACTLY, character by character, by the harness's own reference cipher on the loaded document - no pipe, no line-ending "
        "normalisation; signature plaintext-carriage-return-changed), values that BEGIN with the marker but hold no well-formed "
        "token (closing bracket lost / replaced, truncated, tail overwritten) in every layout - one line, folded, literal, "
        "double-quoted with blanks / continued over several lines, padded - alone in the file, beside an ordinary secret, anchored "
        "and aliased: the stand-in, like hiera-eyaml, prints such input back unchanged with status 0 (a well-formed token under a "
        "foreign key or with a corrupt body: status 1), and is byte-exact on input and output; clause judged: when the run exits 0 "
        "EVERY value treated as encrypted (marker rule) decrypts under the new keys - a value that decrypted under neither the old "
        "keys before nor the new keys after a run that exits 0 is success-with-undecryptable (a non-zero status claims nothing); "
        "the real eyaml_rotate_keys.main() runs with --backup and "
        "harness/tools/fake_eyaml on ONE file, or on 2-3 files in one invocation whose secrets carry the same anchor names "
        "(every file judged by itself).  Direct check when the exit status is 0: every encrypted value of every file "
        "decrypts under the new key to its old plaintext and no longer under the old key, is still an encrypted value, "
        "aliases of one anchor are still one object, everything else (keys, order, anchors, plain values) is unchanged, the "
        "stand-in was called once per distinct secret; a file without secrets is neither rewritten nor backed up.  The same "
        "clauses on successful runs repeated with the k-th encrypt / decrypt call of the stand-in misbehaving (prints "
        "nothing or only blanks with exit 0, exits 1) for every k, on string- and block-format secrets: a run that exits 0 "
        "must have re-keyed everything; a non-zero status claims nothing.  Key-argument mixes: corpus files, multi-file groups "
        "and a sample of the random files run again with the new pair = the old pair, only --newpublickey = --oldpublickey, "
        "only --newprivatekey = --oldprivatekey (the stand-in is key-pair sensitive: a value encrypted with public key <id> "
        "decrypts only under a pair whose private AND public key have that id): whenever such a run exits 0 every secret must "
        "decrypt under the NEW pair as given and not under the old pair (a refusal claims nothing; these runs have no model "
        "counterpart and are judged by the direct clauses only).  Correspondence: document after the run "
        "(secrets compared without blanks/line breaks), exit status, written/not written, numbers of decrypt and encrypt "
        "calls equal the Lean model's, file by file (of a run that exits non-zero only the status is compared).  "
        "is_eyaml_value is compared with the model's isEyaml and the rule on every string of length "
        "<= 7 over {E,N,C,[,blank,newline,x} (exhaustive) and on a structured family: 0..40 blanks/line breaks in five "
        "rhythms before the marker, inside it at one or every gap, and both, for ENC[ and seven near misses, four tails.  "
        "distinct_nontrivial = distinct runs over documents holding >= 1 secret.")

FAKE_EYAML = os.path.join(core.HERE, "tools", "fake_eyaml")
SCRATCH_ROOT = os.path.join(core.VERIF, "out", "scratch")
KEYS = {"pub1": "FAKE-PUBLIC k1\n", "priv1": "FAKE-PRIVATE k1\n", "pub2": "FAKE-PUBLIC k2\n", "priv2": "FAKE-PRIVATE k2\n"}
OLD, NEW = "k1", "k2"
# key-argument mixes: name -> (file given as --newprivatekey, file given as --newpublickey); the old pair is priv1/pub1
KEY_MIXES = {"all-different": ("priv2", "pub2"), "same-pair": ("priv1", "pub1"), "same-public": ("priv2", "pub1"),
             "same-private": ("priv1", "pub2")}
MIX_SIG = {"same-pair": "new-pair-is-the-old-pair", "same-public": "new-public-key-is-the-old-one",
           "same-private": "new-private-key-is-the-old-one"}
KEY_ID = {"priv1": "k1", "pub1": "k1", "priv2": "k2", "pub2": "k2"}


# --------------------------------------------------------------------------- reference cipher

def enc(kid, plain):
    return "ENC[FAKE,%s,%s]" % (kid, plain.encode("utf-8").hex())


def clean(s):
    return s.replace("\n", "").replace(" ", "")


def dec(kid, cipher):
    """what the stand-in prints for the cleaned ciphertext, None when it exits non-zero"""
    import re
    m = re.fullmatch(r"ENC\[FAKE,([a-z0-9]+),((?:[0-9a-f]{2})*)\]", re.sub(r"\s+", "", cipher))
    if not m or m.group(1) != kid:
        return None
    try:
        return bytes.fromhex(m.group(2)).decode("utf-8")
    except Exception:
        return None


def dec_new(mix, cipher):
    """plaintext under the NEW pair of a key-argument mix: a pair whose halves do not belong together decrypts nothing"""
    priv, pub = KEY_MIXES[mix or "all-different"]
    if KEY_ID[priv] != KEY_ID[pub]:
        return None
    return dec(KEY_ID[priv], cipher)


def lead(s):
    return s[:len(s) - len(s.lstrip())]


def eol(s):
    """`s` with every line ending written as LF (only to NAME a difference; equality of plaintexts is judged on the exact text)"""
    return s.replace("\r\n", "\n").replace("\r", "\n")


def is_marker(s):
    """the property's rule, written independently of the code under test"""
    return isinstance(s, str) and "".join(ch for ch in s if ch not in " \n")[:4] == "ENC["


# --------------------------------------------------------------------------- document generator

PLAINTEXTS = ["hello", "s3cret!", "p@ss w0rd", "multi word secret value that is fairly long so that blocks wrap around",
              "x", "a:b", "#not-a-comment", "tab\there", "0", "true", "line1\nline2"]
# plaintexts that begin with white space (no trailing white space: that is the known C19-F1)
LEADING_PLAINTEXTS = ["  indented", "\tleading tab", "\nblank first line", "    key: value\n    other: 2", " x",
                      "\n\n  two empty lines first", "   padded passphrase", "\t\tif x:\n\t\t\treturn 1", " \t mixed lead"]
PLAINTEXTS += LEADING_PLAINTEXTS[:5]
ODD_PLAINTEXTS = ["trailing blank ", "trailing newline\n", enc("k1", "inner"), "   ", "  padded both ends  ", "\nlines around\n"]
NEAR = ["ENC", "enc[FAKE,k1,00]", "XENC[FAKE,k1,00]", "ENC(FAKE)", "E-N-C-[", "[ENC[", "plain text", ""]
BROKEN = ["ENC[x", "E N C [ garbage", "ENC[FAKE,k9,6869]", "ENC[PKCS7,Zm9v]", "ENC[FAKE,k1,zz]"]
# plaintexts with a carriage return in their INTERIOR (Windows / old-Mac line endings of certificates, keys, scripts);
# none ends in white space (that is the known C19-F1)
CR_PLAINTEXTS = ["line1\r\nline2", "-----BEGIN CERTIFICATE-----\r\nMIIBszCCAVmgAwIBAgIU\r\nq8fPz0n=\r\n-----END CERTIFICATE-----",
                 "a\rb", "old\rmac\rline endings", "mixed\r\nkinds\nof\rbreaks", "user=joe\r\npass=x\r\n\r\n[end]",
                 "\r\nbegins with CR LF", "cr\r\r\ntwice"]
PLAINTEXTS += CR_PLAINTEXTS[:4]


def malformed(pt, how):
    """a value that begins with the marker but holds NO well-formed token (eyaml prints such text back unchanged, status 0)"""
    c = enc(OLD, pt)
    if how == "no-bracket":
        return c[:-1]
    if how == "truncated":
        return c[:max(8, len(c) * 2 // 3)]
    if how == "bracket-replaced":
        return c[:-1] + ")"
    return c[:-1] + "=="        # "tail-lost": the end of the token was overwritten


MALFORMED_HOW = ("no-bracket", "truncated", "bracket-replaced", "tail-lost")
# layouts in which the node text differs from its white-space-free form (and "plain", where it does not)
SPREAD = ("folded", "literal", "quoted-blanks", "quoted-lead", "quoted-pad", "literal-deep", "folded-deep", "quoted-lines")


PADDED = ("quoted-pad", "literal-deep", "folded-deep")
MAXPAD = 40


def white(r, k, layout):
    """k blanks / line breaks that precede the marker of a padded secret"""
    if layout == "quoted-pad":
        how = r.choice(["blanks", "blanks", "breaks", "mixed"])
        return "".join(" " if how == "blanks" else "\n" if how == "breaks" else r.choice(" \n") for _ in range(k))
    nb = r.randint(0, min(3, k))
    return "\n" * nb + " " * (k - nb)


class Gen:
    def __init__(self, rng, odd=0.0, p_anchor=0.3):
        self.rng = rng
        self.p_anchor = p_anchor
        self.n_anchor = 0
        self.scalar_anchors = []      # names of anchored secret scalars (aliasable later)
        self.container_anchors = []
        self.odd = odd

    def secret_leaf(self):
        r = self.rng
        pt = r.choice(ODD_PLAINTEXTS) if r.random() < self.odd else r.choice(PLAINTEXTS)
        c = enc(OLD, pt)
        layout = r.choice(["plain", "plain", "plain", "folded", "folded", "literal", "quoted-blanks", "quoted-lead",
                           "quoted-pad", "literal-deep", "folded-deep", "quoted-lines"])
        anchor = None
        if r.random() < self.p_anchor:
            self.n_anchor += 1
            anchor = "s%d" % self.n_anchor
        if layout in PADDED:
            return ("leaf", anchor, ("secret", layout, c, white(r, r.randint(0, MAXPAD), layout)))
        return ("leaf", anchor, ("secret", layout, c))

    def leaf(self, p_secret):
        r = self.rng
        x = r.random()
        if x < p_secret:
            return self.secret_leaf()
        if x < p_secret + 0.08 and self.scalar_anchors:
            return ("alias", r.choice(self.scalar_anchors))
        if x < p_secret + 0.12 and self.container_anchors:
            return ("alias", r.choice(self.container_anchors))
        if x < p_secret + 0.16:
            return ("leaf", None, ("str", r.choice(NEAR)))
        if x < p_secret + 0.16 + self.odd * 0.3:
            # a value that looks encrypted but is not a decryptable token, in any layout
            c = r.choice(BROKEN) if r.random() < 0.4 else malformed(r.choice(PLAINTEXTS), r.choice(MALFORMED_HOW))
            layout = r.choice(("plain",) + SPREAD)
            if layout in PADDED:
                return ("leaf", None, ("secret", layout, c, white(r, r.randint(0, 12), layout)))
            return ("leaf", None, ("secret", layout, c))
        k = r.choice(["int", "str", "bool", "null", "str"])
        if k == "int":
            return ("leaf", None, ("int", r.randint(-5, 99)))
        if k == "bool":
            return ("leaf", None, ("bool", r.random() < 0.5))
        if k == "null":
            return ("leaf", None, ("null", None))
        return ("leaf", None, ("str", r.choice(["v", "some text", "1.5x", "yes please", "ENCODE", "k: v"])))

    def node(self, depth, p_secret):
        r = self.rng
        if depth <= 0 or r.random() < 0.45:
            n = self.leaf(p_secret)
            if n[0] == "leaf" and n[1]:
                self.scalar_anchors.append(n[1])
            return n
        anchor = None
        if r.random() < 0.15:
            self.n_anchor += 1
            anchor = "c%d" % self.n_anchor
        if r.random() < 0.5:
            keys = []
            for i in range(r.randint(1, 4)):
                k = "k%d" % i
                if r.random() < 0.08:
                    k = r.choice(["dotted.key", "sp ace", "sl/ash", "q'uote", "amp&er", "7"])
                if k not in keys:
                    keys.append(k)
            n = ("map", anchor, [(k, self.node(depth - 1, p_secret)) for k in keys])
        else:
            n = ("seq", anchor, [self.node(depth - 1, p_secret) for _ in range(r.randint(1, 4))])
        if anchor:
            self.container_anchors.append(anchor)
        return n


def scalar_text(val, indent):
    """YAML text of a leaf value: (inline text, following lines)"""
    kind = val[0]
    if kind == "int":
        return str(val[1]), []
    if kind == "bool":
        return ("true" if val[1] else "false"), []
    if kind == "null":
        return "null", []
    if kind == "str":
        return json.dumps(val[1]), []
    layout, c = val[1], val[2]
    pad = " " * (indent + 2)
    if layout == "quoted-pad":
        # a double-quoted scalar whose marker comes after up to MAXPAD blanks / line breaks
        return json.dumps(val[3] + c), []
    if layout in ("literal-deep", "folded-deep"):
        # block scalar with an explicit indentation indicator: leading empty lines and deeper-indented lines are content;
        # an odd amount of white space also puts a line break and the blanks INSIDE the marker (EN / C[)
        ws = val[3]
        nb, k = ws.count("\n"), ws.count(" ")
        parts = [c[i:i + 26] for i in range(0, len(c), 26)]
        if len(ws) % 2:
            parts = [c[:2]] + [c[i:i + 26] for i in range(2, len(c), 26)]
        return ("|2" if layout == "literal-deep" else ">2"), [""] * nb + [pad + " " * k + p for p in parts]
    if layout == "plain" and not c.startswith("ENC[FAKE"):
        return json.dumps(c), []
    if layout == "plain":
        return c, []
    if layout in ("folded", "literal"):
        parts = [c[i:i + 26] for i in range(0, len(c), 26)]
        return (">" if layout == "folded" else "|"), [pad + p for p in parts]
    if layout == "quoted-blanks":
        return json.dumps(c.replace(",", ", ")), []
    if layout == "quoted-lines":
        # a double-quoted scalar continued over several lines (the line breaks fold into blanks)
        parts = [c[i:i + 30] for i in range(0, len(c), 30)]
        if len(parts) < 2:
            parts = [c[:6], c[6:]] if len(c) > 6 else [c, ""]
        return '"' + parts[0], [pad + p for p in parts[1:-1]] + [pad + parts[-1] + '"']
    return json.dumps("  " + c), []


def emit(node, indent, lines, prefix):
    """append the YAML lines of `node`; `prefix` is what precedes it on its first line ('key: ' / '- ')."""
    pad = " " * indent
    kind = node[0]
    if kind == "alias":
        lines.append(pad + prefix + "*" + node[1])
        return
    anc = ("&%s " % node[1]) if node[1] else ""
    if kind == "leaf":
        text, more = scalar_text(node[2], indent)
        lines.append(pad + prefix + anc + text)
        lines.extend(more)
        return
    children = node[2]
    if not children:
        lines.append(pad + prefix + anc + ("{}" if kind == "map" else "[]"))
        return
    lines.append((pad + prefix + anc).rstrip())
    for ch in children:
        if kind == "map":
            k, v = ch
            ktxt = k if k.isalnum() and not k.isdigit() else json.dumps(k)
            emit(v, indent + 2, lines, ktxt + ": ")
        else:
            emit(ch, indent + 2, lines, "- ")


def doc_text(root):
    lines = []
    if root[0] in ("leaf", "alias"):
        emit(root, 0, lines, "")
        return "--- " + lines[0] + "\n" + "".join(l + "\n" for l in lines[1:])
    kind, _anc, children = root
    for ch in children:
        if kind == "map":
            k, v = ch
            ktxt = k if k.isalnum() and not k.isdigit() else json.dumps(k)
            emit(v, 0, lines, ktxt + ": ")
        else:
            emit(ch, 0, lines, "- ")
    return "".join(l + "\n" for l in lines)


CORPUS = [
    "a: plain\nb: %s\nc: &s %s\nd: *s\nl:\n  - x\n  - %s\n  - &t %s\n  - *t\n" % (enc(OLD, "hello"), enc(OLD, "sec"), enc(OLD, "l1"), enc(OLD, "l2")),
    "top:\n  f: >\n    %s\n    %s\n  n: 5\n" % (enc(OLD, "folded secret")[:20], enc(OLD, "folded secret")[20:]),
    "a: plain\nb: [1, 2]\nc: {d: ENCODE}\n",
    "base: &b\n  pw: %s\n  user: joe\nuse: *b\n" % enc(OLD, "shared container"),
    "base: &b\n  user: joe\nuse: *b\nz: %s\n" % enc(OLD, "beside shared container"),
    "- %s\n- - %s\n  - plain\n- k: %s\n" % (enc(OLD, "one"), enc(OLD, "two"), enc(OLD, "three")),
    "a: %s\nb: %s\n" % (enc(OLD, "good"), enc("k9", "foreign key")),
    "a: \"ENC [x\"\n",
    "--- %s\n" % enc(OLD, "root scalar"),
    "a: %s\n" % enc(OLD, "trailing blank "),
    "a: %s\n" % enc(OLD, enc(OLD, "inner")),
    "l:\n  - &x %s\n  - plain\nm:\n  r: *x\n  s: [*x, 1]\n" % enc(OLD, "alias in lists"),
    "\"dotted.key\": %s\n\"sp ace\": %s\n7: %s\n" % (enc(OLD, "d"), enc(OLD, "s"), enc(OLD, "i")),
    "a: |\n  %s\n  %s\n" % (enc(OLD, "literal block")[:15], enc(OLD, "literal block")[15:]),
    "",
]
# secrets whose plaintext begins with white space, in string and block layouts, bare and anchored
CORPUS += ["snippets:\n" + "".join("  s%d: %s%s\n" % (i, "&l%d " % i if i % 3 == 2 else "", enc(OLD, pt))
                                   for i, pt in enumerate(LEADING_PLAINTEXTS)) + "  again: *l2\nn: 1\n"]
CORPUS += ["f: >\n  %s\n  %s\nl:\n  - %s\n" % (enc(OLD, pt)[:18], enc(OLD, pt)[18:], enc(OLD, pt)) for pt in LEADING_PLAINTEXTS[:4]]
CORPUS += ["a: %s\n" % enc(OLD, pt) for pt in ODD_PLAINTEXTS[4:]]


# secrets whose plaintext holds CR LF / CR: string and block layouts, bare, anchored + aliased
CR_CORPUS = ["cert: %s\nblock: >\n  %s\n  %s\nshared: &c %s\nuse: *c\nn: 1\n" % (
    enc(OLD, CR_PLAINTEXTS[i]), enc(OLD, CR_PLAINTEXTS[i + 1])[:24], enc(OLD, CR_PLAINTEXTS[i + 1])[24:], enc(OLD, CR_PLAINTEXTS[(i + 2) % 8]))
    for i in (0, 2, 4, 6)]
CR_CORPUS += ["- %s\n- |\n  %s\n  %s\n" % (enc(OLD, CR_PLAINTEXTS[5]), enc(OLD, CR_PLAINTEXTS[1])[:30], enc(OLD, CR_PLAINTEXTS[1])[30:])]


def malformed_corpus(tier):
    """a value that begins with the marker, holds no well-formed token (closing bracket lost, truncated, ...) and is
    laid out in every way (one line, folded, literal, quoted with blanks / over several lines, padded): alone in the
    file, next to an ordinary secret, anchored and aliased"""
    out = []
    r = random.Random(1919)
    pts = ["hello", "a longer secret that makes the token wrap around in a block", "x"]
    n = 0
    for how in MALFORMED_HOW:
        for layout in ("plain",) + SPREAD:
            for pt in (pts if tier != "quick" else [pts[n % len(pts)]]):
                n += 1
                c = malformed(pt, how)
                val = ("secret", layout, c, white(r, r.randint(0, 9), layout)) if layout in PADDED else ("secret", layout, c)
                anchored = n % 3 == 0
                with_good = ("map", None, [("good", ("leaf", None, ("secret", "plain", enc(OLD, "ordinary")))),
                                           ("bad", ("leaf", "m" if anchored else None, val)),
                                           ("again", ("alias", "m") if anchored else ("leaf", None, ("int", n)))])
                out.append({"text": doc_text(with_good), "src": "malformed"})
                alone = ("seq", None, [("leaf", None, ("str", "plain")), ("leaf", None, val)]) if n % 2 else ("map", None, [("only", ("leaf", None, val))])
                out.append({"text": doc_text(alone), "src": "malformed"})
    return out


def padded_corpus(tier):
    """one secret after k = 0..MAXPAD blanks / line breaks (in front of and inside the marker) in every padded layout,
    next to an ordinary secret (so that the file is rewritten whatever happens to the padded one)"""
    out = []
    r = random.Random(19)
    for k in range(0, MAXPAD + 1):
        for layout in PADDED:
            if tier == "quick" and layout == "folded-deep" and k % 3:
                continue
            ws = (" " * k) if layout == "quoted-pad" else white(r, k, layout)
            root = ("map", None, [("plain", ("leaf", None, ("secret", "plain", enc(OLD, "ordinary")))),
                                  ("padded", ("leaf", "p" if k % 4 == 0 else None, ("secret", layout, enc(OLD, "padded by %d" % k), ws))),
                                  ("again", ("alias", "p") if k % 4 == 0 else ("leaf", None, ("int", k)))])
            out.append({"text": doc_text(root), "src": "padded"})
        ws = "".join(r.choice(" \n") for _ in range(k))
        out.append({"text": "only: %s\n" % json.dumps(ws + enc(OLD, "the only secret, after %d" % k)), "src": "padded"})
    return out


MULTI_CORPUS = [
    [0, 0], [0, 11, 0], [2, 0], [0, 2, 0], [3, 3], [11, 0], [1, 1], [5, 0, 1],
]


def gen_cases(chk, n, n_multi):
    cases = [{"text": t, "src": "corpus"} for t in CORPUS]
    cases += padded_corpus(chk.tier)
    cases += malformed_corpus(chk.tier)
    cases += [{"text": t, "src": "cr"} for t in CR_CORPUS]
    # several files in ONE invocation, the same anchor names on secrets of different files
    cases += [{"texts": [CORPUS[i] for i in grp], "src": "multi-corpus"} for grp in MULTI_CORPUS]
    rng = random.Random(chk.seed)
    for i in range(n):
        odd = 0.25 if i % 5 == 0 else 0.0
        g = Gen(rng, odd=odd)
        p_secret = rng.choice([0.0, 0.2, 0.35, 0.5])
        root = g.node(rng.randint(1, 4), p_secret)
        if root[0] in ("leaf", "alias") and rng.random() < 0.8:
            root = ("map", None, [("k0", root)]) if root[0] == "leaf" else ("map", None, [("k0", ("leaf", None, ("int", 1)))])
        cases.append({"text": doc_text(root), "src": "random"})
    for i in range(n_multi):
        texts = []
        for _f in range(rng.choice([2, 2, 3])):
            # a fresh generator per file numbers its anchors from s1 again: the files share anchor names
            g = Gen(rng, odd=0.0, p_anchor=rng.choice([0.3, 0.6, 0.9]))
            root = g.node(rng.randint(1, 3), rng.choice([0.0, 0.35, 0.5, 0.7]))
            if root[0] == "alias":
                root = ("leaf", None, ("int", 1))
            if root[0] == "leaf":
                root = ("map", None, [("k0", root)])
            texts.append(doc_text(root))
        cases.append({"texts": texts, "src": "multi-random"})
    # key-argument mixes: every corpus file under every mix, the multi-file groups and a sample of the random files under one
    mixes = [m for m in KEY_MIXES if m != "all-different"]
    extra = []
    for c in cases:
        if c["src"] == "corpus":
            extra += [dict(c, src="keys", keys=m) for m in mixes]
    pool = [c for c in cases if c["src"] in ("multi-corpus", "random", "multi-random")]
    for i, c in enumerate(pool[:8] + rng.sample(pool[8:], min(len(pool) - 8, max(60, n // 8)))):
        extra.append(dict(c, src="keys", keys=mixes[i % len(mixes)]))
    return cases + extra


def texts_of(case):
    return case["texts"] if "texts" in case else [case["text"]]


def witness(case):
    """the JSON that replays a case"""
    w = {"texts": case["texts"]} if "texts" in case else {"text": case["text"]}
    if case.get("fault"):
        w["fault"] = case["fault"]
    if case.get("keys"):
        w["keys"] = case["keys"]
    return w


# --------------------------------------------------------------------------- running the real tool

class Timeout(Exception):
    pass


def _alarm(_s, _f):
    raise Timeout()


def load_doc(path):
    from yamlpath.common import Parsers
    yaml = Parsers.get_yaml_editor()
    with open(path, "r", encoding="utf-8") as fh:
        return yaml.load(fh)


def share_classes(root):
    """anchor name -> number of distinct objects carrying it (1 = still shared)"""
    seen = {}
    stack = [root]
    visited = set()
    while stack:
        n = stack.pop()
        a = codec.anchor_of(n)
        if a:
            seen.setdefault(a, set()).add(id(n))
        if isinstance(n, (dict, list)) and not isinstance(n, str):
            if id(n) in visited:
                continue
            visited.add(id(n))
            stack.extend(n.values() if isinstance(n, dict) else n)
    return {a: len(ids) for a, ids in seen.items()}


def impl_run(texts, backup=True, fault=None, keys=None):
    """Run eyaml_rotate_keys.main() ONCE on files holding `texts`; `fault` = "<encrypt|decrypt>:<k>:<mode>" makes
    the k-th such call of the stand-in misbehave (see harness/tools/fake_eyaml)."""
    from yamlpath.commands import eyaml_rotate_keys
    d = tempfile.mkdtemp(prefix="c19-", dir=SCRATCH_ROOT)
    out = {"files": []}
    try:
        for k, v in KEYS.items():
            with open(os.path.join(d, k), "w") as fh:
                fh.write(v)
        paths = []
        for i, text in enumerate(texts):
            path = os.path.join(d, "t%d.yaml" % i)
            paths.append(path)
            with open(path, "wb") as fh:
                fh.write(text.encode("utf-8"))
            f = {}
            try:
                before = load_doc(path)
                f["before"] = codec.node_to_json(before)
                f["before_share"] = share_classes(before)
            except codec.OutOfModel as e:
                return {"out_of_model": str(e)}
            except Exception as e:  # the generated text is not loadable: not a case
                return {"unloadable": type(e).__name__}
            out["files"].append(f)
        logp = os.path.join(d, "eyaml.log")
        os.environ["YPV_EYAML_LOG"] = logp
        if fault:
            os.environ["YPV_EYAML_FAULT"] = fault
        argv = sys.argv
        newpriv, newpub = KEY_MIXES[keys or "all-different"]
        sys.argv = ["eyaml-rotate-keys"] + (["-b"] if backup else []) + ["-q", "-x", FAKE_EYAML, "-r", os.path.join(d, newpriv),
                                                                      "-u", os.path.join(d, newpub), "-i", os.path.join(d, "priv1"),
                                                                      "-c", os.path.join(d, "pub1")] + paths
        old = signal.signal(signal.SIGALRM, _alarm)
        signal.setitimer(signal.ITIMER_REAL, 600)   # wall clock (the run waits for eyaml subprocesses); generous: a loaded machine must not look like a hang
        devnull = open(os.devnull, "w")
        so, se = sys.stdout, sys.stderr
        sys.stdout = sys.stderr = devnull
        try:
            try:
                eyaml_rotate_keys.main()
                out["rc"] = 0
            except SystemExit as e:
                out["rc"] = e.code if isinstance(e.code, int) else (0 if e.code is None else 1)
            except Timeout:
                raise core.Infra("eyaml-rotate-keys did not finish within 600 s (machine overloaded?)")
            except Exception as e:  # noqa
                out["rc"] = "crash:%s@%s" % (type(e).__name__, core.crash_site(e))
        finally:
            signal.setitimer(signal.ITIMER_REAL, 0)
            signal.signal(signal.SIGALRM, old)
            sys.stdout, sys.stderr = so, se
            devnull.close()
            sys.argv = argv
            os.environ.pop("YPV_EYAML_LOG", None)
            os.environ.pop("YPV_EYAML_FAULT", None)
        calls = []
        if os.path.exists(logp):
            with open(logp) as fh:
                calls = [l.split(" ") for l in fh.read().split("\n") if l]
        out["encs"] = sum(1 for c in calls if c[0] == "encrypt")
        out["decs"] = sum(1 for c in calls if c[0] == "decrypt")
        out["enc_formats"] = [c[3] for c in calls if c[0] == "encrypt" and len(c) > 3 and c[1] != "FAULT"]
        out["fault_hit"] = any(len(c) > 1 and c[1] == "FAULT" for c in calls)
        for path, text, f in zip(paths, texts, out["files"]):
            with open(path, "rb") as fh:
                after_bytes = fh.read()
            f["rewritten"] = after_bytes != text.encode("utf-8")
            bak = path + ".bak"
            f["bak"] = None
            if os.path.exists(bak):
                with open(bak, "rb") as fh:
                    f["bak"] = fh.read() == text.encode("utf-8")
            try:
                after = load_doc(path)
                f["after"] = codec.node_to_json(after)
                f["after_share"] = share_classes(after)
            except codec.OutOfModel as e:
                f["after_error"] = "out-of-model " + str(e)
            except Exception as e:
                f["after_error"] = type(e).__name__
        return out
    finally:
        shutil.rmtree(d, ignore_errors=True)


# --------------------------------------------------------------------------- comparison

def anchor_counts(j, acc=None):
    acc = {} if acc is None else acc
    if j.get("a"):
        acc[j["a"]] = acc.get(j["a"], 0) + 1
        if acc[j["a"]] > 1:
            return acc      # an alias: its content is the same object, already counted
    if j.get("k") == "map":
        for _k, v in j["e"]:
            anchor_counts(v, acc)
    elif j.get("k") == "seq":
        for v in j["i"]:
            anchor_counts(v, acc)
    return acc


def drop_single_container_anchors(j, counts):
    """ruamel's dumper omits the anchor of a container that no alias refers to (on every dump, not
    only here); such an anchor shares nothing and is not judged."""
    k = j.get("k")
    if k == "map":
        o = {"k": "map", "e": [[kk, drop_single_container_anchors(v, counts)] for kk, v in j["e"]]}
    elif k == "seq":
        o = {"k": "seq", "i": [drop_single_container_anchors(v, counts) for v in j["i"]]}
    else:
        return j
    if j.get("a") and counts.get(j["a"], 0) > 1:
        o["a"] = j["a"]
    return o


def norm(j):
    """secrets without blanks and line breaks (their layout is not part of the property)"""
    k = j.get("k")
    if k == "map":
        o = {"k": "map", "e": [[kk, norm(v)] for kk, v in j["e"]]}
    elif k == "seq":
        o = {"k": "seq", "i": [norm(v) for v in j["i"]]}
    elif k == "str" and is_marker(j["v"]):
        o = {"k": "str", "v": clean(j["v"])}
    else:
        o = {kk: v for kk, v in j.items() if kk != "a"}
    if j.get("a"):
        o["a"] = j["a"]
    return o


def leaves(j, addr=()):
    k = j.get("k")
    if k == "map":
        for kk, v in j["e"]:
            yield from leaves(v, addr + (kk,))
    elif k == "seq":
        for i, v in enumerate(j["i"]):
            yield from leaves(v, addr + (i,))
    else:
        yield addr, j


def shape(j):
    """everything except the text of secrets"""
    k = j.get("k")
    if k == "map":
        o = {"k": "map", "e": [[kk, shape(v)] for kk, v in j["e"]]}
    elif k == "seq":
        o = {"k": "seq", "i": [shape(v) for v in j["i"]]}
    elif k == "str" and is_marker(j["v"]):
        o = {"k": "SECRET"}
    else:
        o = dict(j)
    if j.get("a"):
        o["a"] = j["a"]
    return o


def secrets_of(before):
    return [(a, l) for a, l in leaves(before) if l.get("k") == "str" and is_marker(l["v"])]


def direct_check(f, rc, mix=None):
    """The property itself on ONE real file `f` of a run that ended with status `rc` (judged when 0); `mix` names
    the key arguments of the run (KEY_MIXES).  Returns [(signature, what)]."""
    bad = []
    mixed = mix not in (None, "all-different")
    counts = anchor_counts(f["before"])
    before = drop_single_container_anchors(f["before"], counts)
    after = drop_single_container_anchors(f["after"], counts) if f.get("after") is not None else None
    secrets = secrets_of(before)
    root_scalar = before.get("k") not in ("map", "seq")
    if not secrets:
        if f["rewritten"] or f["bak"] is not None:
            bad.append(("no-secret-but-written", "a file without encrypted values was rewritten or backed up"))
        return bad
    if rc != 0:
        return bad
    if after is None:
        bad.append(("after-unloadable", "the rotated file does not load: %s" % f.get("after_error")))
        return bad
    if f["bak"] is False:
        bad.append(("backup-not-preimage", "the .bak of the rotated file is not the pre-image"))
    aft = dict(leaves(after))
    for addr, l in secrets:
        l2 = aft.get(addr)
        if l2 is not None and not (l2.get("k") == "str" and is_marker(l2.get("v"))) and dec(OLD, l["v"]) is not None:
            bad.append(("secret-replaced-by-non-secret", "exit 0, but the encrypted value at %r (plaintext %r) is now %r" % (
                addr, dec(OLD, l["v"]), l2.get("v"))))
    if bad and bad[-1][0] == "secret-replaced-by-non-secret":
        return bad
    if shape(before) != shape(after):
        bad.append(("frame-changed", "a non-encrypted key, value, order or anchor changed"))
        return bad
    for addr, l in secrets:
        l2 = aft.get(addr)
        p_old = dec(OLD, l["v"])
        if p_old is None and root_scalar:
            bad.append(("root-scalar-secret-not-rotated", "a document that is one (undecryptable) encrypted scalar: exit 0, untouched"))
            continue
        if p_old is None:
            # the run SUCCEEDED, so every value treated as encrypted has to decrypt under the new keys now
            v2 = l2.get("v") if l2 and l2.get("k") == "str" else None
            bad.append(("success-with-undecryptable", "exit 0 although the value at %r, treated as encrypted (%r), does not decrypt under the "
                        "old key; after the run it is %r, which under the new key gives %r" % (
                            addr, l["v"], v2, dec_new(mix, v2) if v2 is not None else None)))
            continue
        p_new = dec_new(mix, l2["v"]) if l2 and l2.get("k") == "str" else None
        still_old = dec(OLD, l2["v"]) if l2 and l2.get("k") == "str" else None
        if p_new != p_old or still_old is not None:
            if root_scalar:
                sig = "root-scalar-secret-not-rotated"
            elif mixed:
                sig = "secret-not-rekeyed:" + MIX_SIG[mix]
            elif p_new is not None and still_old is None and "\r" in p_old and p_new != p_old and eol(p_new) == eol(p_old):
                # re-keyed, but CR LF / CR inside the plaintext became something else
                sig = "plaintext-carriage-return-changed"
            elif p_new is not None and still_old is None and lead(p_new) != lead(p_old) and p_new.lstrip() == p_old.lstrip()[:len(p_new.lstrip())]:
                # re-keyed, but the plaintext no longer begins with the white space it began with
                sig = "plaintext-leading-whitespace-lost"
            elif p_old != p_old.rstrip():
                sig = "plaintext-trailing-whitespace-lost"
            elif is_marker(p_old):
                sig = "plaintext-looking-encrypted-stored-raw"
            else:
                sig = "secret-not-rekeyed"
            bad.append((sig, "%svalue at %r: old plaintext %r, under the new key %r, under the old key %r" % (
                "exit 0 with key arguments '%s' (-r %s -u %s -i priv1 -c pub1): " % ((mix,) + KEY_MIXES[mix]) if mixed else "",
                addr, p_old, p_new, still_old)))
    for a, n in (f.get("after_share") or {}).items():
        if n != 1 and (f.get("before_share") or {}).get(a) == 1:
            bad.append(("alias-no-longer-shared", "anchor %s is carried by %d different nodes after the rotation" % (a, n)))
    return bad


def distinct_secrets(f):
    """number of cipher rounds the file needs: one per bare secret, one per anchor name carried by a secret
    (0 for a document that is a single scalar: C19-F3, judged by its own signature)"""
    counts = anchor_counts(f["before"])
    before = drop_single_container_anchors(f["before"], counts)
    if before.get("k") not in ("map", "seq"):
        return 0
    return len(set(("a", l["a"]) if l.get("a") else ("p", addr) for addr, l in secrets_of(before)))


def once_check(r):
    """rotated ONCE: over a whole successful run the stand-in was called once per distinct secret of every file"""
    if r["rc"] != 0 or any(f.get("after") is None for f in r["files"]):
        return []
    want = sum(distinct_secrets(f) for f in r["files"])
    if want and (r["decs"] != want or r["encs"] > want):
        return [("not-rotated-once", "%d distinct secrets in %d file(s), %d decrypt and %d encrypt calls" % (
            want, len(r["files"]), r["decs"], r["encs"]))]
    return []


def quiet_process():
    """the stand-in reports wrong keys on stderr (inherited descriptor 2) and ruamel warns about
    re-used anchors: neither is an observable of the property"""
    import warnings
    warnings.simplefilter("ignore")
    fd = os.open(os.devnull, os.O_WRONLY)
    os.dup2(fd, 2)
    os.close(fd)


def job(cases):
    core.use_repo()
    os.makedirs(SCRATCH_ROOT, exist_ok=True)
    if len(cases) > 1:
        quiet_process()
    res = [impl_run(texts_of(c), fault=c.get("fault"), keys=c.get("keys")) for c in cases]
    reqs, idx = [], []
    for i, r in enumerate(res):
        for f in r.get("files", ()):
            reqs.append({"op": "C19.rotate", "old": OLD, "new": NEW, "doc": f["before"]})
            idx.append(f)
    ans = core.Driver().ask(reqs)
    for f, a in zip(idx, ans):
        f["model"] = a
    return res


def fault_cases(cases, results, tier, rng):
    """Second stage: successful runs repeated with the k-th encrypt / decrypt call of the stand-in misbehaving, for
    EVERY k of the run (string- and block-format secrets, anchored ones, several files)."""
    pool = [(c, r) for c, r in zip(cases, results)
            if r.get("rc") == 0 and not c.get("fault") and not c.get("keys") and 1 <= r.get("encs", 0) <= 6 and r["encs"] == r["decs"]]
    fixed = [cr for cr in pool if cr[0]["src"] in ("corpus", "multi-corpus")]
    rest = [cr for cr in pool if cr[0]["src"] not in ("corpus", "multi-corpus")]
    blocky = [cr for cr in rest if "block" in cr[1]["enc_formats"]]
    other = [cr for cr in rest if "block" not in cr[1]["enc_formats"]]
    rng.shuffle(blocky)
    rng.shuffle(other)
    nb, no = (14, 10) if tier == "quick" else (150, 100)
    out = []
    for c, r in fixed + blocky[:nb] + other[:no]:
        for action in ("encrypt", "decrypt"):
            for k in range(1, r["encs"] + 1):
                modes = ["empty", "fail", "blank"] if tier != "quick" else ["empty", rng.choice(["fail", "blank"])]
                for mode in modes:
                    fc = dict(c)
                    fc["fault"] = "%s:%d:%s" % (action, k, mode)
                    fc["src"] = "fault"
                    fc["formats"] = r["enc_formats"]
                    out.append(fc)
    return out


def marker_cases(maxlen):
    alpha = ["E", "N", "C", "[", " ", "\n", "x"]
    for n in range(0, maxlen + 1):
        for t in itertools.product(alpha, repeat=n):
            yield "".join(t)


def marker_job(strings):
    core.use_repo()
    from yamlpath.eyaml import EYAMLProcessor
    ans = core.Driver().ask([{"op": "C19.marker", "s": s} for s in strings])
    out = []
    for s, a in zip(strings, ans):
        try:
            real = bool(EYAMLProcessor.is_eyaml_value(s))
        except Exception as e:  # noqa
            real = "crash:" + type(e).__name__
        if real != is_marker(s) or real != a["is"]:
            out.append((s, real, a["is"], is_marker(s)))
    return len(strings), out


def marker_family():
    """structured marker strings beyond the exhaustive bound: k = 0..MAXPAD blanks / line breaks (all blanks, all
    breaks, alternating, irregular) in front of the marker, inside it (after E, N, C, or everywhere) and both, for
    genuine markers and near misses, with and without a body"""
    out = []
    heads = [("E", "N", "C", "["), ("E", "N", "C"), ("E", "N", "C", "("), ("x", "E", "N", "C", "["), ("e", "n", "c", "["),
             ("E", "N", "[", "C"), ("[", "E", "N", "C", "["), ("E", "N", "C", "x", "[")]
    tails = ["", "FAKE,k1,6869]", " x", "\n"]
    for k in range(0, MAXPAD + 1):
        pads = {" " * k, "\n" * k, (" \n" * k)[:k], ("\n   " * k)[:k], ("  \n\n" * k)[-k:] if k else ""}
        for ws in sorted(pads):
            for head in heads:
                for tail in tails:
                    out.append(ws + "".join(head) + tail)                       # in front
                    if k:
                        out.append(ws.join(head) + tail)                        # inside, at every gap
                        for g in range(1, len(head)):
                            out.append("".join(head[:g]) + ws + "".join(head[g:]) + tail)   # inside, one gap
                            out.append(ws + "".join(head[:g]) + ws + "".join(head[g:]) + tail)
    return sorted(set(out))


def judge(chk, case, r):
    wit = witness(case)
    if "out_of_model" in r:
        chk.out_of_model += 1
        return
    if "unloadable" in r:
        chk.count("generated-text-unloadable")
        return
    files = r["files"]
    nsec = sum(len(secrets_of(f["before"])) for f in files)
    chk.seen(json.dumps(wit, sort_keys=True) if nsec else None)
    chk.count("exit:%s" % r["rc"])
    chk.count("secrets:%s" % (nsec if nsec < 4 else "4+"))
    chk.count("files-per-run:%d" % len(files))
    if isinstance(r["rc"], str):
        if any(ord(ch) > 127 for t in texts_of(case) for ch in t):
            chk.out_of_model += 1
            return
        chk.violation(r["rc"], "eyaml-rotate-keys ended with %s" % r["rc"], wit)
        return
    nf = len(files)
    faulted = bool(case.get("fault")) and r.get("fault_hit")
    if case.get("fault"):
        chk.count("fault:%s:%s" % (case["fault"].split(":")[0], "exit0" if r["rc"] == 0 else "failed") if faulted else "fault:not-reached")
        if faulted and case["fault"].startswith("encrypt"):
            k = int(case["fault"].split(":")[1])
            fm = case.get("formats") or []
            chk.count("fault:encrypt-of-%s-secret" % (fm[k - 1] if k <= len(fm) else "?"))
    for i, f in enumerate(files):
        for sig, what in direct_check(f, r["rc"], case.get("keys")):
            where = ("file %d of %d: " % (i + 1, nf) if nf > 1 else "") + (
                "stand-in fault %s: " % case["fault"] if faulted else "")
            chk.violation(sig, where + what, wit)
    if case.get("keys") and case["keys"] != "all-different":
        # a key-argument mix: the direct clauses above are all there is (the model has one old and one new key)
        chk.count("keys:%s:%s" % (case["keys"], "exit0" if r["rc"] == 0 else "refused"))
        if r["rc"] != 0 and any(f["rewritten"] or f["bak"] is not None for f in files):
            chk.count("keys:refused-run-wrote-files")
        return
    if faulted:
        # a run in which the stand-in misbehaved: only the property's own clauses (above) are judged - when it
        # exits 0 every secret must have been re-keyed; a non-zero status claims nothing (the model has no faults)
        if r["rc"] != 0:
            chk.count("fault:failed-run:%s" % ("some-file-rewritten" if any(f["rewritten"] for f in files) else "files-untouched"))
        return
    for sig, what in once_check(r):
        chk.violation(sig, what, wit)
    # correspondence with the model (one model run per file: every file starts with no anchor seen)
    if r["rc"] != 0 and any(is_marker(dec(OLD, l["v"]) or "") for f in files for _a, l in secrets_of(f["before"])):
        # a failed run over a document of the C19-F2 class (a plaintext that looks encrypted is stored
        # raw and may be picked up again through an aliased container): the model does not re-walk
        chk.out_of_model += 1
        return
    chk.disagreements_checked += 1
    m_failed = any(f["model"]["failed"] for f in files)
    if (r["rc"] != 0) != m_failed:
        chk.disagreement("exit", "exit status %s, model failed=%s" % (r["rc"], m_failed), wit)
    elif r["rc"] != 0:
        # the property speaks about successful runs; of a failing run only the status is compared
        chk.count("failed-run-status-only")
    else:
        for i, f in enumerate(files):
            mo = f["model"]
            written = f["rewritten"] or f["bak"] is not None
            where = "file %d of %d: " % (i + 1, nf) if nf > 1 else ""
            if written != mo["changed"]:
                chk.disagreement("written", where + "file written=%s, model changed=%s" % (written, mo["changed"]), wit)
            elif "after" in f and norm(drop_single_container_anchors(f["after"], anchor_counts(f["before"]))) != norm(
                    drop_single_container_anchors(mo["doc"], anchor_counts(f["before"]))):
                chk.disagreement("document", where + "document after the rotation differs from the model's", wit)
        m_encs, m_decs = sum(f["model"]["encs"] for f in files), sum(f["model"]["decs"] for f in files)
        if r["encs"] != m_encs or r["decs"] != m_decs:
            chk.disagreement("calls", "stand-in calls enc/dec %s, model %s" % ((r["encs"], r["decs"]), (m_encs, m_decs)), wit)
    if len(chk.samples) < 5 and nsec >= 2 and r["rc"] == 0:
        chk.sample({"texts": [t[:300] for t in texts_of(case)], "rc": r["rc"], "encs": r["encs"],
                    "model_encs": sum(f["model"]["encs"] for f in files)})


def run(chk: core.Check):
    core.use_repo()
    os.makedirs(SCRATCH_ROOT, exist_ok=True)
    tier = chk.tier
    if chk.replay_in:
        rp = json.load(open(chk.replay_in))
        c = rp.get("case", rp)
        if "s" in c:
            n, bad = marker_job([c["s"]])
            print("replay marker:", bad)
            for s, real, mo, spec in bad:
                chk.violation("marker-rule", "is_eyaml_value(%r) = %s, rule says %s" % (s, real, spec), {"s": s})
            chk.evaluations += 1
            return chk
        c.setdefault("src", "replay")
        cases = [c]
        results = job(cases)
        print("replay:", json.dumps({k: v for k, v in results[0].items() if k != "files"}),
              [{k: v for k, v in f.items() if k in ("rewritten", "bak", "after_error")} for f in results[0].get("files", [])])
    else:
        cases = gen_cases(chk, *((400, 120) if tier == "quick" else (6000, 1500)))
        results = [r for part in core.pmap(job, core.chunked(cases, 32)) for r in part]
        fcases = fault_cases(cases, results, tier, random.Random(chk.seed + 1))
        fresults = [r for part in core.pmap(job, core.chunked(fcases, 16)) for r in part]
        cases, results = cases + fcases, results + fresults
        chk.extra_cov["multi_file_runs"] = sum(1 for c in cases if len(texts_of(c)) > 1)
        chk.extra_cov["fault_runs"] = len(fcases)
        # the marker rule: exhaustively on short strings, then the structured long family
        L = 7 if tier == "quick" else 8
        strings = list(marker_cases(L))
        family = marker_family()
        chk.extra_cov["marker_family"] = len(family)
        allbad = []
        for n, bad in core.pmap(marker_job, core.chunked(strings + family, 32)):
            chk.evaluations += n
            allbad += bad
        allbad.sort(key=lambda t: (len(t[0]), t[0]))
        chk.extra_cov["marker_mismatches"] = len(allbad)
        for s, real, mo, spec in allbad[:3]:          # the shortest ones; the number of all is in the coverage record
            if real != spec:
                chk.violation("marker-rule", "is_eyaml_value(%r) = %s, the rule says %s" % (s, real, spec), {"s": s})
            else:
                chk.disagreement("marker-model", "isEyaml(%r): model %s, implementation %s" % (s, mo, real), {"s": s})
        chk.exhaustive = True
        chk.extra_cov["exhaustive_bound"] = ("marker rule: all strings of length <= %d over E,N,C,[,blank,newline,x; plus %d structured "
                                             "strings with up to %d blanks/line breaks before and inside the marker" % (L, len(family), MAXPAD))
    for case, r in zip(cases, results):
        judge(chk, case, r)
    chk.notes.append("the cipher is the deterministic stand-in harness/tools/fake_eyaml; real hiera-eyaml/PKCS7 is not available "
                     "and is represented by the two cipher laws (hypotheses of the theorems)")
    return chk
