"""C19 — EYAML key rotation re-keys every secret once and touches nothing else.

The real `eyaml_rotate_keys.main()` runs in-process on generated files with a deterministic stand-in
`eyaml` executable (harness/tools/fake_eyaml); the Lean model (Ypv/Model/Rotate.lean, same stand-in
cipher) rotates the same document."""
from __future__ import annotations

import itertools
import json
import os
import random
import shutil
import signal
import sys
import tempfile

from harness import core, codec

RULE = ("seeded random YAML files (plus a fixed corpus) mixing plaintext scalars with secrets of the stand-in cipher at "
        "arbitrary positions: mapping values, sequence elements, nested, anchored with aliases (scalars and containers), "
        "plain / quoted-with-blanks / folded / literal layouts, near-miss markers, values under a foreign key, plaintexts "
        "with trailing blanks or looking encrypted; the real eyaml_rotate_keys.main() runs on the file (with --backup) "
        "using harness/tools/fake_eyaml.  Direct check when the exit status is 0: every encrypted value decrypts under "
        "the new key to its old plaintext and no longer under the old key, aliases of one anchor are still one object, "
        "everything else (keys, order, anchors, plain values) is unchanged, the stand-in was called once per distinct "
        "secret; a file without secrets is neither rewritten nor backed up.  Correspondence: document after the run "
        "(secrets compared without blanks/line breaks), exit status, written/not written, numbers of decrypt and encrypt "
        "calls equal the Lean model's (of a run that exits non-zero only the status is compared).  is_eyaml_value is compared with the model's isEyaml on every string of length "
        "<= 7 over {E,N,C,[,blank,newline,x} (exhaustive) .  distinct_nontrivial = distinct documents holding >= 1 secret.")

FAKE_EYAML = os.path.join(core.HERE, "tools", "fake_eyaml")
SCRATCH_ROOT = os.path.join(core.VERIF, "out", "scratch")
KEYS = {"pub1": "FAKE-PUBLIC k1\n", "priv1": "FAKE-PRIVATE k1\n", "pub2": "FAKE-PUBLIC k2\n", "priv2": "FAKE-PRIVATE k2\n"}
OLD, NEW = "k1", "k2"


# --------------------------------------------------------------------------- reference cipher

def enc(kid, plain):
    return "ENC[FAKE,%s,%s]" % (kid, plain.encode("utf-8").hex())


def clean(s):
    return s.replace("\n", "").replace(" ", "")


def dec(kid, cipher):
    """what the stand-in prints for the cleaned ciphertext, None when it exits non-zero"""
    import re
    m = re.fullmatch(r"ENC\[FAKE,([a-z0-9]+),((?:[0-9a-f]{2})*)\]", re.sub(r"\s+", "", cipher))
    if not m or m.group(1) != kid:
        return None
    try:
        return bytes.fromhex(m.group(2)).decode("utf-8")
    except Exception:
        return None


def is_marker(s):
    """the property's rule, written independently of the code under test"""
    return isinstance(s, str) and "".join(ch for ch in s if ch not in " \n")[:4] == "ENC["


# --------------------------------------------------------------------------- document generator

PLAINTEXTS = ["hello", "s3cret!", "p@ss w0rd", "multi word secret value that is fairly long so that blocks wrap around",
              "x", "a:b", "#not-a-comment", "tab\there", "0", "true", "line1\nline2"]
ODD_PLAINTEXTS = ["trailing blank ", "trailing newline\n", enc("k1", "inner"), "   "]
NEAR = ["ENC", "enc[FAKE,k1,00]", "XENC[FAKE,k1,00]", "ENC(FAKE)", "E-N-C-[", "[ENC[", "plain text", ""]
BROKEN = ["ENC[x", "E N C [ garbage", "ENC[FAKE,k9,6869]", "ENC[PKCS7,Zm9v]", "ENC[FAKE,k1,zz]"]


class Gen:
    def __init__(self, rng, odd=0.0):
        self.rng = rng
        self.n_anchor = 0
        self.scalar_anchors = []      # names of anchored secret scalars (aliasable later)
        self.container_anchors = []
        self.odd = odd

    def secret_leaf(self):
        r = self.rng
        pt = r.choice(ODD_PLAINTEXTS) if r.random() < self.odd else r.choice(PLAINTEXTS)
        c = enc(OLD, pt)
        layout = r.choice(["plain", "plain", "plain", "folded", "folded", "literal", "quoted-blanks", "quoted-lead"])
        anchor = None
        if r.random() < 0.3:
            self.n_anchor += 1
            anchor = "s%d" % self.n_anchor
        return ("leaf", anchor, ("secret", layout, c))

    def leaf(self, p_secret):
        r = self.rng
        x = r.random()
        if x < p_secret:
            return self.secret_leaf()
        if x < p_secret + 0.08 and self.scalar_anchors:
            return ("alias", r.choice(self.scalar_anchors))
        if x < p_secret + 0.12 and self.container_anchors:
            return ("alias", r.choice(self.container_anchors))
        if x < p_secret + 0.16:
            return ("leaf", None, ("str", r.choice(NEAR)))
        if x < p_secret + 0.16 + self.odd * 0.3:
            return ("leaf", None, ("secret", "plain", r.choice(BROKEN)))
        k = r.choice(["int", "str", "bool", "null", "str"])
        if k == "int":
            return ("leaf", None, ("int", r.randint(-5, 99)))
        if k == "bool":
            return ("leaf", None, ("bool", r.random() < 0.5))
        if k == "null":
            return ("leaf", None, ("null", None))
        return ("leaf", None, ("str", r.choice(["v", "some text", "1.5x", "yes please", "ENCODE", "k: v"])))

    def node(self, depth, p_secret):
        r = self.rng
        if depth <= 0 or r.random() < 0.45:
            n = self.leaf(p_secret)
            if n[0] == "leaf" and n[1]:
                self.scalar_anchors.append(n[1])
            return n
        anchor = None
        if r.random() < 0.15:
            self.n_anchor += 1
            anchor = "c%d" % self.n_anchor
        if r.random() < 0.5:
            keys = []
            for i in range(r.randint(1, 4)):
                k = "k%d" % i
                if r.random() < 0.08:
                    k = r.choice(["dotted.key", "sp ace", "sl/ash", "q'uote", "amp&er", "7"])
                if k not in keys:
                    keys.append(k)
            n = ("map", anchor, [(k, self.node(depth - 1, p_secret)) for k in keys])
        else:
            n = ("seq", anchor, [self.node(depth - 1, p_secret) for _ in range(r.randint(1, 4))])
        if anchor:
            self.container_anchors.append(anchor)
        return n


def scalar_text(val, indent):
    """YAML text of a leaf value: (inline text, following lines)"""
    kind = val[0]
    if kind == "int":
        return str(val[1]), []
    if kind == "bool":
        return ("true" if val[1] else "false"), []
    if kind == "null":
        return "null", []
    if kind == "str":
        return json.dumps(val[1]), []
    _, layout, c = val
    pad = " " * (indent + 2)
    if layout == "plain" and not c.startswith("ENC[FAKE"):
        return json.dumps(c), []
    if layout == "plain":
        return c, []
    if layout in ("folded", "literal"):
        parts = [c[i:i + 26] for i in range(0, len(c), 26)]
        return (">" if layout == "folded" else "|"), [pad + p for p in parts]
    if layout == "quoted-blanks":
        return json.dumps(c.replace(",", ", ")), []
    return json.dumps("  " + c), []


def emit(node, indent, lines, prefix):
    """append the YAML lines of `node`; `prefix` is what precedes it on its first line ('key: ' / '- ')."""
    pad = " " * indent
    kind = node[0]
    if kind == "alias":
        lines.append(pad + prefix + "*" + node[1])
        return
    anc = ("&%s " % node[1]) if node[1] else ""
    if kind == "leaf":
        text, more = scalar_text(node[2], indent)
        lines.append(pad + prefix + anc + text)
        lines.extend(more)
        return
    children = node[2]
    if not children:
        lines.append(pad + prefix + anc + ("{}" if kind == "map" else "[]"))
        return
    lines.append((pad + prefix + anc).rstrip())
    for ch in children:
        if kind == "map":
            k, v = ch
            ktxt = k if k.isalnum() and not k.isdigit() else json.dumps(k)
            emit(v, indent + 2, lines, ktxt + ": ")
        else:
            emit(ch, indent + 2, lines, "- ")


def doc_text(root):
    lines = []
    if root[0] in ("leaf", "alias"):
        emit(root, 0, lines, "")
        return "--- " + lines[0] + "\n" + "".join(l + "\n" for l in lines[1:])
    kind, _anc, children = root
    for ch in children:
        if kind == "map":
            k, v = ch
            ktxt = k if k.isalnum() and not k.isdigit() else json.dumps(k)
            emit(v, 0, lines, ktxt + ": ")
        else:
            emit(ch, 0, lines, "- ")
    return "".join(l + "\n" for l in lines)


CORPUS = [
    "a: plain\nb: %s\nc: &s %s\nd: *s\nl:\n  - x\n  - %s\n  - &t %s\n  - *t\n" % (enc(OLD, "hello"), enc(OLD, "sec"), enc(OLD, "l1"), enc(OLD, "l2")),
    "top:\n  f: >\n    %s\n    %s\n  n: 5\n" % (enc(OLD, "folded secret")[:20], enc(OLD, "folded secret")[20:]),
    "a: plain\nb: [1, 2]\nc: {d: ENCODE}\n",
    "base: &b\n  pw: %s\n  user: joe\nuse: *b\n" % enc(OLD, "shared container"),
    "base: &b\n  user: joe\nuse: *b\nz: %s\n" % enc(OLD, "beside shared container"),
    "- %s\n- - %s\n  - plain\n- k: %s\n" % (enc(OLD, "one"), enc(OLD, "two"), enc(OLD, "three")),
    "a: %s\nb: %s\n" % (enc(OLD, "good"), enc("k9", "foreign key")),
    "a: \"ENC [x\"\n",
    "--- %s\n" % enc(OLD, "root scalar"),
    "a: %s\n" % enc(OLD, "trailing blank "),
    "a: %s\n" % enc(OLD, enc(OLD, "inner")),
    "l:\n  - &x %s\n  - plain\nm:\n  r: *x\n  s: [*x, 1]\n" % enc(OLD, "alias in lists"),
    "\"dotted.key\": %s\n\"sp ace\": %s\n7: %s\n" % (enc(OLD, "d"), enc(OLD, "s"), enc(OLD, "i")),
    "a: |\n  %s\n  %s\n" % (enc(OLD, "literal block")[:15], enc(OLD, "literal block")[15:]),
    "",
]


def gen_cases(chk, n):
    cases = [{"text": t, "src": "corpus"} for t in CORPUS]
    rng = random.Random(chk.seed)
    for i in range(n):
        odd = 0.25 if i % 5 == 0 else 0.0
        g = Gen(rng, odd=odd)
        p_secret = rng.choice([0.0, 0.2, 0.35, 0.5])
        root = g.node(rng.randint(1, 4), p_secret)
        if root[0] in ("leaf", "alias") and rng.random() < 0.8:
            root = ("map", None, [("k0", root)]) if root[0] == "leaf" else ("map", None, [("k0", ("leaf", None, ("int", 1)))])
        cases.append({"text": doc_text(root), "src": "random"})
    return cases


# --------------------------------------------------------------------------- running the real tool

class Timeout(Exception):
    pass


def _alarm(_s, _f):
    raise Timeout()


def load_doc(path):
    from yamlpath.common import Parsers
    yaml = Parsers.get_yaml_editor()
    with open(path, "r", encoding="utf-8") as fh:
        return yaml.load(fh)


def share_classes(root):
    """anchor name -> number of distinct objects carrying it (1 = still shared)"""
    seen = {}
    stack = [root]
    visited = set()
    while stack:
        n = stack.pop()
        a = codec.anchor_of(n)
        if a:
            seen.setdefault(a, set()).add(id(n))
        if isinstance(n, (dict, list)) and not isinstance(n, str):
            if id(n) in visited:
                continue
            visited.add(id(n))
            stack.extend(n.values() if isinstance(n, dict) else n)
    return {a: len(ids) for a, ids in seen.items()}


def impl_run(text, backup=True):
    """Run eyaml_rotate_keys.main() on a file holding `text`."""
    from yamlpath.commands import eyaml_rotate_keys
    d = tempfile.mkdtemp(prefix="c19-", dir=SCRATCH_ROOT)
    out = {}
    try:
        for k, v in KEYS.items():
            with open(os.path.join(d, k), "w") as fh:
                fh.write(v)
        path = os.path.join(d, "t.yaml")
        with open(path, "wb") as fh:
            fh.write(text.encode("utf-8"))
        logp = os.path.join(d, "eyaml.log")
        try:
            before = load_doc(path)
            out["before"] = codec.node_to_json(before)
            out["before_share"] = share_classes(before)
        except codec.OutOfModel as e:
            return {"out_of_model": str(e)}
        except Exception as e:  # the generated text is not loadable: not a case
            return {"unloadable": type(e).__name__}
        os.environ["YPV_EYAML_LOG"] = logp
        argv = sys.argv
        sys.argv = ["eyaml-rotate-keys"] + (["-b"] if backup else []) + ["-q", "-x", FAKE_EYAML, "-r", os.path.join(d, "priv2"),
                                                                      "-u", os.path.join(d, "pub2"), "-i", os.path.join(d, "priv1"),
                                                                      "-c", os.path.join(d, "pub1"), path]
        old = signal.signal(signal.SIGALRM, _alarm)
        signal.setitimer(signal.ITIMER_REAL, 60)
        devnull = open(os.devnull, "w")
        so, se = sys.stdout, sys.stderr
        sys.stdout = sys.stderr = devnull
        try:
            try:
                eyaml_rotate_keys.main()
                out["rc"] = 0
            except SystemExit as e:
                out["rc"] = e.code if isinstance(e.code, int) else (0 if e.code is None else 1)
            except Timeout:
                out["rc"] = "timeout"
            except Exception as e:  # noqa
                out["rc"] = "crash:%s@%s" % (type(e).__name__, core.crash_site(e))
        finally:
            signal.setitimer(signal.ITIMER_REAL, 0)
            signal.signal(signal.SIGALRM, old)
            sys.stdout, sys.stderr = so, se
            devnull.close()
            sys.argv = argv
            os.environ.pop("YPV_EYAML_LOG", None)
        with open(path, "rb") as fh:
            after_bytes = fh.read()
        out["rewritten"] = after_bytes != text.encode("utf-8")
        bak = path + ".bak"
        out["bak"] = None
        if os.path.exists(bak):
            with open(bak, "rb") as fh:
                out["bak"] = fh.read() == text.encode("utf-8")
        calls = []
        if os.path.exists(logp):
            with open(logp) as fh:
                calls = [l.split(" ", 1)[0] for l in fh.read().split("\n") if l]
        out["encs"] = calls.count("encrypt")
        out["decs"] = calls.count("decrypt")
        try:
            after = load_doc(path)
            out["after"] = codec.node_to_json(after)
            out["after_share"] = share_classes(after)
        except codec.OutOfModel as e:
            out["after_error"] = "out-of-model " + str(e)
        except Exception as e:
            out["after_error"] = type(e).__name__
        return out
    finally:
        shutil.rmtree(d, ignore_errors=True)


# --------------------------------------------------------------------------- comparison

def anchor_counts(j, acc=None):
    acc = {} if acc is None else acc
    if j.get("a"):
        acc[j["a"]] = acc.get(j["a"], 0) + 1
        if acc[j["a"]] > 1:
            return acc      # an alias: its content is the same object, already counted
    if j.get("k") == "map":
        for _k, v in j["e"]:
            anchor_counts(v, acc)
    elif j.get("k") == "seq":
        for v in j["i"]:
            anchor_counts(v, acc)
    return acc


def drop_single_container_anchors(j, counts):
    """ruamel's dumper omits the anchor of a container that no alias refers to (on every dump, not
    only here); such an anchor shares nothing and is not judged."""
    k = j.get("k")
    if k == "map":
        o = {"k": "map", "e": [[kk, drop_single_container_anchors(v, counts)] for kk, v in j["e"]]}
    elif k == "seq":
        o = {"k": "seq", "i": [drop_single_container_anchors(v, counts) for v in j["i"]]}
    else:
        return j
    if j.get("a") and counts.get(j["a"], 0) > 1:
        o["a"] = j["a"]
    return o


def norm(j):
    """secrets without blanks and line breaks (their layout is not part of the property)"""
    k = j.get("k")
    if k == "map":
        o = {"k": "map", "e": [[kk, norm(v)] for kk, v in j["e"]]}
    elif k == "seq":
        o = {"k": "seq", "i": [norm(v) for v in j["i"]]}
    elif k == "str" and is_marker(j["v"]):
        o = {"k": "str", "v": clean(j["v"])}
    else:
        o = {kk: v for kk, v in j.items() if kk != "a"}
    if j.get("a"):
        o["a"] = j["a"]
    return o


def leaves(j, addr=()):
    k = j.get("k")
    if k == "map":
        for kk, v in j["e"]:
            yield from leaves(v, addr + (kk,))
    elif k == "seq":
        for i, v in enumerate(j["i"]):
            yield from leaves(v, addr + (i,))
    else:
        yield addr, j


def shape(j):
    """everything except the text of secrets"""
    k = j.get("k")
    if k == "map":
        o = {"k": "map", "e": [[kk, shape(v)] for kk, v in j["e"]]}
    elif k == "seq":
        o = {"k": "seq", "i": [shape(v) for v in j["i"]]}
    elif k == "str" and is_marker(j["v"]):
        o = {"k": "SECRET"}
    else:
        o = dict(j)
    if j.get("a"):
        o["a"] = j["a"]
    return o


def direct_check(case, r):
    """The property itself on the real files (exit status 0 only).  Returns [(signature, what)]."""
    bad = []
    counts = anchor_counts(r["before"])
    before = drop_single_container_anchors(r["before"], counts)
    after = drop_single_container_anchors(r["after"], counts) if r.get("after") is not None else None
    secrets = [(a, l) for a, l in leaves(before) if l.get("k") == "str" and is_marker(l["v"])]
    root_scalar = before.get("k") not in ("map", "seq")
    if not secrets:
        if r["rewritten"] or r["bak"] is not None:
            bad.append(("no-secret-but-written", "a file without encrypted values was rewritten or backed up"))
        return bad
    if r["rc"] != 0:
        return bad
    if after is None:
        bad.append(("after-unloadable", "the rotated file does not load: %s" % r.get("after_error")))
        return bad
    if r["bak"] is False:
        bad.append(("backup-not-preimage", "the .bak of the rotated file is not the pre-image"))
    if shape(before) != shape(after):
        bad.append(("frame-changed", "a non-encrypted key, value, order or anchor changed"))
        return bad
    aft = dict(leaves(after))
    for addr, l in secrets:
        l2 = aft.get(addr)
        p_old = dec(OLD, l["v"])
        if p_old is None and root_scalar:
            bad.append(("root-scalar-secret-not-rotated", "a document that is one (undecryptable) encrypted scalar: exit 0, untouched"))
            continue
        if p_old is None:
            bad.append(("success-with-undecryptable", "exit 0 although %r does not decrypt under the old key" % (addr,)))
            continue
        p_new = dec(NEW, l2["v"]) if l2 and l2.get("k") == "str" else None
        still_old = dec(OLD, l2["v"]) if l2 and l2.get("k") == "str" else None
        if p_new != p_old or still_old is not None:
            if root_scalar:
                sig = "root-scalar-secret-not-rotated"
            elif p_old != p_old.rstrip():
                sig = "plaintext-trailing-whitespace-lost"
            elif is_marker(p_old):
                sig = "plaintext-looking-encrypted-stored-raw"
            else:
                sig = "secret-not-rekeyed"
            bad.append((sig, "value at %r: old plaintext %r, under the new key %r, under the old key %r" % (
                addr, p_old, p_new, still_old)))
    for a, n in (r.get("after_share") or {}).items():
        if n != 1 and (r.get("before_share") or {}).get(a) == 1:
            bad.append(("alias-no-longer-shared", "anchor %s is carried by %d different nodes after the rotation" % (a, n)))
    distinct = set()
    for addr, l in secrets:
        distinct.add(("a", l["a"]) if l.get("a") else ("p", addr))
    if not root_scalar and (r["decs"] != len(distinct) or r["encs"] > len(distinct)):
        bad.append(("not-rotated-once", "%d distinct secrets, %d decrypt and %d encrypt calls" % (len(distinct), r["decs"], r["encs"])))
    return bad


def quiet_process():
    """the stand-in reports wrong keys on stderr (inherited descriptor 2) and ruamel warns about
    re-used anchors: neither is an observable of the property"""
    import warnings
    warnings.simplefilter("ignore")
    fd = os.open(os.devnull, os.O_WRONLY)
    os.dup2(fd, 2)
    os.close(fd)


def job(cases):
    core.use_repo()
    os.makedirs(SCRATCH_ROOT, exist_ok=True)
    if len(cases) > 1:
        quiet_process()
    res = [impl_run(c["text"]) for c in cases]
    reqs, idx = [], []
    for i, r in enumerate(res):
        if "before" in r:
            reqs.append({"op": "C19.rotate", "old": OLD, "new": NEW, "doc": r["before"]})
            idx.append(i)
    ans = core.Driver().ask(reqs)
    for i, a in zip(idx, ans):
        res[i]["model"] = a
    return res


def marker_cases(maxlen):
    alpha = ["E", "N", "C", "[", " ", "\n", "x"]
    for n in range(0, maxlen + 1):
        for t in itertools.product(alpha, repeat=n):
            yield "".join(t)


def marker_job(strings):
    core.use_repo()
    from yamlpath.eyaml import EYAMLProcessor
    ans = core.Driver().ask([{"op": "C19.marker", "s": s} for s in strings])
    out = []
    for s, a in zip(strings, ans):
        try:
            real = bool(EYAMLProcessor.is_eyaml_value(s))
        except Exception as e:  # noqa
            real = "crash:" + type(e).__name__
        if real != is_marker(s) or real != a["is"]:
            out.append((s, real, a["is"], is_marker(s)))
    return len(strings), out


def run(chk: core.Check):
    core.use_repo()
    os.makedirs(SCRATCH_ROOT, exist_ok=True)
    tier = chk.tier
    if chk.replay_in:
        rp = json.load(open(chk.replay_in))
        c = rp.get("case", rp)
        if "s" in c:
            n, bad = marker_job([c["s"]])
            print("replay marker:", bad)
            for s, real, mo, spec in bad:
                chk.violation("marker-rule", "is_eyaml_value(%r) = %s, rule says %s" % (s, real, spec), {"s": s})
            chk.evaluations += 1
            return chk
        cases = [c]
        results = job(cases)
        print("replay:", json.dumps({k: v for k, v in results[0].items() if k not in ("before", "after", "model")}))
    else:
        cases = gen_cases(chk, 400 if tier == "quick" else 6000)
        chunks = core.chunked(cases, 64)
        results = [r for part in core.pmap(job, chunks) for r in part]
        # the marker rule, exhaustively
        L = 7 if tier == "quick" else 8
        strings = list(marker_cases(L))
        for n, bad in core.pmap(marker_job, core.chunked(strings, 32)):
            chk.evaluations += n
            for s, real, mo, spec in bad[:20]:
                if real != spec:
                    chk.violation("marker-rule", "is_eyaml_value(%r) = %s, the rule says %s" % (s, real, spec), {"s": s})
                else:
                    chk.disagreement("marker-model", "isEyaml(%r): model %s, implementation %s" % (s, mo, real), {"s": s})
        chk.exhaustive = True
        chk.extra_cov["exhaustive_bound"] = "marker rule: all strings of length <= %d over E,N,C,[,blank,newline,x" % L
    for case, r in zip(cases, results):
        if "out_of_model" in r:
            chk.out_of_model += 1
            continue
        if "unloadable" in r:
            chk.count("generated-text-unloadable")
            continue
        nsec = sum(1 for _a, l in leaves(r["before"]) if l.get("k") == "str" and is_marker(l["v"]))
        chk.seen(case["text"] if nsec else None)
        chk.count("exit:%s" % r["rc"])
        chk.count("secrets:%s" % (nsec if nsec < 4 else "4+"))
        if isinstance(r["rc"], str):
            if any(ord(ch) > 127 for ch in case["text"]):
                chk.out_of_model += 1
                continue
            chk.violation(r["rc"], "eyaml-rotate-keys ended with %s" % r["rc"], {"text": case["text"]})
            continue
        for sig, what in direct_check(case, r):
            chk.violation(sig, what, {"text": case["text"]})
        # correspondence with the model
        mo = r["model"]
        if r["rc"] != 0 and any(is_marker(dec(OLD, l["v"]) or "") for _a, l in leaves(r["before"])
                                if l.get("k") == "str" and is_marker(l["v"])):
            # a failed run over a document of the C19-F2 class (a plaintext that looks encrypted is stored
            # raw and may be picked up again through an aliased container): the model does not re-walk
            chk.out_of_model += 1
            continue
        chk.disagreements_checked += 1
        written = r["rewritten"] or r["bak"] is not None
        if (r["rc"] != 0) != mo["failed"]:
            chk.disagreement("exit", "exit status %s, model failed=%s" % (r["rc"], mo["failed"]), {"text": case["text"]})
        elif r["rc"] != 0:
            # the property speaks about successful runs; of a failing run only the status is compared
            chk.count("failed-run-status-only")
        elif written != mo["changed"]:
            chk.disagreement("written", "file written=%s, model changed=%s" % (written, mo["changed"]), {"text": case["text"]})
        elif "after" in r and norm(drop_single_container_anchors(r["after"], anchor_counts(r["before"]))) != norm(
                drop_single_container_anchors(mo["doc"], anchor_counts(r["before"]))):
            chk.disagreement("document", "document after the rotation differs from the model's", {"text": case["text"]})
        elif r["encs"] != mo["encs"] or (r["rc"] == 0 and r["decs"] != mo["decs"]):
            # (after a failure the model does not count the repeated decrypt attempts inside an
            # aliased container; it only records that they fail)
            chk.disagreement("calls", "stand-in calls enc/dec %s, model %s" % ((r["encs"], r["decs"]), (mo["encs"], mo["decs"])),
                             {"text": case["text"]})
        if len(chk.samples) < 5 and nsec >= 2 and r["rc"] == 0:
            chk.sample({"text": case["text"][:400], "rc": r["rc"], "encs": r["encs"], "model_encs": mo["encs"]})
    chk.notes.append("the cipher is the deterministic stand-in harness/tools/fake_eyaml; real hiera-eyaml/PKCS7 is not available "
                     "and is represented by the two cipher laws (hypotheses of the theorems)")
    return chk
