"""C06 — a diff is truthful and complete; it is empty of changes iff the data are equal."""
from __future__ import annotations

import itertools
import json
import os
import random
import shutil
import signal
import sys
import tempfile
from types import SimpleNamespace

from harness import core, codec

RULE = ("pairs of documents x array modes {position, value} x AoH modes {position, dpos, value, key, deep}: "
        "(1) every ordered pair of documents of <= 3 nodes over scalars {null,true,0,1,'a'} / keys {a,b,1} "
        "(each pair under 2 mode mixes chosen by a seeded rotation so that all 10 mixes are covered evenly; thorough: all 10), "
        "(2) seeded random documents of <= 12 nodes over scalars {null,true,false,0,1,2,1.5,1.0,'a','ab',''} / keys "
        "{a,b,ab,'a.b','a b',1,-1}: identical copies, one derived from the other by 1-4 insert/delete/replace/reorder edits, "
        "unrelated pairs, record lists with identity keys (unique, duplicated, missing), type clashes, nulls, empty "
        "containers, non-hash members among records, (3) the corpus of past failures, (4) list pairs through "
        "Differ.synchronize_lists_by_value / synchronize_lods_by_key, (5) a sample through yaml-diff main() (exit status), "
        "(6) the finite tables (mode names, action names, mode precedence) completely, "
        "(7) seeded documents holding 2-4 flat lists (scalars with repeats / records {n, id, v}) under the keys of one or two "
        "mappings or at the root, siblings often equal-valued copies of one another, the left document derived list by list "
        "(identical / reordered / element inserted, deleted, replaced), compared under a real INI file whose [rules] give "
        "some of the lists their own mode (position / value; key / deep for record lists) and whose [keys] name identity keys, "
        "x the command-line modes (also absent): the report / crash class against the per-path Lean model (fed with the "
        "coordinates DifferConfig.prepare stored) and direct checks, the positional clauses judged wherever every list above "
        "an entry is compared by position, clean <=> data-equal with the per-list modes; plus model-only cases: lists inside "
        "lists with [rules] for elements, [keys] for single records, mode texts of the other kind of list / naming no mode, "
        "rules on mappings and scalars, "
        "(8) yaml-diff main() also under every output-selection option (-s/--same, -o/--onlysame, -q/--quiet, -v, and the "
        "combinations the command accepts) and with such [rules]/[keys] files: exit 0 <=> report clean <=> data-equal, "
        "whatever is displayed, "
        "(9) the cases of (7) with 1-3 [rules] / [keys] entries added whose path matches NO node of the right-hand document "
        "(a missing sibling key, a path below a missing mapping, a list only the left document holds) at random positions of "
        "their section - before, between, after the entries that match: judged by the clauses with the matching entries only, "
        "(10) ONE Differ taken through 2-3 comparisons (right documents: identical copy / edited / unrelated, in any order), "
        "get_report() read 0-2 times after each: every report read is judged by the clauses for (left, right of that step); "
        "a clause failing there and not on a fresh Differ's report for the same pair is a violation, "
        "(11) pairs of documents whose mappings / sets have keys that are NOT text or integers - floats (1.5, 2.0, 0.75, -0.5, "
        "10.25), timestamps, dates, as the library's loader yields them - at any depth, beside text / integer keys and, half of "
        "the time, beside nested keys that spell the parts of such a key's text (1: {5: ...} next to 1.5; the date: {the time: ...} "
        "next to a timestamp); identical / 1-3 edits (value replaced, entry or member removed, added, renamed to another such key, "
        "reordered) / unrelated; two thirds under positional comparison, the rest under any mode mix.  Outside the Lean documents "
        "(text and integer keys): judged on the real code alone by every DIRECT check below - in particular the entry's path, read "
        "segment by segment as the path parser delivers it (a KEY segment names the one key / member written that way), must lead to "
        "the entry's value in the document it speaks about; keys that are == but written differently (1 / true / 1.0) or written "
        "alike (1.5 / '1.5') are not put into one pair.  "
        "DIRECT checks on the real report, independent of the model: every entry true of the two documents and every "
        "leaf covered (positional modes), clean <=> data-equal (all modes), every left/right index of a synchronisation "
        "accounted for exactly once, exit status 0 <=> clean.  Correspondence: the report as a sorted list of "
        "(action, path segments, lhs, rhs) equals the Lean model's.  "
        "distinct_nontrivial = distinct (pair, modes) cases whose report has at least one entry and whose two documents differ "
        "or contain a container.")

ARR = ["position", "value"]
AOH = ["position", "dpos", "value", "key", "deep"]
MODES = [(a, h) for a in ARR for h in AOH]

S_SMALL = [{"k": "null"}, {"k": "bool", "v": True}, {"k": "int", "v": "0"}, {"k": "int", "v": "1"}, {"k": "str", "v": "a"}]
K_SMALL = ["a", "b", 1]
S_BIG = S_SMALL + [{"k": "bool", "v": False}, {"k": "int", "v": "2"}, {"k": "float", "m": "15", "e": -1},
                   {"k": "float", "m": "1", "e": 0}, {"k": "str", "v": "ab"}, {"k": "str", "v": ""}]
K_BIG = ["a", "b", "ab", "a.b", "a b", 1, -1]

CORPUS = [
    # (l, r) as plain Python data; sets as {"!set": [...]}
    (["a", None], ["a", None]), ([1, 2], []), ({}, []), ({"a": None}, {"a": []}), ({"a": None}, {"a": [1]}),
    ([{"a": 1}], [{"a": 1}]), ([{"a": 1}, 2], [{"a": 1}, 3]), ([{"a": 1}, {"b": 2}], [{"a": 1}, {"b": 2}]),
    ([None], [None]), ([None, 1], [1]), ([1], [True]), ({"a": 1}, {"a": 1.0}), ([1, 2, 3], [3, 1, 4]),
    ([[1, 2]], [[2, 1]]), ({"!set": [1, 2]}, {"!set": [2, 3]}), ({"a": {"!set": [1, 2]}}, {"a": {"x": 1}}),
    ([], []), ({"a": {}}, {"a": {}}), ([{"a": 1, "x": 1}, {"a": 1, "x": 2}], [{"a": 1, "x": 2}, {"a": 1, "x": 1}]),
    ([{"a": 1, "x": 1}, {"a": 2, "x": 2}], [{"a": 2, "x": 2}, {"a": 1, "x": 1}]), (None, None), (None, 1), (1, None),
    ([{}], [{}]), ([1], [{"a": 1}]), (["abc"], [{"a": 1}]), ([{"a": 1}], [{"a": 1}, "abc"]), ([None], []), ([], [None]),
    (None, []), ([], {}), ({"!set": []}, []), ([[], 1], [[], 1]), ([1, None, 2], [1, 2]), ([None, None], [None]),
    ([{"a": None}], [{"a": None}]), ([{"a": 1}, None], [{"a": 1}, None]), ([1, 1, 2], [1, 2, 2]), ([1, 2], [2, 1]),
    ({"a": [1, 2]}, {"a": [2, 1]}), ([{"a": 1}], []), ([], [{"a": 1}]), ([{"a": [1, 2]}], [{"a": [2, 1]}]),
    ([{"a": 1, "b": [{"a": 1}, {"a": 2}]}], [{"a": 1, "b": [{"a": 2}, {"a": 1}]}]),
]


# --------------------------------------------------------------------------- documents

def plain_to_json(x):
    if isinstance(x, dict) and list(x.keys()) == ["!set"]:
        return {"k": "set", "m": list(x["!set"])}
    if isinstance(x, dict):
        return {"k": "map", "e": [[k, plain_to_json(v)] for k, v in x.items()]}
    if isinstance(x, list):
        return {"k": "seq", "i": [plain_to_json(v) for v in x]}
    return codec.scalar_to_json(x)


def docs_exact(n, scalars, keys, memo):
    """all documents with exactly n nodes (set members count as nodes; map keys / set members in
    increasing alphabet order)."""
    if n in memo:
        return memo[n]
    out = []
    if n == 1:
        out += [dict(s) for s in scalars]
        out += [{"k": "seq", "i": []}, {"k": "map", "e": []}, {"k": "set", "m": []}]
    elif n > 1:
        # sequences: ordered compositions of n-1
        for parts in compositions(n - 1):
            for kids in itertools.product(*[docs_exact(p, scalars, keys, memo) for p in parts]):
                out.append({"k": "seq", "i": list(kids)})
        # maps
        for parts in compositions(n - 1):
            if len(parts) > len(keys):
                continue
            for ks in itertools.combinations(range(len(keys)), len(parts)):
                for kids in itertools.product(*[docs_exact(p, scalars, keys, memo) for p in parts]):
                    out.append({"k": "map", "e": [[keys[i], kid] for i, kid in zip(ks, kids)]})
        # sets
        if n - 1 <= len(keys):
            for ks in itertools.combinations(range(len(keys)), n - 1):
                out.append({"k": "set", "m": [keys[i] for i in ks]})
    memo[n] = out
    return out


def compositions(n):
    if n == 0:
        yield ()
        return
    for first in range(1, n + 1):
        for rest in compositions(n - first):
            yield (first,) + rest


def small_docs(maxn):
    memo = {}
    out = []
    for n in range(1, maxn + 1):
        out += docs_exact(n, S_SMALL, K_SMALL, memo)
    return out


def size(j):
    k = j["k"]
    if k == "seq":
        return 1 + sum(size(x) for x in j["i"])
    if k == "map":
        return 1 + sum(size(v) for _, v in j["e"])
    if k == "set":
        return 1 + len(j["m"])
    return 1


def rand_scalar(rng):
    return dict(rng.choice(S_BIG))


def rand_record(rng, idkey, idval, budget):
    es = [[idkey, idval]] if idkey is not None else []
    n = rng.randint(0, min(2, budget))
    for k in rng.sample([k for k in K_BIG if k != idkey], n):
        es.append([k, rand_doc(rng, 2) if rng.random() < 0.25 else rand_scalar(rng)])
    if rng.random() < 0.2:
        rng.shuffle(es)
    return {"k": "map", "e": es}


def rand_aoh(rng, budget):
    idkey = rng.choice(["a", "b", 1])
    n = rng.randint(1, max(1, min(4, budget // 2)))
    style = rng.random()
    items = []
    for i in range(n):
        if style < 0.6:
            idval = {"k": "int", "v": str(i)}                      # unique ids
        elif style < 0.8:
            idval = {"k": "int", "v": str(rng.randint(0, 1))}      # duplicates likely
        else:
            idval = rand_scalar(rng)
        items.append(rand_record(rng, idkey if (style < 0.9 or rng.random() < 0.6) else None, idval, budget // n))
    return {"k": "seq", "i": items}


def rand_doc(rng, budget):
    if budget <= 1 or rng.random() < 0.25:
        r = rng.random()
        if r < 0.08:
            return {"k": "seq", "i": []}
        if r < 0.16:
            return {"k": "map", "e": []}
        if r < 0.19:
            return {"k": "set", "m": []}
        return rand_scalar(rng)
    r = rng.random()
    if r < 0.25:
        return rand_aoh(rng, budget - 1)
    if r < 0.55:
        n = rng.randint(1, min(4, budget - 1))
        return {"k": "seq", "i": [rand_doc(rng, max(1, (budget - 1) // n)) for _ in range(n)]}
    if r < 0.92:
        n = rng.randint(1, min(4, budget - 1))
        ks = rng.sample(K_BIG, n)
        return {"k": "map", "e": [[k, rand_doc(rng, max(1, (budget - 1) // n))] for k in ks]}
    n = rng.randint(1, min(3, budget - 1))
    return {"k": "set", "m": rng.sample(K_BIG, n)}


def containers(j, acc):
    if j["k"] in ("seq", "map", "set"):
        acc.append(j)
        for c in (j["i"] if j["k"] == "seq" else [v for _, v in j["e"]] if j["k"] == "map" else []):
            containers(c, acc)
    return acc


def edit(rng, j):
    """one insert / delete / replace / reorder edit somewhere in a deep copy of j"""
    j = json.loads(json.dumps(j))
    cs = containers(j, [])
    if not cs:
        return rand_doc(rng, 3)
    c = rng.choice(cs)
    op = rng.choice(["insert", "delete", "replace", "reorder"])
    if c["k"] == "seq":
        xs = c["i"]
        if op == "insert" or not xs:
            new = (json.loads(json.dumps(rng.choice(xs))) if xs and rng.random() < 0.4 else rand_doc(rng, 3))
            xs.insert(rng.randint(0, len(xs)), new)
        elif op == "delete":
            xs.pop(rng.randrange(len(xs)))
        elif op == "replace":
            i = rng.randrange(len(xs))
            xs[i] = edit(rng, xs[i]) if rng.random() < 0.5 else rand_doc(rng, 3)
        else:
            rng.shuffle(xs)
    elif c["k"] == "map":
        es = c["e"]
        free = [k for k in K_BIG if k not in [e[0] for e in es]]
        if (op == "insert" or not es) and free:
            es.insert(rng.randint(0, len(es)), [rng.choice(free), rand_doc(rng, 3)])
        elif op == "delete" and es:
            es.pop(rng.randrange(len(es)))
        elif op == "replace" and es:
            i = rng.randrange(len(es))
            es[i][1] = edit(rng, es[i][1]) if rng.random() < 0.5 else rand_doc(rng, 3)
        else:
            rng.shuffle(es)
    else:
        ms = c["m"]
        free = [k for k in K_BIG if k not in ms]
        if (op in ("insert", "replace") or not ms) and free:
            ms.insert(rng.randint(0, len(ms)), rng.choice(free))
        elif ms and op == "delete":
            ms.pop(rng.randrange(len(ms)))
        else:
            rng.shuffle(ms)
    return j


def random_pair(rng):
    a = rand_doc(rng, rng.randint(2, 12))
    r = rng.random()
    if r < 0.15:
        return a, json.loads(json.dumps(a)), "identical"
    if r < 0.8:
        b = a
        for _ in range(rng.randint(1, 4)):
            b = edit(rng, b)
        return a, b, "edited"
    return a, rand_doc(rng, rng.randint(1, 12)), "unrelated"


# --------------------------------------------------------------------------- implementation side

class Timeout(Exception):
    pass


def _alarm(_s, _f):
    raise Timeout()


def seg_canon(path):
    """YAMLPath -> [["i", n] | ["s", text]]"""
    out = []
    for (t, a) in path.escaped:
        if t.name == "INDEX" and isinstance(a, int):
            out.append(["i", int(a)])
        elif t.name == "KEY":
            out.append(["s", str(a)])
        else:
            out.append(["?", t.name, str(a)])
    return out


def coord_entries(rdoc, section):
    """the NodeCoords -> text dictionary of DifferConfig as [[address in the right document, text]] (order kept);
    None when an entry cannot be located (then the case is not compared with the model)"""
    where = {}

    def walk(x, addr):
        if isinstance(x, dict):
            where[id(x)] = addr
            for k, v in x.items():
                walk(v, addr + [["k", codec.key_to_json(k)]])
        elif isinstance(x, list):
            where[id(x)] = addr
            for i, v in enumerate(x):
                walk(v, addr + [["i", i]])
        elif isinstance(x, (set, frozenset)) or type(x).__name__ == "CommentedSet":
            where[id(x)] = addr

    try:
        walk(rdoc, [])
        out = []
        for nc, text in section.items():
            if nc.parent is None:
                out.append([[], str(text)])
                continue
            base = where.get(id(nc.parent))
            if base is None:
                return None
            if isinstance(nc.parent, dict):
                ref = ["k", codec.key_to_json(nc.parentref)]
            elif isinstance(nc.parent, list):
                ref = ["i", int(nc.parentref)]
            else:
                ref = ["m", codec.key_to_json(nc.parentref)]
            out.append([base + [ref], str(text)])
        return out
    except (codec.OutOfModel, TypeError, ValueError):
        return None


def impl_report(lj, rj, arr, aoh, limit_s=10.0, config=None):
    """{"rep": sorted canonical entries} | {"crash": type, "site": ...} | {"timeout": 1}"""
    from yamlpath.differ import Differ, DifferConfig
    log = core.quiet_logger()
    _ents = [None]
    old = signal.signal(signal.SIGVTALRM, _alarm)
    signal.setitimer(signal.ITIMER_VIRTUAL, limit_s)
    try:
        cfg = DifferConfig(log, SimpleNamespace(arrays=arr, aoh=aoh, config=config))
        d = Differ(cfg, log, codec.json_to_ruamel(lj))
        rdoc = codec.json_to_ruamel(rj)
        if config is not None:
            # what prepare() stores does not depend on the comparison: read it first (also for runs that crash)
            cfg.prepare(rdoc)
            _ents[0] = {"rules": coord_entries(rdoc, cfg.rules), "keys": coord_entries(rdoc, cfg.keys)}
        d.compare_to(rdoc)
        rep = []
        for e in d.get_report():
            act = e.action.name.lower()
            lhs = None if act == "add" else codec.node_to_json(e._lhs, anchors=False)
            rhs = None if act == "delete" else codec.node_to_json(e._rhs, anchors=False)
            rep.append([act, seg_canon(e.path), lhs, rhs])
        rep.sort(key=lambda x: json.dumps(x, sort_keys=True))
        return {"rep": rep, "entries": _ents[0]}
    except Timeout:
        return {"timeout": 1}
    except Exception as e:  # noqa
        return {"crash": type(e).__name__, "site": core.crash_site(e), "cls": core.exc_class(e), "entries": _ents[0]}
    finally:
        signal.setitimer(signal.ITIMER_VIRTUAL, 0)
        signal.signal(signal.SIGVTALRM, old)


def model_rep(mo):
    rep = []
    for e in mo["rep"]:
        p = [["i", r[1]] if r[0] == "i" else ["s", str(r[1])] for r in e["p"]]
        rep.append([e["a"], p, e["l"], e["r"]])
    rep.sort(key=lambda x: json.dumps(x, sort_keys=True))
    return rep


# --------------------------------------------------------------------------- the property, in Python

def kind(x):
    if isinstance(x, dict):
        return "map"
    if isinstance(x, list):
        return "seq"
    if isinstance(x, (set, frozenset)):
        return "set"
    return "scalar"


def list_mode(arr, aoh, a, b):
    ex = b if len(b) > 0 else a
    if not ex:
        return "nothing"
    if isinstance(ex[0], dict):
        if aoh in ("position", "dpos"):
            return "value" if arr == "value" else ("shallow" if aoh == "position" else "pos")
        return aoh
    return "value" if arr == "value" else "pos"


def ms_eq(xs, ys, eq):
    ys = list(ys)
    for x in xs:
        for j, y in enumerate(ys):
            if eq(x, y):
                del ys[j]
                break
        else:
            return False
    return not ys


def list_mode_at(arr, aoh, rules, path, a, b):
    """list_mode under a per-path [rules] section: `rules` maps a tuple of mapping keys (as text) to a
    mode name; `path` is the tuple of mapping keys leading to this list, None below a list.  A rule takes
    the place of BOTH command-line modes for its list (DifferConfig.array_diff_mode / aoh_diff_mode ask
    the rule first)."""
    r = rules.get(path) if (rules and path is not None) else None
    if r:
        return list_mode(r if r in ARR else arr, r if r in AOH else aoh, a, b)
    return list_mode(arr or "position", aoh or "position", a, b)


def data_eq(arr, aoh, a, b, rules=None, path=()):
    """equal as data: order of a synchronised sequence disregarded.  `rules` / `path`: see list_mode_at."""
    ka = kind(a)
    if ka != kind(b):
        return False
    if ka == "scalar" or ka == "set":
        return a == b
    if ka == "map":
        return set(a) == set(b) and all(
            data_eq(arr, aoh, a[k], b[k], rules, None if path is None else path + (str(k),)) for k in a)
    m = list_mode_at(arr, aoh, rules, path, a, b) if rules else list_mode(arr, aoh, a, b)
    if m == "nothing":
        return True
    if m == "shallow":
        return a == b
    if m == "pos":
        return len(a) == len(b) and all(data_eq(arr, aoh, x, y, rules, None) for x, y in zip(a, b))
    if m in ("value", "key"):
        return ms_eq(a, b, lambda x, y: x == y)
    return ms_eq(a, b, lambda x, y: data_eq(arr, aoh, x, y, rules, None))


def identity_trouble(arr, aoh, a, b):
    """under the identity-key modes: some synchronised record list has a member without the identity
    key, a non-hash member, or two members with the same identity value (class of finding C06-K2)."""
    if aoh not in ("key", "deep"):
        return False
    found = []

    def chk_list(xs, ka):
        vals = []
        for x in xs:
            if not isinstance(x, dict) or ka not in x or kind(x[ka]) != "scalar":
                found.append(1)
                return
            if any(x[ka] == v for v in vals):
                found.append(1)
                return
            vals.append(x[ka])

    def walk(x, y):
        kx, ky = kind(x), kind(y)
        if kx == "map":
            for k, v in x.items():
                walk(v, y[k] if ky == "map" and k in y else None)
            if ky == "map":
                for k, v in y.items():
                    if k not in x:
                        walk(None, v)
        elif kx == "seq" or ky == "seq":
            xs = x if kx == "seq" else []
            ys = y if ky == "seq" else []
            ex = ys if ys else xs
            if ex and isinstance(ex[0], dict):
                ka = list(ex[0])[0] if len(ex[0]) else ""
                chk_list(xs, ka)
                chk_list(ys, ka)
            # pessimistic: look into every pairing of members
            for v in xs:
                for w in (ys or [None]):
                    walk(v, w)
            if not xs:
                for w in ys:
                    walk(None, w)
        elif ky == "map":
            for v in y.values():
                walk(None, v)

    walk(a, b)
    return bool(found)


def resolve(doc, segs):
    """the node of plain data `doc` at canonical path segments; raises KeyError"""
    cur = doc
    for s in segs:
        if s[0] == "i":
            if not isinstance(cur, list) or not (0 <= s[1] < len(cur)):
                raise KeyError(s)
            cur = cur[s[1]]
        elif s[0] == "s":
            if isinstance(cur, dict):
                ks = [k for k in cur if str(k) == s[1]]
                if len(ks) != 1:
                    raise KeyError(s)
                cur = cur[ks[0]]
            elif isinstance(cur, (set, frozenset)):
                ks = [k for k in cur if str(k) == s[1]]
                if len(ks) != 1:
                    raise KeyError(s)
                cur = ks[0]
            else:
                raise KeyError(s)
        else:
            raise KeyError(s)
    return cur


def leaves(x, pre=()):
    k = kind(x)
    if k == "scalar":
        yield list(pre)
    elif k == "seq":
        for i, v in enumerate(x):
            yield from leaves(v, pre + (["i", i],))
    elif k == "map":
        for kk, v in x.items():
            yield from leaves(v, pre + (["s", str(kk)],))
    else:
        for m in x:
            yield list(pre) + [["s", str(m)]]


def plain_json(x):
    k = kind(x)
    if k == "set":
        return {"k": "set", "m": [xkey_json(m) for m in x]}
    if k == "map":
        return {"k": "map", "e": [[xkey_json(kk), plain_json(v)] for kk, v in x.items()]}
    if k == "seq":
        return {"k": "seq", "i": [plain_json(v) for v in x]}
    return codec.scalar_to_json(x)


def set_insensitive(j):
    """canonical JSON with set members and map entries sorted (order is not data)"""
    if isinstance(j, dict) and j.get("k") == "set":
        return {"k": "set", "m": sorted(j["m"], key=str)}
    if isinstance(j, dict) and j.get("k") == "map":
        return {"k": "map", "e": sorted([[k, set_insensitive(v)] for k, v in j["e"]], key=lambda e: str(e[0]))}
    if isinstance(j, dict) and j.get("k") == "seq":
        return {"k": "seq", "i": [set_insensitive(v) for v in j["i"]]}
    return j


def zone_positional(segs, lp, rp, arr, aoh, rules):
    """every list on the way to the path `segs` is compared by position (per-path rules considered):
    the path then names the same place in both documents and the positional clauses apply to it"""
    for n, s in enumerate(segs):
        if s[0] != "i":
            continue
        pre = segs[:n]
        try:
            a, b = resolve(lp, pre), resolve(rp, pre)
        except KeyError:
            continue
        if kind(a) == "seq" and kind(b) == "seq":
            path = tuple(x[1] for x in pre) if all(x[0] == "s" for x in pre) else None
            if list_mode_at(arr, aoh, rules, path, a, b) not in ("pos", "shallow", "nothing"):
                return False
    return True


def direct_checks(lj, rj, arr, aoh, rep, rules=None):
    """violations of the property statement by the real report: list of (check, what).
    rules=None: the two modes hold for the whole document; otherwise `rules` ({key path: mode}, may be
    empty) overrides them list by list and the positional clauses are judged wherever every list above the
    entry / leaf is compared by position."""
    out = []
    lp, rp = to_plain(lj), to_plain(rj)
    positional = (arr == "position" and aoh in ("position", "dpos")) or rules is not None

    def judged(segs):
        return rules is None or zone_positional(segs, lp, rp, arr, aoh, rules)

    if positional:
        for act, segs, lhs, rhs in rep:
            if not judged(segs):
                continue
            try:
                if act in ("same", "change", "delete"):
                    v = resolve(lp, segs)
                    if lhs is None or set_insensitive(lhs) != set_insensitive(plain_json(v)):
                        out.append(("untruthful:lhs", "%s entry at %s carries left value %s but the left document holds %s" % (
                            act, segs, json.dumps(lhs), json.dumps(plain_json(v)))))
                if act in ("same", "change", "add"):
                    v = resolve(rp, segs)
                    if rhs is None or set_insensitive(rhs) != set_insensitive(plain_json(v)):
                        out.append(("untruthful:rhs", "%s entry at %s carries right value %s but the right document holds %s" % (
                            act, segs, json.dumps(rhs), json.dumps(plain_json(v)))))
            except KeyError:
                out.append(("untruthful:path", "%s entry at %s: the path does not exist in the document it speaks about" % (act, segs)))
                continue
            if act == "same" and not (to_plain(lhs) == to_plain(rhs)):
                out.append(("untruthful:same", "SAME entry at %s with different values" % (segs,)))
            if act == "change" and to_plain(lhs) == to_plain(rhs):
                out.append(("untruthful:change", "CHANGE entry at %s with equal values" % (segs,)))
        lcov = [segs for act, segs, _l, _r in rep if act in ("same", "change", "delete")]
        rcov = [segs for act, segs, _l, _r in rep if act in ("same", "change", "add")]
        for side, doc, cov in (("left", lp, lcov), ("right", rp, rcov)):
            for leaf in leaves(doc):
                if judged(leaf) and not any(leaf[:len(p)] == p for p in cov):
                    out.append(("uncovered-leaf", "%s leaf %s is covered by no entry at its path or an ancestor" % (side, leaf)))
                    break
    is_clean = all(act == "same" for act, _s, _l, _r in rep)
    eq = data_eq(arr, aoh, lp, rp, rules)
    if is_clean and not eq:
        out.append(("clean-but-different", "the report has no non-SAME entry but the documents differ as data"))
    if eq and not is_clean:
        out.append(("equal-but-reported", "the documents are equal as data but the report has non-SAME entries"))
    # accounting visible in the report: a root pair of flat scalar lists
    if kind(lp) == "seq" and kind(rp) == "seq" and all(kind(x) == "scalar" for x in lp + rp) and (lp or rp):
        nl = sum(1 for act, *_ in rep if act in ("same", "change", "delete"))
        nr = sum(1 for act, *_ in rep if act in ("same", "change", "add"))
        if nl != len(lp) or nr != len(rp):
            out.append(("accounting", "%d left elements but %d same/changed/deleted entries; %d right elements but %d same/changed/added" % (
                len(lp), nl, len(rp), nr)))
    return out


def void_clash(lp, rp):
    """some null / empty container is compared with a node of another kind at the same place
    (class of finding C06-K1; pessimistic over list pairings)"""
    def void(x):
        return x is None or (kind(x) != "scalar" and len(x) == 0)
    kx, ky = kind(lp), kind(rp)
    if kx != ky:
        return void(lp) or void(rp)
    if kx == "map":
        return any(void_clash(v, rp[k]) for k, v in lp.items() if k in rp)
    if kx == "seq":
        return any(void_clash(v, w) for v in lp for w in rp)
    return False


# --------------------------------------------------------------------------- keys that are not strings or integers
#
# The Lean documents have text and integer keys only (`Key` of Model/Basic.lean, shared by every model).  A YAML
# mapping key / set member may as well be a float, a timestamp, a date or a Boolean; the Differ names such a child
# by the TEXT of the key (escape_path_section(str(key))), and that text holds symbols of the path notation (the `.`
# of 1.5, the blank of a timestamp).  These documents are judged on the real code alone (layer 11).  In the case
# JSON such a key is written {"f": "1.5"} / {"ts": "2021-03-04 05:06:07"} / {"d": "2021-03-04"} / {"b": true};
# the key OBJECT is what the YAML loader of the library yields for that text (ScalarFloat, AnchoredTimeStamp,
# AnchoredDate, bool), in the plain data of the oracle as well as in the ruamel documents.

_XKEY_CACHE = {}


def xkey_obj(k):
    """the Python key object of a key of the case JSON"""
    if not isinstance(k, dict):
        return k
    if "b" in k:
        return bool(k["b"])
    text = k.get("f") or k.get("ts") or k.get("d")
    if text not in _XKEY_CACHE:
        from yamlpath.common import Parsers
        _XKEY_CACHE[text] = Parsers.get_yaml_editor().load("- %s\n" % text)[0]
    return _XKEY_CACHE[text]


def xkey_json(k):
    """a key object -> its form in the case JSON (text and integer keys as they are)"""
    import datetime
    if isinstance(k, bool):
        return {"b": bool(k)}
    if isinstance(k, float):
        return {"f": repr(float(k))}
    if isinstance(k, datetime.datetime):
        if type(k).__name__ == "AnchoredDate":
            return {"d": str(k).split(" ")[0]}
        return {"ts": str(k)}
    return k


def to_plain(j):
    """codec.json_to_plain with the keys of the case JSON turned into their key objects"""
    k = j["k"]
    if k == "map":
        return {xkey_obj(kk): to_plain(v) for kk, v in j["e"]}
    if k == "seq":
        return [to_plain(v) for v in j["i"]]
    if k == "set":
        return set(xkey_obj(m) for m in j["m"])
    return codec.json_to_plain(j)


def x_to_ruamel(j):
    """codec.json_to_ruamel (no anchors) with key objects as the loader yields them"""
    from ruamel.yaml.comments import CommentedMap, CommentedSeq, CommentedSet
    k = j["k"]
    if k == "map":
        out = CommentedMap()
        for kk, v in j["e"]:
            out[xkey_obj(kk)] = x_to_ruamel(v)
        return out
    if k == "seq":
        out = CommentedSeq()
        for v in j["i"]:
            out.append(x_to_ruamel(v))
        return out
    if k == "set":
        out = CommentedSet()
        for m in j["m"]:
            out.add(xkey_obj(m))
        return out
    return codec.json_to_ruamel(j)


def x_node_to_json(n):
    """codec.node_to_json(anchors=False) that also writes keys which are no text / integer"""
    if isinstance(n, (set, frozenset)) or type(n).__name__ == "CommentedSet":
        return {"k": "set", "m": [xkey_json(m) for m in n]}
    if isinstance(n, dict):
        return {"k": "map", "e": [[xkey_json(kk), x_node_to_json(v)] for kk, v in n.items()]}
    if isinstance(n, (list, tuple)):
        return {"k": "seq", "i": [x_node_to_json(v) for v in n]}
    return codec.scalar_to_json(n)


XK_ODD = [{"f": "1.5"}, {"f": "2.0"}, {"f": "0.75"}, {"f": "-0.5"}, {"f": "10.25"}, {"f": "1.25"},
          {"ts": "2021-03-04 05:06:07"}, {"ts": "2001-12-14 21:59:43.10"}, {"d": "2021-03-04"}]
# no two keys of the pools are == (Python finds the entry of 1 under true and under 1.0, and the checks of this
# module read == as "equal as data"): no Boolean keys beside 0 / 1, no 2 beside 2.0
XK_PLAIN = ["a", "b", "ab", 1, 5, 10, -1, 0, 25, 75, "2021-03-04"]
XK_SCALARS = [{"k": "str", "v": "a"}, {"k": "str", "v": "b"}, {"k": "str", "v": "ab"}, {"k": "int", "v": "0"},
              {"k": "int", "v": "1"}, {"k": "int", "v": "5"}, {"k": "bool", "v": True}, {"k": "float", "m": "15", "e": -1},
              {"k": "str", "v": "x y"}]


def xkeys_distinct(keys):
    """no two keys of one mapping (members of one set) are == or are written the same: the first is not a YAML
    mapping (1 / 1.0 / true are one dict key), the second — `1.5` the float next to '1.5' the text — is the C06
    side of finding C07-K1 (one path text for two children) and not what this layer is about"""
    objs = [xkey_obj(k) for k in keys]
    return len(set(objs)) == len(objs) and len(set(str(o) for o in objs)) == len(objs)


def xdoc_ok(j):
    if j["k"] == "map":
        return xkeys_distinct([k for k, _v in j["e"]]) and all(xdoc_ok(v) for _k, v in j["e"])
    if j["k"] == "set":
        return xkeys_distinct(j["m"])
    if j["k"] == "seq":
        return all(xdoc_ok(v) for v in j["i"])
    return True


def has_xkey(j):
    if j["k"] == "map":
        return any(isinstance(k, dict) or has_xkey(v) for k, v in j["e"])
    if j["k"] == "set":
        return any(isinstance(m, dict) for m in j["m"])
    if j["k"] == "seq":
        return any(has_xkey(v) for v in j["i"])
    return False


def lookalike(rng, k):
    """[key, node] spelling the first part of the text of the non-string key `k` as a key of its own, with the rest
    below it: 1.5 -> 1: {5: …}; a timestamp -> its date: {its time: …} — the children a mis-split path would name"""
    text = str(xkey_obj(k))
    for sepc in (".", " "):
        if sepc in text:
            head, tail = text.split(sepc, 1)
            def as_key(t):
                try:
                    return int(t) if str(int(t)) == t else t
                except ValueError:
                    return t
            return [as_key(head), {"k": "map", "e": [[as_key(tail), dict(rng.choice(XK_SCALARS))]]}]
    return None


def rand_xdoc(rng, budget, top=True):
    """a document whose mappings / sets have keys that are floats, timestamps, dates, Booleans (at any depth, next
    to text and integer keys and, half of the time, next to the look-alike nested keys of `lookalike`)"""
    r = rng.random()
    if not top and (budget <= 1 or r < 0.3):
        return dict(rng.choice(XK_SCALARS))
    if r < 0.12 and not top:
        return {"k": "seq", "i": [rand_xdoc(rng, max(1, (budget - 1) // 2), False) for _ in range(rng.randint(1, 3))]}
    if r < 0.22:
        return {"k": "set", "m": rng.sample(XK_ODD, rng.randint(1, 3)) + rng.sample(XK_PLAIN, rng.randint(0, 2))}
    if r < 0.30 and top:
        return {"k": "seq", "i": [rand_xdoc(rng, max(2, (budget - 1) // 2), False) for _ in range(rng.randint(1, 3))]}
    n = rng.randint(1, min(4, max(1, budget - 1)))
    ks = rng.sample(XK_ODD, min(n, rng.choice([1, 1, 2, 3]))) + rng.sample(XK_PLAIN, rng.choice([0, 0, 1, 2]))
    es = [[k, rand_xdoc(rng, max(1, (budget - 1) // len(ks)), False)] for k in ks]
    for k in list(ks):
        if isinstance(k, dict) and rng.random() < 0.5:
            la = lookalike(rng, k)
            if la is not None:
                es.append(la)
    rng.shuffle(es)
    return {"k": "map", "e": es}


def xedit(rng, j):
    """one edit somewhere in a copy of j: scalar replaced / entry or member removed, added, renamed to another
    non-string key / entries reordered"""
    j = json.loads(json.dumps(j))
    cs = containers(j, [])
    if not cs:
        return dict(rng.choice(XK_SCALARS))
    c = rng.choice(cs)
    op = rng.random()
    if c["k"] == "map" and c["e"]:
        es = c["e"]
        i = rng.randrange(len(es))
        if op < 0.45:
            es[i][1] = dict(rng.choice(XK_SCALARS)) if es[i][1]["k"] not in ("map", "seq", "set") or rng.random() < 0.3 \
                else xedit(rng, es[i][1])
        elif op < 0.6:
            es.pop(i)
        elif op < 0.8:
            es.insert(rng.randint(0, len(es)), [rng.choice(XK_ODD + XK_PLAIN[:4]), rand_xdoc(rng, 2, False)])
        elif op < 0.9:
            es[i][0] = rng.choice(XK_ODD)
        else:
            rng.shuffle(es)
    elif c["k"] == "set":
        ms = c["m"]
        if op < 0.5 or not ms:
            ms.insert(rng.randint(0, len(ms)), rng.choice(XK_ODD + XK_PLAIN[:4]))
        elif op < 0.8:
            ms.pop(rng.randrange(len(ms)))
        else:
            rng.shuffle(ms)
    elif c["k"] == "seq":
        xs = c["i"]
        if op < 0.4 and xs:
            i = rng.randrange(len(xs))
            xs[i] = xedit(rng, xs[i]) if xs[i]["k"] in ("map", "seq", "set") else dict(rng.choice(XK_SCALARS))
        elif op < 0.6 and xs:
            xs.pop(rng.randrange(len(xs)))
        elif op < 0.8:
            xs.insert(rng.randint(0, len(xs)), rand_xdoc(rng, 3, False))
        else:
            rng.shuffle(xs)
    else:
        c["e"].append([rng.choice(XK_ODD), dict(rng.choice(XK_SCALARS))])
    return j


def rand_xkey_case(rng):
    """(left, right, arrays, aoh): a pair of documents with non-string keys; two thirds under positional comparison
    (the clauses about the entry paths), the rest under any mode mix (clean <=> data-equal)"""
    for _ in range(200):
        a = rand_xdoc(rng, rng.randint(3, 10))
        r = rng.random()
        if r < 0.15:
            b = json.loads(json.dumps(a))
        elif r < 0.85:
            b = a
            for _n in range(rng.randint(1, 3)):
                b = xedit(rng, b)
        else:
            b = rand_xdoc(rng, rng.randint(2, 8))
        if xdoc_ok(a) and xdoc_ok(b) and (has_xkey(a) or has_xkey(b)):
            break
    else:
        a, b = XKEY_CORPUS[0]
    if rng.random() < 0.5:
        a, b = b, a
    arr, aoh = rng.choice(MODES[:2]) if rng.random() < 0.66 else rng.choice(MODES)
    return (a, b, arr, aoh)


XKEY_CORPUS = [
    # [left, right]: a float key changed / same / only on one side, beside the nested integer keys that spell its text
    ({"k": "map", "e": [["r", {"k": "map", "e": [[{"f": "1.5"}, {"k": "str", "v": "a"}], [{"f": "2.0"}, {"k": "str", "v": "b"}],
                                                [1, {"k": "map", "e": [[5, {"k": "str", "v": "ab"}]]}]]}]]},
     {"k": "map", "e": [["r", {"k": "map", "e": [[{"f": "1.5"}, {"k": "str", "v": "b"}], [{"f": "2.0"}, {"k": "str", "v": "b"}],
                                                [1, {"k": "map", "e": [[5, {"k": "str", "v": "ab"}]]}]]}]]}),
    ({"k": "map", "e": [[{"f": "0.5"}, {"k": "int", "v": "1"}]]}, {"k": "map", "e": [[{"f": "0.75"}, {"k": "int", "v": "1"}]]}),
    ({"k": "map", "e": [[{"ts": "2021-03-04 05:06:07"}, {"k": "str", "v": "a"}], [{"d": "2021-03-04"}, {"k": "str", "v": "a"}]]},
     {"k": "map", "e": [[{"ts": "2021-03-04 05:06:07"}, {"k": "str", "v": "b"}], [{"d": "2021-03-04"}, {"k": "str", "v": "a"}]]}),
    ({"k": "set", "m": [{"f": "1.5"}, "a"]}, {"k": "set", "m": [{"f": "2.0"}, "a"]}),
    ({"k": "seq", "i": [{"k": "map", "e": [[{"b": False}, {"k": "map", "e": [[{"f": "-0.5"}, {"k": "int", "v": "0"}]]}]]}]},
     {"k": "seq", "i": [{"k": "map", "e": [[{"b": False}, {"k": "map", "e": [[{"f": "-0.5"}, {"k": "int", "v": "1"}]]}]]}]}),
    ({"k": "map", "e": [[{"b": True}, {"k": "str", "v": "a"}], [{"b": False}, {"k": "str", "v": "a"}]]},
     {"k": "map", "e": [[{"b": True}, {"k": "str", "v": "a"}], [{"b": False}, {"k": "str", "v": "b"}]]}),
]


def impl_xreport(lj, rj, arr, aoh, limit_s=10.0):
    """impl_report for documents with non-string keys: {"rep": …} | {"crash": …} | {"timeout": 1}"""
    from yamlpath.differ import Differ, DifferConfig
    log = core.quiet_logger()
    old = signal.signal(signal.SIGVTALRM, _alarm)
    signal.setitimer(signal.ITIMER_VIRTUAL, limit_s)
    try:
        cfg = DifferConfig(log, SimpleNamespace(arrays=arr, aoh=aoh, config=None))
        d = Differ(cfg, log, x_to_ruamel(lj))
        d.compare_to(x_to_ruamel(rj))
        rep = []
        for e in d.get_report():
            act = e.action.name.lower()
            lhs = None if act == "add" else x_node_to_json(e._lhs)
            rhs = None if act == "delete" else x_node_to_json(e._rhs)
            rep.append([act, seg_canon(e.path), lhs, rhs])
        rep.sort(key=lambda x: json.dumps(x, sort_keys=True))
        return {"rep": rep}
    except Timeout:
        return {"timeout": 1}
    except Exception as e:  # noqa
        return {"crash": type(e).__name__, "site": core.crash_site(e), "cls": core.exc_class(e)}
    finally:
        signal.setitimer(signal.ITIMER_VIRTUAL, 0)
        signal.signal(signal.SIGVTALRM, old)


def xkey_cases(cases):
    """cases: (lj, rj, arr, aoh) with non-string keys.  Real code only: every clause of `direct_checks` on the real
    report — the entry's path, read segment by segment (a KEY segment names the ONE key / member written that way),
    must lead to the entry's left / right value in the left / right document; SAME equal, CHANGE different; every
    leaf covered; clean <=> data-equal."""
    stats = {"n": 0, "hist": {}, "nontrivial": [], "out_of_model": 0}
    viol = []

    def count(k, n=1):
        stats["hist"][k] = stats["hist"].get(k, 0) + n

    for (lj, rj, arr, aoh) in cases:
        stats["n"] += 1
        count("gen:non-string-keys")
        sz = size(lj) + size(rj)
        case = {"xkeys": True, "l": lj, "r": rj, "arr": arr, "aoh": aoh}
        im = impl_xreport(lj, rj, arr, aoh)
        if "timeout" in im:
            im = impl_xreport(lj, rj, arr, aoh, limit_s=120.0)
        if "timeout" in im:
            viol.append((sz, "timeout", "compare_to did not return within 120 s (non-string keys)", case))
            continue
        if "crash" in im:
            viol.append((sz, "crash:%s@%s" % (im["crash"], im["site"]),
                         "compare_to raised %s on documents with non-string keys (arrays=%s, aoh=%s)" % (im["crash"], arr, aoh), case))
            continue
        rep = im["rep"]
        lp, rp = to_plain(lj), to_plain(rj)
        positional = arr == "position" and aoh in ("position", "dpos")
        count("xkeys:positional" if positional else "xkeys:synchronised")
        for e in rep:
            count("xkeys:action:" + e[0])
            if any(s[0] == "s" and any(c in s[1] for c in ". :") for s in e[1]):
                count("xkeys:entry-below-a-key-with-symbols")
        for (name, what) in direct_checks(lj, rj, arr, aoh, rep):
            sig = name
            if name in ("uncovered-leaf", "clean-but-different") and void_clash(lp, rp):
                sig = "void-clash:" + name
            elif name in ("clean-but-different", "equal-but-reported") and identity_trouble(arr, aoh, lp, rp):
                sig = "identity-key:" + name
            viol.append((sz, sig, what + " (non-string keys; arrays=%s, aoh=%s)" % (arr, aoh), dict(case, impl=rep)))
        if rep:
            stats["nontrivial"].append(json.dumps([lj, rj, arr, aoh], sort_keys=True))
    import hashlib
    stats["nontrivial"] = [hashlib.blake2b(s_.encode(), digest_size=8).hexdigest() for s_ in stats["nontrivial"]]
    return stats, per_sig(viol), [], []


# --------------------------------------------------------------------------- workers

def per_sig(items, keep=4):
    """the smallest `keep` findings of every signature"""
    items = sorted(items, key=lambda v: v[0])
    seen, out = {}, []
    for it in items:
        seen[it[1]] = seen.get(it[1], 0) + 1
        if seen[it[1]] <= keep:
            out.append(it)
    return out


def run_cases(cases):
    """cases: list of (lj, rj, arr, aoh, tag).  Returns stats, violations, disagreements, samples."""
    drv = core.Driver()
    model = drv.ask([{"op": "C06.diff", "l": l, "r": r, "arr": a, "aoh": h} for (l, r, a, h, _t) in cases])
    stats = {"n": 0, "hist": {}, "nontrivial": [], "out_of_model": 0}
    viol, disag, samples = [], [], []

    def count(k):
        stats["hist"][k] = stats["hist"].get(k, 0) + 1

    for (lj, rj, arr, aoh, tag), mo in zip(cases, model):
        stats["n"] += 1
        count("mode:%s/%s" % (arr, aoh))
        count("gen:" + tag)
        count("size:%02d" % min(24, size(lj) + size(rj)))
        case = {"l": lj, "r": rj, "arr": arr, "aoh": aoh}
        im = impl_report(lj, rj, arr, aoh)
        if "timeout" in im:
            # a starved worker on a loaded machine is not a hang: ask again with a generous limit
            im = impl_report(lj, rj, arr, aoh, limit_s=120.0)
        if "timeout" in im:
            viol.append((size(lj) + size(rj), "timeout", "compare_to did not return within 120 s", case))
            continue
        if "crash" in im:
            count("impl:crash")
            viol.append((size(lj) + size(rj), "crash:%s@%s" % (im["crash"], im["site"]),
                         "compare_to raised %s (arrays=%s, aoh=%s)" % (im["crash"], arr, aoh), case))
            continue
        rep = im["rep"]
        mrep = model_rep(mo)
        agree = (rep == mrep) or ([[a, p, set_insensitive(l) if l else l, set_insensitive(r) if r else r] for a, p, l, r in rep]
                                  == [[a, p, set_insensitive(l) if l else l, set_insensitive(r) if r else r] for a, p, l, r in mrep])
        for e in rep:
            count("action:" + e[0])
        lp, rp = codec.json_to_plain(lj), codec.json_to_plain(rj)
        bad = direct_checks(lj, rj, arr, aoh, rep)
        for (chk_name, what) in bad:
            sig = chk_name
            if agree and chk_name in ("uncovered-leaf", "clean-but-different") and mo["void"] and void_clash(lp, rp):
                sig = "void-clash:" + chk_name
            elif agree and chk_name in ("clean-but-different", "equal-but-reported") and identity_trouble(arr, aoh, lp, rp):
                sig = "identity-key:" + chk_name
            viol.append((size(lj) + size(rj), sig, what + " (arrays=%s, aoh=%s)" % (arr, aoh),
                         dict(case, impl=rep)))
        if not agree:
            disag.append((size(lj) + size(rj), "report", "report differs from the model's (arrays=%s, aoh=%s)" % (arr, aoh),
                          dict(case, impl=rep, model=mrep)))
        # the model's own verdicts against the Python oracle (keeps the specification honest)
        if mo["dataEq"] != data_eq(arr, aoh, lp, rp):
            disag.append((size(lj) + size(rj), "spec:dataEq", "Lean dataEq=%s, Python data_eq=%s" % (mo["dataEq"], not mo["dataEq"]), case))
        if mo["eqv"] != (lp == rp):
            disag.append((size(lj) + size(rj), "spec:eqv", "Lean eqv=%s, Python ==: %s" % (mo["eqv"], lp == rp), case))
        if rep and (kind(lp) != "scalar" or kind(rp) != "scalar" or lp != rp):
            stats["nontrivial"].append(json.dumps([lj, rj, arr, aoh], sort_keys=True))
        if len(samples) < 1 and len(rep) >= 3:
            samples.append(dict(case, impl=rep[:4], model_agrees=agree))
    viol = per_sig(viol)
    disag = per_sig(disag)
    import hashlib
    stats["nontrivial"] = [hashlib.blake2b(s.encode(), digest_size=8).hexdigest() for s in stats["nontrivial"]]
    return stats, viol, disag, samples


def sync_cases(cases):
    """cases: (xs_json_list, ys_json_list); direct accounting + correspondence of the two synchronisers"""
    from yamlpath.differ import Differ, DifferConfig
    from yamlpath import YAMLPath
    drv = core.Driver()
    reqs = []
    for xs, ys in cases:
        reqs.append({"op": "C06.sync", "how": "value", "xs": xs, "ys": ys})
        reqs.append({"op": "C06.sync", "how": "key", "xs": xs, "ys": ys})
    model = drv.ask(reqs)
    log = core.quiet_logger()
    viol, disag = [], []
    n = 0
    for i, (xs, ys) in enumerate(cases):
        for w, how in enumerate(("value", "key")):
            ex = ys if ys else xs
            if how == "key" and not (ex and ex[0]["k"] == "map"):
                continue        # the code reaches synchronize_lods_by_key only for an Array-of-Hashes
            n += 1
            case = {"sync": how, "xs": xs, "ys": ys}
            lhs = codec.json_to_ruamel({"k": "seq", "i": xs})
            rhs = codec.json_to_ruamel({"k": "seq", "i": ys})
            try:
                if how == "value":
                    pairs = Differ.synchronize_lists_by_value(lhs, rhs)
                else:
                    d = Differ(DifferConfig(log, SimpleNamespace(arrays=None, aoh="key")), log, lhs)
                    pairs = d.synchronize_lods_by_key(YAMLPath(), lhs, rhs)
            except Exception as e:  # noqa
                viol.append((len(xs) + len(ys), "crash:%s@%s" % (type(e).__name__, core.crash_site(e)),
                             "synchronising by %s raised %s" % (how, type(e).__name__), case))
                continue
            li = sorted(p[0] for p in pairs if p[0] is not None)
            ri = sorted(p[2] for p in pairs if p[2] is not None)
            if li != list(range(len(xs))) or ri != list(range(len(ys))):
                viol.append((len(xs) + len(ys), "accounting:sync-" + how,
                             "left indices %s / right indices %s are not each accounted for exactly once" % (li, ri), case))
            for (a, x, b, y) in pairs:
                if (a is not None and x is not lhs[a]) or (b is not None and y is not rhs[b]):
                    viol.append((len(xs) + len(ys), "accounting:sync-element", "a pair carries an element that is not the one at its index", case))
            got = sorted([[p[0], p[2]] for p in pairs], key=str)
            want = sorted(model[2 * i + w]["pairs"], key=str)
            if got != want:
                disag.append((len(xs) + len(ys), "sync:" + how, "pairs %s, model %s" % (got, want), case))
    return n, per_sig(viol), per_sig(disag)


# --------------------------------------------------------------------------- per-path [rules] / [keys]

RULE_KEYS = [["p", "q", "r", "s"], ["t", "u", "w"]]          # disjoint key sets of the list-holding mappings
RULE_SCALARS = [{"k": "int", "v": "0"}, {"k": "int", "v": "1"}, {"k": "int", "v": "2"}, {"k": "int", "v": "3"},
                {"k": "str", "v": "a"}, {"k": "str", "v": "b"}, {"k": "str", "v": "ab"}, {"k": "bool", "v": True},
                {"k": "float", "m": "15", "e": -1}]


def rule_list(rng):
    """a flat list: scalars (repeats likely) or records {n, id, v} whose `id` is the intended identity"""
    if rng.random() < 0.55:
        n = rng.choice([0, 1, 2, 2, 3, 3, 4])
        return {"k": "seq", "i": [dict(rng.choice(RULE_SCALARS)) for _ in range(n)]}
    n = rng.randint(1, 3)
    ids = rng.sample(range(5), n) if rng.random() < 0.85 else [rng.randint(0, 1) for _ in range(n)]
    n_first = rng.random() < 0.4
    items = []
    for i in ids:
        es = [["n", {"k": "str", "v": rng.choice(["x", "y"])}], ["id", {"k": "int", "v": str(i)}]]
        if not n_first:
            es.reverse()
        if rng.random() < 0.6:
            es.append(["v", dict(rng.choice(RULE_SCALARS))])
        items.append({"k": "map", "e": es})
    return {"k": "seq", "i": items}


def rule_group(rng, keys):
    """a mapping of 2-4 lists; siblings are often equal-valued copies of one another"""
    ks = rng.sample(keys, rng.randint(2, len(keys)))
    base = rule_list(rng)
    es = [[k, json.loads(json.dumps(base)) if rng.random() < 0.6 else rule_list(rng)] for k in ks]
    if rng.random() < 0.3:
        es.insert(rng.randint(0, len(es)), ["z", dict(rng.choice(RULE_SCALARS))])
    return {"k": "map", "e": es}


def rule_lists_of(j, pre=()):
    """[(key path, list node)] of the lists reachable through mappings only"""
    if j["k"] == "seq":
        return [(pre, j)]
    out = []
    if j["k"] == "map":
        for k, v in j["e"]:
            out += rule_lists_of(v, pre + (str(k),))
    return out


def rule_edit_list(rng, lst):
    xs = lst["i"]
    op = rng.random()
    if op < 0.45 and len(xs) > 1:
        rng.shuffle(xs)
    elif op < 0.6 and xs:
        xs.pop(rng.randrange(len(xs)))
    elif op < 0.75:
        new = rule_list(rng)["i"]
        same_kind = [x for x in new if not xs or (x["k"] == "map") == (xs[0]["k"] == "map")]
        if same_kind:
            xs.insert(rng.randint(0, len(xs)), same_kind[0])
    elif xs:
        i = rng.randrange(len(xs))
        if xs[i]["k"] == "map":
            e = rng.choice(xs[i]["e"])
            e[1] = dict(rng.choice(RULE_SCALARS)) if e[0] == "v" else (
                {"k": "str", "v": rng.choice(["x", "y", "w"])} if e[0] == "n" else {"k": "int", "v": str(rng.randint(0, 5))})
        else:
            xs[i] = dict(rng.choice(RULE_SCALARS))


def rand_rule_case(rng):
    """right document, left document derived from it list by list (identical / reordered / edited), a
    [rules] entry for some of the lists (mode fitting the kind of list), [keys] for some record lists"""
    r = rng.random()
    if r < 0.12:
        rj = rule_list(rng)
    elif r < 0.5:
        rj = rule_group(rng, RULE_KEYS[0])
    else:
        es = [["a", rule_group(rng, RULE_KEYS[0])]]
        if rng.random() < 0.5:
            es.append(["b", rule_group(rng, RULE_KEYS[1])])
        if rng.random() < 0.3:
            es.append(["c", dict(rng.choice(RULE_SCALARS))])
        rj = {"k": "map", "e": es}
    lj = json.loads(json.dumps(rj))
    for _path, lst in rule_lists_of(lj):
        x = rng.random()
        if x < 0.3:
            continue
        for _ in range(1 if x < 0.8 else 2):
            rule_edit_list(rng, lst)
    if lj["k"] == "map" and rng.random() < 0.12:
        tgt = rng.choice([lj] + [v for _k, v in lj["e"] if v["k"] == "map"])
        if tgt["e"]:
            if rng.random() < 0.5:
                tgt["e"].pop(rng.randrange(len(tgt["e"])))
            else:
                rng.shuffle(tgt["e"])
    left = dict(rule_lists_of(lj))
    rules, keys = [], []
    for path, lst in rule_lists_of(rj):
        ex = lst["i"] or (left[path]["i"] if path in left else [])
        is_aoh = bool(ex) and ex[0]["k"] == "map"
        if rng.random() < 0.45:
            rules.append([list(path), rng.choice(["position", "value", "key", "deep"] if is_aoh else ARR)])
        if is_aoh and rng.random() < 0.4:
            keys.append([list(path), "id" if rng.random() < 0.85 else "n"])
    if not rules and not keys:
        path = rng.choice(rule_lists_of(rj))[0]
        rules.append([list(path), "value"])
    return {"l": lj, "r": rj, "arr": rng.choice([None, None, "position", "value"]),
            "aoh": rng.choice([None, None] + AOH), "rules": rules, "keys": keys}


AOH_ONLY = ["dpos", "key", "deep"]


def part_index(path, i):
    """the path of element i of the list at `path` (as the parts of ini_text)"""
    return list(path[:-1]) + ["%s[%d]" % (path[-1], i)]


def rand_rule_case_model(rng):
    """per-path configuration the direct checks do not cover - compared with the Lean model only (`model_only`):
    lists inside lists with a [rules] entry for an element (the Processor counts from 0, the Differ hands down pos + 1),
    [keys] entries for single records (`use_key`), [rules] texts that are modes of the other kind of list (`dpos`/`key`/`deep`
    met by `array_diff_mode`: finding C06-K4) or no mode at all, empty lists, rules on mappings / scalars"""
    c = rand_rule_case(rng)
    c["model_only"] = True
    rj, lj = c["r"], c["l"]
    lists = [(p_, l_) for p_, l_ in rule_lists_of(rj) if p_]
    x = rng.random()
    if x < 0.3 and rj["k"] == "map":
        # wrap some lists into a list of lists: {g: [L1, L2, L1']}, rules for elements
        inner = [json.loads(json.dumps(rule_list(rng))) for _ in range(rng.randint(1, 3))]
        if inner and rng.random() < 0.6:
            inner.append(json.loads(json.dumps(inner[0])))
        linner = json.loads(json.dumps(inner))
        for l_ in linner:
            if rng.random() < 0.6:
                rule_edit_list(rng, l_)
        if rng.random() < 0.3 and len(linner) > 1:
            rng.shuffle(linner)
        rj["e"].append(["g", {"k": "seq", "i": inner}])
        lj["e"].append(["g", {"k": "seq", "i": linner}])
        for i, l_ in enumerate(inner):
            if rng.random() < 0.6:
                is_aoh = bool(l_["i"]) and l_["i"][0]["k"] == "map"
                c["rules"].append([["g[%d]" % i], rng.choice(["position", "value", "key", "deep"] if is_aoh else ARR)])
        if rng.random() < 0.4:
            c["rules"].append([["g"], rng.choice(ARR)])
    elif x < 0.6:
        # identity keys for single records
        for p_, l_ in lists:
            if l_["i"] and l_["i"][0]["k"] == "map":
                for i in range(len(l_["i"])):
                    if rng.random() < 0.4:
                        c["keys"].append([part_index(p_, i), rng.choice(["id", "n", "v", "zz"])])
                if not any(r_[0] == list(p_) for r_ in c["rules"]) and rng.random() < 0.7:
                    c["rules"].append([list(p_), rng.choice(["key", "deep"])])
    elif x < 0.85:
        # texts of the other kind / no mode at all / upper case
        for p_, l_ in lists:
            if rng.random() < 0.5:
                c["rules"] = [r_ for r_ in c["rules"] if r_[0] != list(p_)]
                c["rules"].append([list(p_), rng.choice(AOH_ONLY + AOH_ONLY + ["VALUE", "Position", "bogus", "values"])])
    else:
        # rules / keys on nodes that are no lists
        if rj["k"] == "map" and rj["e"]:
            k = rng.choice(rj["e"])[0]
            c["rules"].append([[str(k)], rng.choice(ARR + AOH_ONLY)])
            c["keys"].append([[str(k)], rng.choice(["id", "n"])])
    for sec in ("rules", "keys"):          # configparser refuses a repeated option
        seen, out = set(), []
        for p_, v in c[sec]:
            if tuple(p_) not in seen:
                seen.add(tuple(p_))
                out.append([p_, v])
        c[sec] = out
    return c


def rule_model_corpus():
    P = plain_to_json
    return [
        # an entry for the second of two equal inner lists is found for the first (pos + 1 against the Processor's 0-based index)
        {"l": P({"g": [[2, 1], [1, 2]]}), "r": P({"g": [[1, 2], [1, 2]]}), "arr": None, "aoh": None,
         "rules": [[["g[1]"], "value"]], "keys": [], "model_only": True},
        {"l": P({"g": [[2, 1], [1, 2]]}), "r": P({"g": [[1, 2], [1, 2]]}), "arr": None, "aoh": None,
         "rules": [[["g[0]"], "value"]], "keys": [], "model_only": True},
        # dpos as a rule for a record list (C06-K4)
        {"l": P({"a": [{"id": 1}]}), "r": P({"a": [{"id": 1}]}), "arr": None, "aoh": None,
         "rules": [[["a"], "dpos"]], "keys": [], "model_only": True},
        {"l": P({"a": [1, 2]}), "r": P({"a": [2, 1]}), "arr": None, "aoh": None,
         "rules": [[["a"], "key"]], "keys": [], "model_only": True},
        # a record of its own identity key which the left record does not have
        {"l": P({"a": [{"id": 1}, {"id": 2}]}), "r": P({"a": [{"id": 1, "n": "x"}, {"id": 2}]}), "arr": None, "aoh": "key",
         "rules": [], "keys": [[["a[0]"], "n"]], "model_only": True},
        {"l": P({"a": [{"id": 1}, {"id": 2}]}), "r": P({"a": [{"id": 1}, {"id": 2, "n": "x"}]}), "arr": None, "aoh": "key",
         "rules": [], "keys": [[["a[1]"], "n"]], "model_only": True},
        {"l": P({"a": [{"id": 1, "n": "y"}, {"id": 2, "n": "x"}]}), "r": P({"a": [{"id": 1, "n": "x"}, {"id": 2, "n": "y"}]}),
         "arr": None, "aoh": "deep", "rules": [], "keys": [[["a[0]"], "n"], [["a"], "id"]], "model_only": True},
    ]


def ini_text(case):
    def line(path, val):
        return "/%s = %s\n" % ("/".join(path), val)
    return ("[rules]\n" + "".join(line(e[0], e[1]) for e in case.get("rules", [])) +
            "[keys]\n" + "".join(line(e[0], e[1]) for e in case.get("keys", [])))


DEAD_NAMES = ["nope", "gone", "zz9", "missing"]


def with_dead_entries(rng, c):
    """the case with 1-3 [rules] / [keys] entries added whose path matches NO node of the right-hand document (the
    document the configuration is matched against): a sibling key that does not exist, a path below a missing
    mapping, or the path of a list only the LEFT document has — at random positions of their section, so before,
    between and after the entries that do match.  Such an entry speaks of no node (the tool warns and goes on);
    every other entry keeps its meaning, which is what the oracle (the entries without the dead ones) judges.
    Dead entries are marked [path, text, "dead"]."""
    c = json.loads(json.dumps(c))
    live = [tuple(e[0]) for e in c["rules"] + c["keys"]] or [()]
    taken = set(tuple(e[0]) for e in c["rules"] + c["keys"])
    rkeys = set(str(k) for k, _v in c["r"]["e"]) if c["r"]["k"] == "map" else set()
    for _ in range(rng.choice([1, 1, 2, 3])):
        base = list(rng.choice(live))
        name = rng.choice(DEAD_NAMES)
        r = rng.random()
        if r < 0.4 and base:
            path = base[:-1] + [name]
        elif r < 0.6:
            path = [name, rng.choice(["p", "x"])]
        elif r < 0.8 and c["l"]["k"] == "map" and c["r"]["k"] == "map" and name not in rkeys:
            # a list that only the left document holds
            if not any(str(k) == name for k, _v in c["l"]["e"]):
                c["l"]["e"].insert(rng.randint(0, len(c["l"]["e"])), [name, rule_list(rng)])
            path = [name]
        else:
            path = [name]
        if tuple(path) in taken or (len(path) == 1 and path[0] in rkeys):
            continue
        taken.add(tuple(path))
        sec = "rules" if (rng.random() < 0.65 or not c["keys"]) else "keys"
        text = rng.choice(["value", "position", "key", "deep"]) if sec == "rules" else rng.choice(["id", "n"])
        c[sec].insert(rng.randint(0, len(c[sec])) if rng.random() < 0.6 else 0, [path, text, "dead"])
    return c


def rule_identity_trouble(arr, aoh, rules, keys, lp, rp):
    """class of finding C06-K2 under per-path rules: a record list synchronised by identity key in which a
    record lacks the key or two records share its value.  The key is the list's own [keys] entry or else
    the first key of the first right-hand record; the code also hands a [keys] entry to every list that is
    == to the entry's list, so those keys are candidates too (pessimistic)."""
    keyed = []
    for path, key in keys.items():
        try:
            node = rp
            for k in path:
                node = node[k]
            keyed.append((node, key))
        except (KeyError, TypeError, IndexError):
            pass
    found = []

    def bad(xs, ka):
        vals = []
        for x in xs:
            if not isinstance(x, dict) or ka not in x or kind(x[ka]) != "scalar" or any(x[ka] == v for v in vals):
                return True
            vals.append(x[ka])
        return False

    def walk(a, b, path):
        if kind(a) == "map" and kind(b) == "map":
            for k in a:
                if k in b:
                    walk(a[k], b[k], path + (str(k),))
        elif kind(a) == "seq" and kind(b) == "seq":
            if list_mode_at(arr, aoh, rules, path, a, b) in ("key", "deep"):
                ex = b if b else a
                cands = {keys[path] if path in keys else (list(ex[0])[0] if len(ex[0]) else "")}
                cands |= {key for node, key in keyed if node == b}
                if any(bad(a, ka) or bad(b, ka) for ka in cands):
                    found.append(1)

    walk(lp, rp, ())
    return bool(found)


def rule_capture_hazard(rules, keys, rp):
    """class of finding C06-K3: DifferConfig recognises the node of a [rules]/[keys] entry by == of the node, == of its
    parent and the reference - not by identity - so a list elsewhere in the right document that is equal, has an equal
    parent and is held under the same reference (a key; the Differ counts list positions from 1) takes the entry's mode."""
    entries = []
    for path in list(rules) + list(keys):
        try:
            par, node = None, rp
            for k in path:
                par, node = node, [v for kk, v in node.items() if str(kk) == k][0]
            entries.append((path, node, par, path[-1] if path else None))
        except (KeyError, IndexError, AttributeError, TypeError):
            pass
    hit = []

    def walk(x, par, ref, path):
        if kind(x) == "seq":
            for (epath, node, epar, eref) in entries:
                if path != epath and x == node and par == epar and (str(ref) == str(eref) if ref is not None else eref is None):
                    hit.append(1)
            for i, v in enumerate(x):
                walk(v, x, i + 1, None)
        elif kind(x) == "map":
            for k, v in x.items():
                walk(v, x, k, None if path is None else path + (str(k),))

    walk(rp, None, None, ())
    return bool(hit)


RULE_CORPUS = [
    # the entry's list and an equal list below an equal mapping elsewhere (C06-K3)
    {"l": {"a": {"p": [1, 2]}, "b": [{"p": [2, 1]}]}, "r": {"a": {"p": [1, 2]}, "b": [{"p": [1, 2]}]},
     "arr": None, "aoh": "dpos", "rules": [[["a", "p"], "value"]], "keys": []},
    {"l": {"a": {"p": [1, 2], "q": 0}, "b": {"p": [2, 1], "q": 0}}, "r": {"a": {"p": [1, 2], "q": 0}, "b": {"p": [1, 2], "q": 0}},
     "arr": None, "aoh": None, "rules": [[["a", "p"], "value"]], "keys": []},
    {"l": {"a": {"p": ["y", "x"]}, "b": {"p": ["x", "y"]}}, "r": {"a": {"p": ["x", "y"]}, "b": {"p": ["x", "y"]}},
     "arr": "value", "aoh": None, "rules": [[["b", "p"], "position"]], "keys": []},
    # the same shapes without the coincidence
    {"l": {"a": {"p": [1, 2]}, "b": [{"p": [2, 1]}]}, "r": {"a": {"p": [1, 2]}, "b": [{"p": [1, 2], "q": 0}]},
     "arr": None, "aoh": "dpos", "rules": [[["a", "p"], "value"]], "keys": []},
    {"l": {"g": {"p": ["a", "b"], "s": ["a", "b"]}}, "r": {"g": {"p": ["b", "a"], "s": ["b", "a"]}},
     "arr": None, "aoh": None, "rules": [[["g", "p"], "value"]], "keys": []},
    {"l": {"u": [{"n": "x", "id": 1}, {"n": "x", "id": 2}], "w": [{"n": "x", "id": 1}, {"n": "x", "id": 2}]},
     "r": {"u": [{"n": "x", "id": 2}, {"n": "x", "id": 1}], "w": [{"n": "x", "id": 2}, {"n": "x", "id": 1}]},
     "arr": None, "aoh": None, "rules": [[["u"], "key"]], "keys": [[["u"], "id"]]},
]


def rule_corpus_cases():
    return [dict(c, l=plain_to_json(c["l"]), r=plain_to_json(c["r"])) for c in RULE_CORPUS]


def rule_case_parts(c):
    rules = {tuple(e[0]): e[1] for e in c.get("rules", []) if len(e) == 2}
    keys = {tuple(e[0]): e[1] for e in c.get("keys", []) if len(e) == 2}
    return c["arr"] or "position", c["aoh"] or "position", rules, keys


def rule_cases(cases):
    """documents compared under a real INI file with [rules] / [keys]: the report (or crash class) against the
    per-path Lean model (`C06.diffRules`, fed with the coordinates DifferConfig.prepare stored), and the direct
    checks on the real report (not for `model_only` cases)"""
    tmpd = tempfile.mkdtemp(prefix="ypv-c06-")
    cf = os.path.join(tmpd, "rules.ini")
    stats = {"n": 0, "hist": {}, "nontrivial": [], "out_of_model": 0}
    viol, disag, pending = [], [], []

    def count(k):
        stats["hist"][k] = stats["hist"].get(k, 0) + 1

    try:
        for c in cases:
            lj, rj = c["l"], c["r"]
            arr, aoh, rules, keys = rule_case_parts(c)
            with open(cf, "w") as fh:
                fh.write(ini_text(c))
            stats["n"] += 1
            count("gen:rules")
            dead = [e for sec in ("rules", "keys") for e in c.get(sec, []) if len(e) == 3]
            if dead:
                count("rules:with-dead-path")
                if any(len(e) == 3 and any(len(f) == 2 for f in c[sec][i + 1:]) for sec in ("rules", "keys") for i, e in enumerate(c.get(sec, []))):
                    count("rules:dead-path-before-live-entry")
            sz = size(lj) + size(rj)
            case = dict(c, ini=ini_text(c))
            im = impl_report(lj, rj, c["arr"], c["aoh"], config=cf)
            if "timeout" in im:
                im = impl_report(lj, rj, c["arr"], c["aoh"], limit_s=120.0, config=cf)
            if "timeout" in im:
                viol.append((sz, "timeout", "compare_to did not return within 120 s (config file)", case))
                continue
            ents = im.get("entries")
            if ents and ents["rules"] is not None and ents["keys"] is not None:
                pending.append((sz, case, im, {"op": "C06.diffRules", "l": lj, "r": rj, "arr": arr, "aoh": aoh,
                                               "rules": ents["rules"], "keys": ents["keys"]}))
            else:
                stats["out_of_model"] += 1
            if "crash" in im:
                texts = [str(m).upper() for m in rules.values()]
                if im["crash"] == "NameError" and any(t not in [a.upper() for a in AOH] for t in texts):
                    count("rules:text-names-no-mode")      # from_str raises NameError by contract: not judged
                    im["unjudged"] = True
                elif not pending or pending[-1][2] is not im:
                    viol.append((sz, "crash:%s@%s" % (im["crash"], im["site"]),
                                 "compare_to raised %s under a config file with [rules]/[keys]" % im["crash"], case))
                continue
            if c.get("model_only"):
                count("gen:rules-model-only")
                if im["rep"]:
                    stats["nontrivial"].append(json.dumps([lj, rj, c["arr"], c["aoh"], c.get("rules"), c.get("keys")], sort_keys=True))
                continue
            rep = im["rep"]
            lp, rp = codec.json_to_plain(lj), codec.json_to_plain(rj)
            lists = dict((p_, 1) for p_, _l in rule_lists_of(rj))
            eq_sib = len(set(json.dumps(l) for _p, l in rule_lists_of(rj))) < len(lists)
            count("rules:equal-valued-sibling-lists" if eq_sib else "rules:distinct-lists")
            for m in set(rules.values()):
                count("rules:mode:" + m)
            if keys:
                count("rules:with-keys")
            for e in rep:
                count("action:" + e[0])
            trouble = None
            captured = rule_capture_hazard(rules, keys, rp)
            for (chk_name, what) in direct_checks(lj, rj, arr, aoh, rep, rules=rules):
                sig = chk_name
                if captured:
                    sig = "rule-capture:" + chk_name
                elif chk_name in ("clean-but-different", "equal-but-reported"):
                    if trouble is None:
                        trouble = rule_identity_trouble(arr, aoh, rules, keys, lp, rp)
                    if trouble:
                        sig = "identity-key:" + chk_name
                viol.append((sz, sig, what + " (arrays=%s, aoh=%s, [rules] %s, [keys] %s)" % (
                    c["arr"], c["aoh"], c.get("rules"), c.get("keys")), dict(case, impl=rep)))
            if rep:
                stats["nontrivial"].append(json.dumps([lj, rj, c["arr"], c["aoh"], c.get("rules"), c.get("keys")], sort_keys=True))
    finally:
        shutil.rmtree(tmpd, ignore_errors=True)
    # the per-path model
    CR = {"NameError": "nameError", "KeyError": "keyError"}
    if pending:
        model = core.Driver().ask([q for (_s, _c, _i, q) in pending])
        for (sz, case, im, q), mo in zip(pending, model):
            count("rules:model-compared")
            count("rules:entries:%d" % min(6, len(q["rules"]) + len(q["keys"])))
            if "crash" in im:
                count("rules:crash:" + im["crash"])
                explained = mo.get("crash") == CR.get(im["crash"])
                if not explained:
                    disag.append((sz, "rules:crash", "compare_to raised %s, the model says %s" % (
                        im["crash"], mo.get("crash", "a report")), dict(case, entries=q, model=mo)))
                if not im.get("unjudged"):
                    # a crash the per-path model predicts from the configuration is one of the recorded classes
                    # (C06-K4 / C06-K5); any other crash keeps the plain signature
                    viol.append((sz, "%s:%s@%s" % ("rules-crash" if explained else "crash", im["crash"], im["site"]),
                                 "compare_to raised %s under a config file with [rules]/[keys]" % im["crash"], case))
                continue
            if "crash" in mo:
                disag.append((sz, "rules:crash", "the model says %s, compare_to returned a report" % mo["crash"],
                              dict(case, entries=q, impl=im["rep"])))
                continue
            rep, mrep = im["rep"], model_rep(mo)
            if rep != mrep and ([[a, p_, set_insensitive(l) if l else l, set_insensitive(r) if r else r] for a, p_, l, r in rep]
                                != [[a, p_, set_insensitive(l) if l else l, set_insensitive(r) if r else r] for a, p_, l, r in mrep]):
                disag.append((sz, "rules:report", "report under [rules]/[keys] differs from the per-path model's",
                              dict(case, entries=q, impl=rep, model=mrep)))
    import hashlib
    stats["nontrivial"] = [hashlib.blake2b(s_.encode(), digest_size=8).hexdigest() for s_ in stats["nontrivial"]]
    return stats, per_sig(viol), per_sig(disag), []


# --------------------------------------------------------------------------- one Differ, several comparisons

def canon_report(d):
    rep = []
    for e in d.get_report():
        act = e.action.name.lower()
        lhs = None if act == "add" else codec.node_to_json(e._lhs, anchors=False)
        rhs = None if act == "delete" else codec.node_to_json(e._rhs, anchors=False)
        rep.append([act, seg_canon(e.path), lhs, rhs])
    rep.sort(key=lambda x: json.dumps(x, sort_keys=True))
    return rep


def impl_reuse(lj, rjs, arr, aoh, reads, limit_s=30.0):
    """ONE Differ for the left document; compare_to(right_i) in turn, get_report() read reads[i] times after each.
    {"steps": [[report, ...], ...]} | {"crash": ..., "step": i} | {"timeout": 1}"""
    from yamlpath.differ import Differ, DifferConfig
    log = core.quiet_logger()
    old = signal.signal(signal.SIGVTALRM, _alarm)
    signal.setitimer(signal.ITIMER_VIRTUAL, limit_s)
    steps = []
    try:
        cfg = DifferConfig(log, SimpleNamespace(arrays=arr, aoh=aoh, config=None))
        d = Differ(cfg, log, codec.json_to_ruamel(lj))
        for rj, n in zip(rjs, reads):
            d.compare_to(codec.json_to_ruamel(rj))
            steps.append([canon_report(d) for _ in range(n)])
        return {"steps": steps}
    except Timeout:
        return {"timeout": 1}
    except Exception as e:  # noqa
        return {"crash": type(e).__name__, "site": core.crash_site(e), "step": len(steps)}
    finally:
        signal.setitimer(signal.ITIMER_VIRTUAL, 0)
        signal.signal(signal.SIGVTALRM, old)


def reuse_cases(cases):
    """cases: (lj, [rj...], arr, aoh, [reads...]).  The clauses are judged on every report read from the REUSED Differ,
    for the pair (left, right of that step); the oracle for what the pinned code is known to get wrong on that pair is
    a FRESH Differ (and fresh DifferConfig) for that single comparison: a clause that fails on the reused object's
    report and not on the fresh one's is a violation `reuse:<clause>`."""
    stats = {"n": 0, "hist": {}, "nontrivial": [], "out_of_model": 0}
    viol, disag = [], []

    def count(k, n=1):
        stats["hist"][k] = stats["hist"].get(k, 0) + n

    for (lj, rjs, arr, aoh, reads) in cases:
        stats["n"] += 1
        count("gen:reuse")
        sz = size(lj) + sum(size(r) for r in rjs)
        case = {"reuse": True, "l": lj, "rs": rjs, "arr": arr, "aoh": aoh, "reads": reads}
        im = impl_reuse(lj, rjs, arr, aoh, reads)
        if "timeout" in im:
            im = impl_reuse(lj, rjs, arr, aoh, reads, limit_s=240.0)
        fresh = [impl_report(lj, rj, arr, aoh, limit_s=120.0) for rj in rjs]
        if "timeout" in im:
            viol.append((sz, "timeout", "a sequence of %d comparisons on one Differ did not return" % len(rjs), case))
            continue
        if "crash" in im:
            if all("rep" in f for f in fresh[:im["step"] + 1]):
                viol.append((sz, "reuse:crash:%s@%s" % (im["crash"], im["site"]),
                             "comparison %d on a reused Differ raised %s; a fresh Differ compares the same pair" % (im["step"] + 1, im["crash"]), case))
            else:
                count("reuse:crash-also-fresh")
            continue
        for i, (reps, f) in enumerate(zip(im["steps"], fresh)):
            if "rep" not in f or not reps:
                count("reuse:step-not-judged")
                continue
            count("reuse:steps-judged")
            if i > 0:
                count("reuse:later-steps-judged")
                if any(im["steps"][j] for j in range(i)):
                    count("reuse:later-step-after-a-read")
            known = set(n_ for n_, _w in direct_checks(lj, rjs[i], arr, aoh, f["rep"]))
            done = False
            for rn, rep in enumerate(reps):
                for (name, what) in direct_checks(lj, rjs[i], arr, aoh, rep):
                    if name in known:
                        continue
                    viol.append((sz, "reuse:" + name, "comparison %d of %d on one Differ (report read %d time(s) before), read %d: %s (arrays=%s, aoh=%s)" % (
                        i + 1, len(rjs), sum(reads[:i]), rn + 1, what, arr, aoh), dict(case, step=i, impl=rep, fresh=f["rep"])))
                    done = True
                    break
                if done:
                    break
                if rep != f["rep"]:
                    disag.append((sz, "reuse:report-differs-from-fresh", "comparison %d on a reused Differ: the report differs from a fresh Differ's" % (i + 1),
                                  dict(case, step=i, impl=rep, fresh=f["rep"])))
                    break
            if reps and reps[0]:
                stats["nontrivial"].append(json.dumps([lj, rjs, arr, aoh, reads, i], sort_keys=True))
    import hashlib
    stats["nontrivial"] = [hashlib.blake2b(s_.encode(), digest_size=8).hexdigest() for s_ in stats["nontrivial"]]
    return stats, per_sig(viol), per_sig(disag), []


def rand_reuse_case(rng):
    a, b, _tag = random_pair(rng)
    pool = [lambda: json.loads(json.dumps(a)), lambda: edit(rng, a), lambda: edit(rng, edit(rng, a)), lambda: b,
            lambda: rand_doc(rng, rng.randint(1, 8)), lambda: json.loads(json.dumps(a))]
    n = rng.choice([2, 2, 3])
    rjs = [rng.choice(pool)() for _ in range(n)]
    reads = [rng.choice([0, 1, 1, 2]) for _ in range(n)]
    reads[-1] = max(1, reads[-1])
    x, h = rng.choice(MODES)
    return (a, rjs, x, h, reads)


# --------------------------------------------------------------------------- CLI sample

def dump_yaml(j, path):
    from yamlpath.common import Parsers
    y = Parsers.get_yaml_editor()
    with open(path, "w") as fh:
        y.dump(codec.json_to_ruamel(j), fh)


# output selection: -s/--same and -o/--onlysame exclude each other; yaml-diff refuses -q/--quiet together with
# either (validateargs); -v/--verbose only changes the layout of what is shown
DISPLAY = [[], ["-s"], ["-o"], ["-q"], ["--same"], ["--onlysame"], ["--quiet"], ["-v"], ["-s", "-v"], ["-o", "-v"],
           ["-o"], ["-q"]]


def cli_exit(lj, rj, arr, aoh, tmpd, dfl_in_config=False, display=(), ini=None):
    """exit status of yaml-diff main() run in-process on dumped files (None: could not run).
    display: output-selection options; ini: text of a config file with [rules]/[keys] (then arr / aoh, when
    not None, go on the command line)"""
    import io
    import contextlib
    from yamlpath.commands import yaml_diff
    lf, rf = os.path.join(tmpd, "l.yaml"), os.path.join(tmpd, "r.yaml")
    dump_yaml(lj, lf)
    dump_yaml(rj, rf)
    argv = ["yaml-diff"] + list(display)
    cf = os.path.join(tmpd, "c.ini")
    if ini is not None:
        with open(cf, "w") as fh:
            fh.write(ini)
        argv += ["--config", cf] + (["--arrays", arr] if arr else []) + (["--aoh", aoh] if aoh else [])
    elif dfl_in_config:
        with open(cf, "w") as fh:
            fh.write("[defaults]\narrays = %s\naoh = %s\n" % (arr, aoh))
        argv += ["--config", cf]
    else:
        argv += ["--arrays", arr, "--aoh", aoh]
    argv += [lf, rf]
    old_argv = sys.argv
    sys.argv = argv
    old = signal.signal(signal.SIGVTALRM, _alarm)
    signal.setitimer(signal.ITIMER_VIRTUAL, 20.0)
    buf = io.StringIO()
    try:
        with contextlib.redirect_stdout(buf), contextlib.redirect_stderr(io.StringIO()):
            try:
                yaml_diff.main()
                return ("noexit", buf.getvalue())
            except SystemExit as e:
                return (e.code if e.code is not None else 0, buf.getvalue())
    except Timeout:
        return ("timeout", "")
    except Exception as e:  # noqa
        return ("crash:%s@%s" % (type(e).__name__, core.crash_site(e)), "")
    finally:
        signal.setitimer(signal.ITIMER_VIRTUAL, 0)
        signal.signal(signal.SIGVTALRM, old)
        sys.argv = old_argv


def roundtrips(j, tmpd):
    """the dumped file loads back to the same data (otherwise the CLI case says nothing)"""
    from yamlpath.common import Parsers
    p = os.path.join(tmpd, "t.yaml")
    dump_yaml(j, p)
    y = Parsers.get_yaml_editor()
    with open(p) as fh:
        back = y.load(fh)
    try:
        return json.dumps(set_insensitive(codec.node_to_json(back, anchors=False)), sort_keys=True) == json.dumps(
            set_insensitive(j), sort_keys=True)
    except codec.OutOfModel:
        return False


def cli_cases(cases):
    """cases: (lj, rj, arr, aoh, tag[, extra]); extra = {"display": [...options], "rules": [...], "keys": [...]}.
    Whatever is selected for display, yaml-diff exits 0 exactly when the library report is clean and exactly
    when the documents are equal as data."""
    cases = [tuple(c) + ({},) if len(c) == 5 else tuple(c) for c in cases]
    drv = core.Driver()
    model = drv.ask([{"op": "C06.diff", "l": l, "r": r, "arr": a or "position", "aoh": h or "position"}
                     for (l, r, a, h, _t, _x) in cases])
    tmpd = tempfile.mkdtemp(prefix="ypv-c06-")
    viol, disag = [], []
    n = skipped = 0
    try:
        for idx, ((lj, rj, arr, aoh, _t, extra), mo) in enumerate(zip(cases, model)):
            # yaml-diff's loader turns a document that is just '' into "no document": not the Differ's business
            if lj == {"k": "str", "v": ""} or rj == {"k": "str", "v": ""} or not (
                    roundtrips(lj, tmpd) and roundtrips(rj, tmpd)):
                skipped += 1
                continue
            display = list(extra.get("display", []))
            has_cfg = "rules" in extra or "keys" in extra
            ini = ini_text(extra) if has_cfg else None
            cf = None
            if has_cfg:
                cf = os.path.join(tmpd, "lib.ini")
                with open(cf, "w") as fh:
                    fh.write(ini)
            im = impl_report(lj, rj, arr, aoh, config=cf)
            if "rep" not in im:
                skipped += 1
                continue
            n += 1
            lib_clean = all(e[0] == "same" for e in im["rep"])
            in_config = (idx % 4 == 3) and not has_cfg
            code, out = cli_exit(lj, rj, arr, aoh, tmpd, dfl_in_config=in_config, display=display, ini=ini)
            case = {"l": lj, "r": rj, "arr": arr, "aoh": aoh, "cli": True, "config_defaults": in_config}
            if display:
                case["display"] = display
            if has_cfg:
                case.update(rules=extra.get("rules", []), keys=extra.get("keys", []), ini=ini)
            shown = " ".join(display) or "no display option"
            if code not in (0, 1):
                viol.append((size(lj) + size(rj), "cli:%s" % code, "yaml-diff main() (%s) ended with %s" % (shown, code), case))
                continue
            if (code == 0) != lib_clean:
                viol.append((size(lj) + size(rj), "exit-status", "yaml-diff (%s) exits %s but the library report is %s" % (
                    shown, code, "clean" if lib_clean else "not clean"), case))
            # the clause itself, independent of the library report: exit 0 <=> equal as data (the classes of the
            # known findings K1 / K2, where the report is not clean-iff-equal, left to the library-level cases)
            lp, rp = codec.json_to_plain(lj), codec.json_to_plain(rj)
            a_, h_, rules, keys = rule_case_parts({"arr": arr, "aoh": aoh, "rules": extra.get("rules", []),
                                                   "keys": extra.get("keys", [])})
            if has_cfg:
                eq = data_eq(a_, h_, lp, rp, rules)
                excused = rule_identity_trouble(a_, h_, rules, keys, lp, rp) or rule_capture_hazard(rules, keys, rp)
            else:
                eq = data_eq(a_, h_, lp, rp)
                excused = void_clash(lp, rp) or identity_trouble(a_, h_, lp, rp)
            if (code == 0) != eq and not excused:
                viol.append((size(lj) + size(rj), "exit-status:data-equal", "yaml-diff (%s) exits %s but the documents are %s as data" % (
                    shown, code, "equal" if eq else "different"), case))
            out = "\n".join(x for x in out.split("\n") if not x.startswith("WARNING"))
            if not display and (code == 0) != (out.strip() == ""):
                viol.append((size(lj) + size(rj), "exit-status:output", "yaml-diff exits %s but printed %d characters" % (
                    code, len(out.strip())), case))
            if not has_cfg and code != mo["exit"]:
                disag.append((size(lj) + size(rj), "exit", "yaml-diff (%s) exits %s, model %s" % (shown, code, mo["exit"]), case))
    finally:
        shutil.rmtree(tmpd, ignore_errors=True)
    return n, skipped, per_sig(viol), per_sig(disag)


def tables_check(chk):
    from yamlpath.differ.enums import ArrayDiffOpts, AoHDiffOpts, DiffActions
    from yamlpath.differ import DifferConfig
    from yamlpath.wrappers import NodeCoords
    t = core.Driver().ask([{"op": "C06.tables"}])[0]
    if sorted(t["arrays"]) != sorted(ArrayDiffOpts.get_names()) or sorted(t["aoh"]) != sorted(AoHDiffOpts.get_names()) \
            or sorted(t["actions"]) != sorted(a.name for a in DiffActions):
        chk.disagreement("tables", "mode / action name tables differ from the live enums", {"model": t})
    # mode precedence: command line > config [defaults] > POSITION   (no [rules] section)
    log = core.quiet_logger()
    tmpd = tempfile.mkdtemp(prefix="ypv-c06-")
    try:
        reqs, got = [], []
        for cliA in [None] + ARR:
            for dA in [None] + ARR:
                for cliH in [None] + AOH:
                    for dH in [None] + AOH:
                        cf = None
                        if dA or dH:
                            cf = os.path.join(tmpd, "c.ini")
                            with open(cf, "w") as fh:
                                fh.write("[defaults]\n" + ("arrays = %s\n" % dA if dA else "") + ("aoh = %s\n" % dH if dH else ""))
                        cfg = DifferConfig(log, SimpleNamespace(arrays=cliA, aoh=cliH, config=cf))
                        nc = NodeCoords([], None, None)
                        got.append({"arr": str(cfg.array_diff_mode(nc)), "aoh": str(cfg.aoh_diff_mode(nc))})
                        rq = {"op": "C06.mode"}
                        for k, v in (("cliA", cliA), ("dfltA", dA), ("cliH", cliH), ("dfltH", dH)):
                            if v:
                                rq[k] = v
                        reqs.append(rq)
        want = core.Driver().ask(reqs)
        for rq, g, w in zip(reqs, got, want):
            chk.evaluations += 1
            if g != w:
                chk.disagreement("mode-resolution", "DifferConfig resolves %s to %s, model %s" % (rq, g, w), {"request": rq})
    finally:
        shutil.rmtree(tmpd, ignore_errors=True)


# --------------------------------------------------------------------------- entry points

def _job(job):
    kind_, payload = job
    if kind_ == "diff":
        return ("diff", run_cases(payload))
    if kind_ == "sync":
        return ("sync", sync_cases(payload))
    if kind_ == "rules":
        return ("diff", rule_cases(payload))
    if kind_ == "reuse":
        return ("diff", reuse_cases(payload))
    if kind_ == "xkeys":
        return ("diff", xkey_cases(payload))
    return ("cli", cli_cases(payload))


def corpus_cases():
    cases = []
    for (l, r) in CORPUS:
        for (a, h) in MODES:
            cases.append((plain_to_json(l), plain_to_json(r), a, h, "corpus"))
    d = os.path.join(core.CORPUS_DIR, "C06")
    if os.path.isdir(d):
        for fn in sorted(os.listdir(d)):
            try:
                c = json.load(open(os.path.join(d, fn)))
                cases.append((c["l"], c["r"], c["arr"], c["aoh"], "corpus"))
            except Exception:
                pass
    return cases


def build_jobs(chk, scale=1):
    rng = random.Random(chk.seed)
    tier = chk.tier
    jobs = [("diff", corpus_cases())]
    docs = small_docs(3)
    per_pair = 2 if tier == "quick" else 10
    per_pair = min(10, per_pair * scale)
    small = []
    off = rng.randrange(10)
    n = 0
    for a in docs:
        for b in docs:
            n += 1
            if per_pair >= 10:
                ms = MODES
            else:
                ms = [MODES[(off + n * 3 + i * 7) % 10] for i in range(per_pair)]
            for (x, h) in ms:
                small.append((a, b, x, h, "small"))
    chk.exhaustive = True
    chk.extra_cov["exhaustive_bound"] = ("all %d x %d ordered pairs of documents of <= 3 nodes over 5 scalars / 3 keys; "
                                         "%d of the 10 mode mixes per pair" % (len(docs), len(docs), per_pair))
    jobs += [("diff", c) for c in core.chunked(small, 96)]
    nrand = (40000 if tier == "quick" else 600000) * scale
    rnd = []
    for _ in range(nrand):
        a, b, tag = random_pair(rng)
        x, h = rng.choice(MODES)
        rnd.append((a, b, x, h, tag))
    jobs += [("diff", c) for c in core.chunked(rnd, 64)]
    # list pairs for the synchronisers
    sy = []
    flat = [d for d in small_docs(3) if d["k"] == "seq"]
    for a in flat:
        for b in flat:
            sy.append((a["i"], b["i"]))
    for _ in range((4000 if tier == "quick" else 60000) * scale):
        a = rand_aoh(rng, 8) if rng.random() < 0.6 else {"k": "seq", "i": [rand_doc(rng, 2) for _ in range(rng.randint(0, 5))]}
        b = a
        for _ in range(rng.randint(0, 3)):
            b = edit(rng, b)
        if b["k"] != "seq":
            b = {"k": "seq", "i": [b]}
        sy.append((a["i"], b["i"]))
    jobs += [("sync", c) for c in core.chunked(sy, 16)]
    ncli = (320 if tier == "quick" else 4000) * scale
    cl = [(plain_to_json(l), plain_to_json(r), a, h, "cli") for (l, r) in CORPUS[:12] for (a, h) in MODES[:3]]
    while len(cl) < ncli:
        a, b, tag = random_pair(rng)
        x, h = rng.choice(MODES)
        cl.append((a, b, x, h, "cli"))
    # the same command under every output-selection option (what is displayed must not change the exit status);
    # own random stream, so that the cases above are those of earlier versions of this check
    rng2 = random.Random(chk.seed * 7 + 3)
    for i in range((480 if tier == "quick" else 4000) * scale):
        display = DISPLAY[i % len(DISPLAY)]
        if i % 5 == 4:
            c = rand_rule_case(rng2)
            cl.append((c["l"], c["r"], c["arr"], c["aoh"], "cli", {"display": display, "rules": c["rules"], "keys": c["keys"]}))
        else:
            a, b, tag = random_pair(rng2)
            x, h = rng2.choice(MODES)
            cl.append((a, b, x, h, "cli", {"display": display}))
    jobs += [("cli", c) for c in core.chunked(cl, 32)]
    # per-path [rules] / [keys] through a real INI file
    rl = rule_corpus_cases() + [rand_rule_case(rng2) for _ in range((6000 if tier == "quick" else 80000) * scale)]
    rng3 = random.Random(chk.seed * 11 + 5)
    rl += rule_model_corpus() + [rand_rule_case_model(rng3) for _ in range((3000 if tier == "quick" else 40000) * scale)]
    # entries whose path matches no node of the right-hand document, before / between / after the live ones
    rng4 = random.Random(chk.seed * 13 + 7)
    rl += [with_dead_entries(rng4, rand_rule_case(rng4)) for _ in range((2500 if tier == "quick" else 30000) * scale)]
    jobs += [("rules", c) for c in core.chunked(rl, 32)]
    # one Differ object taken through 2-3 comparisons, the report read in between
    rng5 = random.Random(chk.seed * 17 + 11)
    ru = [rand_reuse_case(rng5) for _ in range((2500 if tier == "quick" else 30000) * scale)]
    jobs += [("reuse", c) for c in core.chunked(ru, 32)]
    # mappings / sets whose keys are floats, timestamps, dates, Booleans (outside the Lean documents): real code only
    rng6 = random.Random(chk.seed * 19 + 13)
    xk = [(l, r, a, h) for (l, r) in XKEY_CORPUS for (a, h) in MODES[:2] + MODES[5:6]]
    xk += [rand_xkey_case(rng6) for _ in range((4000 if tier == "quick" else 50000) * scale)]
    jobs += [("xkeys", c) for c in core.chunked(xk, 64)]
    return jobs


def absorb(chk, results):
    for kind_, res in results:
        if kind_ == "diff":
            stats, viol, disag, samples = res
            chk.evaluations += stats["n"]
            for k, v in stats["hist"].items():
                chk.count(k, v)
            for h in stats["nontrivial"]:
                chk.nontrivial.add(h)
            for s in samples:
                chk.sample(s)
        elif kind_ == "sync":
            n, viol, disag = res
            chk.evaluations += n
            chk.count("sync-calls", n)
        else:
            n, skipped, viol, disag = res
            chk.evaluations += n
            chk.count("cli-runs", n)
            chk.count("cli-skipped-no-roundtrip", skipped)
        chk._c06_v += viol
        chk._c06_d += disag


def report_findings(chk):
    chk._c06_v.sort(key=lambda v: v[0])
    chk._c06_d.sort(key=lambda v: v[0])
    seen = {}
    for _sz, sig, what, case in chk._c06_v:
        seen[sig] = seen.get(sig, 0) + 1
        if seen[sig] <= 3 or chk._known_match(sig):
            chk.violation(sig, what, case)
    seen = {}
    for _sz, sig, what, case in chk._c06_d:
        chk.disagreements_checked += 1
        seen[sig] = seen.get(sig, 0) + 1
        if seen[sig] <= 3:
            chk.disagreement(sig, what, case)


def run(chk: core.Check):
    core.use_repo()
    chk._c06_v, chk._c06_d = [], []
    if chk.replay_in:
        rp = json.load(open(chk.replay_in))
        c = rp.get("case", rp)
        if "sync" in c:
            res = [("sync", sync_cases([(c["xs"], c["ys"])]))]
        elif c.get("cli"):
            extra = {k: c[k] for k in ("display", "rules", "keys") if k in c}
            res = [("cli", cli_cases([(c["l"], c["r"], c["arr"], c["aoh"], "replay", extra)]))]
        elif c.get("reuse"):
            res = [("diff", reuse_cases([(c["l"], c["rs"], c["arr"], c["aoh"], c["reads"])]))]
        elif c.get("xkeys"):
            res = [("diff", xkey_cases([(c["l"], c["r"], c["arr"], c["aoh"])]))]
        elif "rules" in c or "keys" in c:
            res = [("diff", rule_cases([c]))]
        else:
            print("replay:", json.dumps({"case": {k: c[k] for k in ("l", "r", "arr", "aoh")},
                                         "impl": impl_report(c["l"], c["r"], c["arr"], c["aoh"]),
                                         "model": core.Driver().ask([{"op": "C06.diff", "l": c["l"], "r": c["r"],
                                                                      "arr": c["arr"], "aoh": c["aoh"]}])[0]}))
            res = [("diff", run_cases([(c["l"], c["r"], c["arr"], c["aoh"], "replay")]))]
        absorb(chk, res)
        report_findings(chk)
        return chk
    tables_check(chk)
    jobs = build_jobs(chk)
    absorb(chk, core.pmap(_job, jobs))
    report_findings(chk)
    return chk


def widen(chk: core.Check):
    """ten times the random budget with a different stream"""
    chk2_seed = chk.seed + 7919
    saved = chk.seed
    chk.seed = chk2_seed
    try:
        jobs = [j for j in build_jobs(chk, scale=10) if j[0] in ("diff", "rules", "reuse", "xkeys")]
    finally:
        chk.seed = saved
    chk._c06_v, chk._c06_d = [], []
    absorb(chk, core.pmap(_job, jobs))
    chk._c06_d = []
    report_findings(chk)
