"""C06 — a diff is truthful and complete; it is empty of changes iff the data are equal."""
from __future__ import annotations

import itertools
import json
import os
import random
import shutil
import signal
import sys
import tempfile
from types import SimpleNamespace

from harness import core, codec

RULE = ("pairs of documents x array modes {position, value} x AoH modes {position, dpos, value, key, deep}: "
        "(1) every ordered pair of documents of <= 3 nodes over scalars {null,true,0,1,'a'} / keys {a,b,1} "
        "(each pair under 2 mode mixes chosen by a seeded rotation so that all 10 mixes are covered evenly; thorough: all 10), "
        "(2) seeded random documents of <= 12 nodes over scalars {null,true,false,0,1,2,1.5,1.0,'a','ab',''} / keys "
        "{a,b,ab,'a.b','a b',1,-1}: identical copies, one derived from the other by 1-4 insert/delete/replace/reorder edits, "
        "unrelated pairs, record lists with identity keys (unique, duplicated, missing), type clashes, nulls, empty "
        "containers, non-hash members among records, (3) the corpus of past failures, (4) list pairs through "
        "Differ.synchronize_lists_by_value / synchronize_lods_by_key, (5) a sample through yaml-diff main() (exit status), "
        "(6) the finite tables (mode names, action names, mode precedence) completely.  "
        "DIRECT checks on the real report, independent of the model: every entry true of the two documents and every "
        "leaf covered (positional modes), clean <=> data-equal (all modes), every left/right index of a synchronisation "
        "accounted for exactly once, exit status 0 <=> clean.  Correspondence: the report as a sorted list of "
        "(action, path segments, lhs, rhs) equals the Lean model's.  "
        "distinct_nontrivial = distinct (pair, modes) cases whose report has at least one entry and whose two documents differ "
        "or contain a container.")

ARR = ["position", "value"]
AOH = ["position", "dpos", "value", "key", "deep"]
MODES = [(a, h) for a in ARR for h in AOH]

S_SMALL = [{"k": "null"}, {"k": "bool", "v": True}, {"k": "int", "v": "0"}, {"k": "int", "v": "1"}, {"k": "str", "v": "a"}]
K_SMALL = ["a", "b", 1]
S_BIG = S_SMALL + [{"k": "bool", "v": False}, {"k": "int", "v": "2"}, {"k": "float", "m": "15", "e": -1},
                   {"k": "float", "m": "1", "e": 0}, {"k": "str", "v": "ab"}, {"k": "str", "v": ""}]
K_BIG = ["a", "b", "ab", "a.b", "a b", 1, -1]

CORPUS = [
    # (l, r) as plain Python data; sets as {"!set": [...]}
    (["a", None], ["a", None]), ([1, 2], []), ({}, []), ({"a": None}, {"a": []}), ({"a": None}, {"a": [1]}),
    ([{"a": 1}], [{"a": 1}]), ([{"a": 1}, 2], [{"a": 1}, 3]), ([{"a": 1}, {"b": 2}], [{"a": 1}, {"b": 2}]),
    ([None], [None]), ([None, 1], [1]), ([1], [True]), ({"a": 1}, {"a": 1.0}), ([1, 2, 3], [3, 1, 4]),
    ([[1, 2]], [[2, 1]]), ({"!set": [1, 2]}, {"!set": [2, 3]}), ({"a": {"!set": [1, 2]}}, {"a": {"x": 1}}),
    ([], []), ({"a": {}}, {"a": {}}), ([{"a": 1, "x": 1}, {"a": 1, "x": 2}], [{"a": 1, "x": 2}, {"a": 1, "x": 1}]),
    ([{"a": 1, "x": 1}, {"a": 2, "x": 2}], [{"a": 2, "x": 2}, {"a": 1, "x": 1}]), (None, None), (None, 1), (1, None),
    ([{}], [{}]), ([1], [{"a": 1}]), (["abc"], [{"a": 1}]), ([{"a": 1}], [{"a": 1}, "abc"]), ([None], []), ([], [None]),
    (None, []), ([], {}), ({"!set": []}, []), ([[], 1], [[], 1]), ([1, None, 2], [1, 2]), ([None, None], [None]),
    ([{"a": None}], [{"a": None}]), ([{"a": 1}, None], [{"a": 1}, None]), ([1, 1, 2], [1, 2, 2]), ([1, 2], [2, 1]),
    ({"a": [1, 2]}, {"a": [2, 1]}), ([{"a": 1}], []), ([], [{"a": 1}]), ([{"a": [1, 2]}], [{"a": [2, 1]}]),
    ([{"a": 1, "b": [{"a": 1}, {"a": 2}]}], [{"a": 1, "b": [{"a": 2}, {"a": 1}]}]),
]


# --------------------------------------------------------------------------- documents

def plain_to_json(x):
    if isinstance(x, dict) and list(x.keys()) == ["!set"]:
        return {"k": "set", "m": list(x["!set"])}
    if isinstance(x, dict):
        return {"k": "map", "e": [[k, plain_to_json(v)] for k, v in x.items()]}
    if isinstance(x, list):
        return {"k": "seq", "i": [plain_to_json(v) for v in x]}
    return codec.scalar_to_json(x)


def docs_exact(n, scalars, keys, memo):
    """all documents with exactly n nodes (set members count as nodes; map keys / set members in
    increasing alphabet order)."""
    if n in memo:
        return memo[n]
    out = []
    if n == 1:
        out += [dict(s) for s in scalars]
        out += [{"k": "seq", "i": []}, {"k": "map", "e": []}, {"k": "set", "m": []}]
    elif n > 1:
        # sequences: ordered compositions of n-1
        for parts in compositions(n - 1):
            for kids in itertools.product(*[docs_exact(p, scalars, keys, memo) for p in parts]):
                out.append({"k": "seq", "i": list(kids)})
        # maps
        for parts in compositions(n - 1):
            if len(parts) > len(keys):
                continue
            for ks in itertools.combinations(range(len(keys)), len(parts)):
                for kids in itertools.product(*[docs_exact(p, scalars, keys, memo) for p in parts]):
                    out.append({"k": "map", "e": [[keys[i], kid] for i, kid in zip(ks, kids)]})
        # sets
        if n - 1 <= len(keys):
            for ks in itertools.combinations(range(len(keys)), n - 1):
                out.append({"k": "set", "m": [keys[i] for i in ks]})
    memo[n] = out
    return out


def compositions(n):
    if n == 0:
        yield ()
        return
    for first in range(1, n + 1):
        for rest in compositions(n - first):
            yield (first,) + rest


def small_docs(maxn):
    memo = {}
    out = []
    for n in range(1, maxn + 1):
        out += docs_exact(n, S_SMALL, K_SMALL, memo)
    return out


def size(j):
    k = j["k"]
    if k == "seq":
        return 1 + sum(size(x) for x in j["i"])
    if k == "map":
        return 1 + sum(size(v) for _, v in j["e"])
    if k == "set":
        return 1 + len(j["m"])
    return 1


def rand_scalar(rng):
    return dict(rng.choice(S_BIG))


def rand_record(rng, idkey, idval, budget):
    es = [[idkey, idval]] if idkey is not None else []
    n = rng.randint(0, min(2, budget))
    for k in rng.sample([k for k in K_BIG if k != idkey], n):
        es.append([k, rand_doc(rng, 2) if rng.random() < 0.25 else rand_scalar(rng)])
    if rng.random() < 0.2:
        rng.shuffle(es)
    return {"k": "map", "e": es}


def rand_aoh(rng, budget):
    idkey = rng.choice(["a", "b", 1])
    n = rng.randint(1, max(1, min(4, budget // 2)))
    style = rng.random()
    items = []
    for i in range(n):
        if style < 0.6:
            idval = {"k": "int", "v": str(i)}                      # unique ids
        elif style < 0.8:
            idval = {"k": "int", "v": str(rng.randint(0, 1))}      # duplicates likely
        else:
            idval = rand_scalar(rng)
        items.append(rand_record(rng, idkey if (style < 0.9 or rng.random() < 0.6) else None, idval, budget // n))
    return {"k": "seq", "i": items}


def rand_doc(rng, budget):
    if budget <= 1 or rng.random() < 0.25:
        r = rng.random()
        if r < 0.08:
            return {"k": "seq", "i": []}
        if r < 0.16:
            return {"k": "map", "e": []}
        if r < 0.19:
            return {"k": "set", "m": []}
        return rand_scalar(rng)
    r = rng.random()
    if r < 0.25:
        return rand_aoh(rng, budget - 1)
    if r < 0.55:
        n = rng.randint(1, min(4, budget - 1))
        return {"k": "seq", "i": [rand_doc(rng, max(1, (budget - 1) // n)) for _ in range(n)]}
    if r < 0.92:
        n = rng.randint(1, min(4, budget - 1))
        ks = rng.sample(K_BIG, n)
        return {"k": "map", "e": [[k, rand_doc(rng, max(1, (budget - 1) // n))] for k in ks]}
    n = rng.randint(1, min(3, budget - 1))
    return {"k": "set", "m": rng.sample(K_BIG, n)}


def containers(j, acc):
    if j["k"] in ("seq", "map", "set"):
        acc.append(j)
        for c in (j["i"] if j["k"] == "seq" else [v for _, v in j["e"]] if j["k"] == "map" else []):
            containers(c, acc)
    return acc


def edit(rng, j):
    """one insert / delete / replace / reorder edit somewhere in a deep copy of j"""
    j = json.loads(json.dumps(j))
    cs = containers(j, [])
    if not cs:
        return rand_doc(rng, 3)
    c = rng.choice(cs)
    op = rng.choice(["insert", "delete", "replace", "reorder"])
    if c["k"] == "seq":
        xs = c["i"]
        if op == "insert" or not xs:
            new = (json.loads(json.dumps(rng.choice(xs))) if xs and rng.random() < 0.4 else rand_doc(rng, 3))
            xs.insert(rng.randint(0, len(xs)), new)
        elif op == "delete":
            xs.pop(rng.randrange(len(xs)))
        elif op == "replace":
            i = rng.randrange(len(xs))
            xs[i] = edit(rng, xs[i]) if rng.random() < 0.5 else rand_doc(rng, 3)
        else:
            rng.shuffle(xs)
    elif c["k"] == "map":
        es = c["e"]
        free = [k for k in K_BIG if k not in [e[0] for e in es]]
        if (op == "insert" or not es) and free:
            es.insert(rng.randint(0, len(es)), [rng.choice(free), rand_doc(rng, 3)])
        elif op == "delete" and es:
            es.pop(rng.randrange(len(es)))
        elif op == "replace" and es:
            i = rng.randrange(len(es))
            es[i][1] = edit(rng, es[i][1]) if rng.random() < 0.5 else rand_doc(rng, 3)
        else:
            rng.shuffle(es)
    else:
        ms = c["m"]
        free = [k for k in K_BIG if k not in ms]
        if (op in ("insert", "replace") or not ms) and free:
            ms.insert(rng.randint(0, len(ms)), rng.choice(free))
        elif ms and op == "delete":
            ms.pop(rng.randrange(len(ms)))
        else:
            rng.shuffle(ms)
    return j


def random_pair(rng):
    a = rand_doc(rng, rng.randint(2, 12))
    r = rng.random()
    if r < 0.15:
        return a, json.loads(json.dumps(a)), "identical"
    if r < 0.8:
        b = a
        for _ in range(rng.randint(1, 4)):
            b = edit(rng, b)
        return a, b, "edited"
    return a, rand_doc(rng, rng.randint(1, 12)), "unrelated"


# --------------------------------------------------------------------------- implementation side

class Timeout(Exception):
    pass


def _alarm(_s, _f):
    raise Timeout()


def seg_canon(path):
    """YAMLPath -> [["i", n] | ["s", text]]"""
    out = []
    for (t, a) in path.escaped:
        if t.name == "INDEX" and isinstance(a, int):
            out.append(["i", int(a)])
        elif t.name == "KEY":
            out.append(["s", str(a)])
        else:
            out.append(["?", t.name, str(a)])
    return out


def impl_report(lj, rj, arr, aoh, limit_s=10.0):
    """{"rep": sorted canonical entries} | {"crash": type, "site": ...} | {"timeout": 1}"""
    from yamlpath.differ import Differ, DifferConfig
    log = core.quiet_logger()
    old = signal.signal(signal.SIGVTALRM, _alarm)
    signal.setitimer(signal.ITIMER_VIRTUAL, limit_s)
    try:
        cfg = DifferConfig(log, SimpleNamespace(arrays=arr, aoh=aoh))
        d = Differ(cfg, log, codec.json_to_ruamel(lj))
        d.compare_to(codec.json_to_ruamel(rj))
        rep = []
        for e in d.get_report():
            act = e.action.name.lower()
            lhs = None if act == "add" else codec.node_to_json(e._lhs, anchors=False)
            rhs = None if act == "delete" else codec.node_to_json(e._rhs, anchors=False)
            rep.append([act, seg_canon(e.path), lhs, rhs])
        rep.sort(key=lambda x: json.dumps(x, sort_keys=True))
        return {"rep": rep}
    except Timeout:
        return {"timeout": 1}
    except Exception as e:  # noqa
        return {"crash": type(e).__name__, "site": core.crash_site(e), "cls": core.exc_class(e)}
    finally:
        signal.setitimer(signal.ITIMER_VIRTUAL, 0)
        signal.signal(signal.SIGVTALRM, old)


def model_rep(mo):
    rep = []
    for e in mo["rep"]:
        p = [["i", r[1]] if r[0] == "i" else ["s", str(r[1])] for r in e["p"]]
        rep.append([e["a"], p, e["l"], e["r"]])
    rep.sort(key=lambda x: json.dumps(x, sort_keys=True))
    return rep


# --------------------------------------------------------------------------- the property, in Python

def kind(x):
    if isinstance(x, dict):
        return "map"
    if isinstance(x, list):
        return "seq"
    if isinstance(x, (set, frozenset)):
        return "set"
    return "scalar"


def list_mode(arr, aoh, a, b):
    ex = b if len(b) > 0 else a
    if not ex:
        return "nothing"
    if isinstance(ex[0], dict):
        if aoh in ("position", "dpos"):
            return "value" if arr == "value" else ("shallow" if aoh == "position" else "pos")
        return aoh
    return "value" if arr == "value" else "pos"


def ms_eq(xs, ys, eq):
    ys = list(ys)
    for x in xs:
        for j, y in enumerate(ys):
            if eq(x, y):
                del ys[j]
                break
        else:
            return False
    return not ys


def data_eq(arr, aoh, a, b):
    """equal as data: order of a synchronised sequence disregarded"""
    ka = kind(a)
    if ka != kind(b):
        return False
    if ka == "scalar" or ka == "set":
        return a == b
    if ka == "map":
        return set(a) == set(b) and all(data_eq(arr, aoh, a[k], b[k]) for k in a)
    m = list_mode(arr, aoh, a, b)
    if m == "nothing":
        return True
    if m == "shallow":
        return a == b
    if m == "pos":
        return len(a) == len(b) and all(data_eq(arr, aoh, x, y) for x, y in zip(a, b))
    if m in ("value", "key"):
        return ms_eq(a, b, lambda x, y: x == y)
    return ms_eq(a, b, lambda x, y: data_eq(arr, aoh, x, y))


def identity_trouble(arr, aoh, a, b):
    """under the identity-key modes: some synchronised record list has a member without the identity
    key, a non-hash member, or two members with the same identity value (class of finding C06-K2)."""
    if aoh not in ("key", "deep"):
        return False
    found = []

    def chk_list(xs, ka):
        vals = []
        for x in xs:
            if not isinstance(x, dict) or ka not in x or kind(x[ka]) != "scalar":
                found.append(1)
                return
            if any(x[ka] == v for v in vals):
                found.append(1)
                return
            vals.append(x[ka])

    def walk(x, y):
        kx, ky = kind(x), kind(y)
        if kx == "map":
            for k, v in x.items():
                walk(v, y[k] if ky == "map" and k in y else None)
            if ky == "map":
                for k, v in y.items():
                    if k not in x:
                        walk(None, v)
        elif kx == "seq" or ky == "seq":
            xs = x if kx == "seq" else []
            ys = y if ky == "seq" else []
            ex = ys if ys else xs
            if ex and isinstance(ex[0], dict):
                ka = list(ex[0])[0] if len(ex[0]) else ""
                chk_list(xs, ka)
                chk_list(ys, ka)
            # pessimistic: look into every pairing of members
            for v in xs:
                for w in (ys or [None]):
                    walk(v, w)
            if not xs:
                for w in ys:
                    walk(None, w)
        elif ky == "map":
            for v in y.values():
                walk(None, v)

    walk(a, b)
    return bool(found)


def resolve(doc, segs):
    """the node of plain data `doc` at canonical path segments; raises KeyError"""
    cur = doc
    for s in segs:
        if s[0] == "i":
            if not isinstance(cur, list) or not (0 <= s[1] < len(cur)):
                raise KeyError(s)
            cur = cur[s[1]]
        elif s[0] == "s":
            if isinstance(cur, dict):
                ks = [k for k in cur if str(k) == s[1]]
                if len(ks) != 1:
                    raise KeyError(s)
                cur = cur[ks[0]]
            elif isinstance(cur, (set, frozenset)):
                ks = [k for k in cur if str(k) == s[1]]
                if len(ks) != 1:
                    raise KeyError(s)
                cur = ks[0]
            else:
                raise KeyError(s)
        else:
            raise KeyError(s)
    return cur


def leaves(x, pre=()):
    k = kind(x)
    if k == "scalar":
        yield list(pre)
    elif k == "seq":
        for i, v in enumerate(x):
            yield from leaves(v, pre + (["i", i],))
    elif k == "map":
        for kk, v in x.items():
            yield from leaves(v, pre + (["s", str(kk)],))
    else:
        for m in x:
            yield list(pre) + [["s", str(m)]]


def plain_json(x):
    k = kind(x)
    if k == "set":
        return {"k": "set", "m": list(x)}
    if k == "map":
        return {"k": "map", "e": [[kk, plain_json(v)] for kk, v in x.items()]}
    if k == "seq":
        return {"k": "seq", "i": [plain_json(v) for v in x]}
    return codec.scalar_to_json(x)


def set_insensitive(j):
    """canonical JSON with set members and map entries sorted (order is not data)"""
    if isinstance(j, dict) and j.get("k") == "set":
        return {"k": "set", "m": sorted(j["m"], key=str)}
    if isinstance(j, dict) and j.get("k") == "map":
        return {"k": "map", "e": sorted([[k, set_insensitive(v)] for k, v in j["e"]], key=lambda e: str(e[0]))}
    if isinstance(j, dict) and j.get("k") == "seq":
        return {"k": "seq", "i": [set_insensitive(v) for v in j["i"]]}
    return j


def direct_checks(lj, rj, arr, aoh, rep):
    """violations of the property statement by the real report: list of (check, what)"""
    out = []
    lp, rp = codec.json_to_plain(lj), codec.json_to_plain(rj)
    positional = (arr == "position" and aoh in ("position", "dpos"))
    if positional:
        for act, segs, lhs, rhs in rep:
            try:
                if act in ("same", "change", "delete"):
                    v = resolve(lp, segs)
                    if lhs is None or set_insensitive(lhs) != set_insensitive(plain_json(v)):
                        out.append(("untruthful:lhs", "%s entry at %s carries left value %s but the left document holds %s" % (
                            act, segs, json.dumps(lhs), json.dumps(plain_json(v)))))
                if act in ("same", "change", "add"):
                    v = resolve(rp, segs)
                    if rhs is None or set_insensitive(rhs) != set_insensitive(plain_json(v)):
                        out.append(("untruthful:rhs", "%s entry at %s carries right value %s but the right document holds %s" % (
                            act, segs, json.dumps(rhs), json.dumps(plain_json(v)))))
            except KeyError:
                out.append(("untruthful:path", "%s entry at %s: the path does not exist in the document it speaks about" % (act, segs)))
                continue
            if act == "same" and not (codec.json_to_plain(lhs) == codec.json_to_plain(rhs)):
                out.append(("untruthful:same", "SAME entry at %s with different values" % (segs,)))
            if act == "change" and codec.json_to_plain(lhs) == codec.json_to_plain(rhs):
                out.append(("untruthful:change", "CHANGE entry at %s with equal values" % (segs,)))
        lcov = [segs for act, segs, _l, _r in rep if act in ("same", "change", "delete")]
        rcov = [segs for act, segs, _l, _r in rep if act in ("same", "change", "add")]
        for side, doc, cov in (("left", lp, lcov), ("right", rp, rcov)):
            for leaf in leaves(doc):
                if not any(leaf[:len(p)] == p for p in cov):
                    out.append(("uncovered-leaf", "%s leaf %s is covered by no entry at its path or an ancestor" % (side, leaf)))
                    break
    is_clean = all(act == "same" for act, _s, _l, _r in rep)
    eq = data_eq(arr, aoh, lp, rp)
    if is_clean and not eq:
        out.append(("clean-but-different", "the report has no non-SAME entry but the documents differ as data"))
    if eq and not is_clean:
        out.append(("equal-but-reported", "the documents are equal as data but the report has non-SAME entries"))
    # accounting visible in the report: a root pair of flat scalar lists
    if kind(lp) == "seq" and kind(rp) == "seq" and all(kind(x) == "scalar" for x in lp + rp) and (lp or rp):
        nl = sum(1 for act, *_ in rep if act in ("same", "change", "delete"))
        nr = sum(1 for act, *_ in rep if act in ("same", "change", "add"))
        if nl != len(lp) or nr != len(rp):
            out.append(("accounting", "%d left elements but %d same/changed/deleted entries; %d right elements but %d same/changed/added" % (
                len(lp), nl, len(rp), nr)))
    return out


def void_clash(lp, rp):
    """some null / empty container is compared with a node of another kind at the same place
    (class of finding C06-K1; pessimistic over list pairings)"""
    def void(x):
        return x is None or (kind(x) != "scalar" and len(x) == 0)
    kx, ky = kind(lp), kind(rp)
    if kx != ky:
        return void(lp) or void(rp)
    if kx == "map":
        return any(void_clash(v, rp[k]) for k, v in lp.items() if k in rp)
    if kx == "seq":
        return any(void_clash(v, w) for v in lp for w in rp)
    return False


# --------------------------------------------------------------------------- workers

def per_sig(items, keep=4):
    """the smallest `keep` findings of every signature"""
    items = sorted(items, key=lambda v: v[0])
    seen, out = {}, []
    for it in items:
        seen[it[1]] = seen.get(it[1], 0) + 1
        if seen[it[1]] <= keep:
            out.append(it)
    return out


def run_cases(cases):
    """cases: list of (lj, rj, arr, aoh, tag).  Returns stats, violations, disagreements, samples."""
    drv = core.Driver()
    model = drv.ask([{"op": "C06.diff", "l": l, "r": r, "arr": a, "aoh": h} for (l, r, a, h, _t) in cases])
    stats = {"n": 0, "hist": {}, "nontrivial": [], "out_of_model": 0}
    viol, disag, samples = [], [], []

    def count(k):
        stats["hist"][k] = stats["hist"].get(k, 0) + 1

    for (lj, rj, arr, aoh, tag), mo in zip(cases, model):
        stats["n"] += 1
        count("mode:%s/%s" % (arr, aoh))
        count("gen:" + tag)
        count("size:%02d" % min(24, size(lj) + size(rj)))
        case = {"l": lj, "r": rj, "arr": arr, "aoh": aoh}
        im = impl_report(lj, rj, arr, aoh)
        if "timeout" in im:
            # a starved worker on a loaded machine is not a hang: ask again with a generous limit
            im = impl_report(lj, rj, arr, aoh, limit_s=120.0)
        if "timeout" in im:
            viol.append((size(lj) + size(rj), "timeout", "compare_to did not return within 120 s", case))
            continue
        if "crash" in im:
            count("impl:crash")
            viol.append((size(lj) + size(rj), "crash:%s@%s" % (im["crash"], im["site"]),
                         "compare_to raised %s (arrays=%s, aoh=%s)" % (im["crash"], arr, aoh), case))
            continue
        rep = im["rep"]
        mrep = model_rep(mo)
        agree = (rep == mrep) or ([[a, p, set_insensitive(l) if l else l, set_insensitive(r) if r else r] for a, p, l, r in rep]
                                  == [[a, p, set_insensitive(l) if l else l, set_insensitive(r) if r else r] for a, p, l, r in mrep])
        for e in rep:
            count("action:" + e[0])
        lp, rp = codec.json_to_plain(lj), codec.json_to_plain(rj)
        bad = direct_checks(lj, rj, arr, aoh, rep)
        for (chk_name, what) in bad:
            sig = chk_name
            if agree and chk_name in ("uncovered-leaf", "clean-but-different") and mo["void"] and void_clash(lp, rp):
                sig = "void-clash:" + chk_name
            elif agree and chk_name in ("clean-but-different", "equal-but-reported") and identity_trouble(arr, aoh, lp, rp):
                sig = "identity-key:" + chk_name
            viol.append((size(lj) + size(rj), sig, what + " (arrays=%s, aoh=%s)" % (arr, aoh),
                         dict(case, impl=rep)))
        if not agree:
            disag.append((size(lj) + size(rj), "report", "report differs from the model's (arrays=%s, aoh=%s)" % (arr, aoh),
                          dict(case, impl=rep, model=mrep)))
        # the model's own verdicts against the Python oracle (keeps the specification honest)
        if mo["dataEq"] != data_eq(arr, aoh, lp, rp):
            disag.append((size(lj) + size(rj), "spec:dataEq", "Lean dataEq=%s, Python data_eq=%s" % (mo["dataEq"], not mo["dataEq"]), case))
        if mo["eqv"] != (lp == rp):
            disag.append((size(lj) + size(rj), "spec:eqv", "Lean eqv=%s, Python ==: %s" % (mo["eqv"], lp == rp), case))
        if rep and (kind(lp) != "scalar" or kind(rp) != "scalar" or lp != rp):
            stats["nontrivial"].append(json.dumps([lj, rj, arr, aoh], sort_keys=True))
        if len(samples) < 1 and len(rep) >= 3:
            samples.append(dict(case, impl=rep[:4], model_agrees=agree))
    viol = per_sig(viol)
    disag = per_sig(disag)
    import hashlib
    stats["nontrivial"] = [hashlib.blake2b(s.encode(), digest_size=8).hexdigest() for s in stats["nontrivial"]]
    return stats, viol, disag, samples


def sync_cases(cases):
    """cases: (xs_json_list, ys_json_list); direct accounting + correspondence of the two synchronisers"""
    from yamlpath.differ import Differ, DifferConfig
    from yamlpath import YAMLPath
    drv = core.Driver()
    reqs = []
    for xs, ys in cases:
        reqs.append({"op": "C06.sync", "how": "value", "xs": xs, "ys": ys})
        reqs.append({"op": "C06.sync", "how": "key", "xs": xs, "ys": ys})
    model = drv.ask(reqs)
    log = core.quiet_logger()
    viol, disag = [], []
    n = 0
    for i, (xs, ys) in enumerate(cases):
        for w, how in enumerate(("value", "key")):
            ex = ys if ys else xs
            if how == "key" and not (ex and ex[0]["k"] == "map"):
                continue        # the code reaches synchronize_lods_by_key only for an Array-of-Hashes
            n += 1
            case = {"sync": how, "xs": xs, "ys": ys}
            lhs = codec.json_to_ruamel({"k": "seq", "i": xs})
            rhs = codec.json_to_ruamel({"k": "seq", "i": ys})
            try:
                if how == "value":
                    pairs = Differ.synchronize_lists_by_value(lhs, rhs)
                else:
                    d = Differ(DifferConfig(log, SimpleNamespace(arrays=None, aoh="key")), log, lhs)
                    pairs = d.synchronize_lods_by_key(YAMLPath(), lhs, rhs)
            except Exception as e:  # noqa
                viol.append((len(xs) + len(ys), "crash:%s@%s" % (type(e).__name__, core.crash_site(e)),
                             "synchronising by %s raised %s" % (how, type(e).__name__), case))
                continue
            li = sorted(p[0] for p in pairs if p[0] is not None)
            ri = sorted(p[2] for p in pairs if p[2] is not None)
            if li != list(range(len(xs))) or ri != list(range(len(ys))):
                viol.append((len(xs) + len(ys), "accounting:sync-" + how,
                             "left indices %s / right indices %s are not each accounted for exactly once" % (li, ri), case))
            for (a, x, b, y) in pairs:
                if (a is not None and x is not lhs[a]) or (b is not None and y is not rhs[b]):
                    viol.append((len(xs) + len(ys), "accounting:sync-element", "a pair carries an element that is not the one at its index", case))
            got = sorted([[p[0], p[2]] for p in pairs], key=str)
            want = sorted(model[2 * i + w]["pairs"], key=str)
            if got != want:
                disag.append((len(xs) + len(ys), "sync:" + how, "pairs %s, model %s" % (got, want), case))
    return n, per_sig(viol), per_sig(disag)


# --------------------------------------------------------------------------- CLI sample

def dump_yaml(j, path):
    from yamlpath.common import Parsers
    y = Parsers.get_yaml_editor()
    with open(path, "w") as fh:
        y.dump(codec.json_to_ruamel(j), fh)


def cli_exit(lj, rj, arr, aoh, tmpd, dfl_in_config=False):
    """exit status of yaml-diff main() run in-process on dumped files (None: could not run)"""
    import io
    import contextlib
    from yamlpath.commands import yaml_diff
    lf, rf = os.path.join(tmpd, "l.yaml"), os.path.join(tmpd, "r.yaml")
    dump_yaml(lj, lf)
    dump_yaml(rj, rf)
    argv = ["yaml-diff"]
    if dfl_in_config:
        cf = os.path.join(tmpd, "c.ini")
        with open(cf, "w") as fh:
            fh.write("[defaults]\narrays = %s\naoh = %s\n" % (arr, aoh))
        argv += ["--config", cf]
    else:
        argv += ["--arrays", arr, "--aoh", aoh]
    argv += [lf, rf]
    old_argv = sys.argv
    sys.argv = argv
    old = signal.signal(signal.SIGVTALRM, _alarm)
    signal.setitimer(signal.ITIMER_VIRTUAL, 20.0)
    buf = io.StringIO()
    try:
        with contextlib.redirect_stdout(buf), contextlib.redirect_stderr(io.StringIO()):
            try:
                yaml_diff.main()
                return ("noexit", buf.getvalue())
            except SystemExit as e:
                return (e.code if e.code is not None else 0, buf.getvalue())
    except Timeout:
        return ("timeout", "")
    except Exception as e:  # noqa
        return ("crash:%s@%s" % (type(e).__name__, core.crash_site(e)), "")
    finally:
        signal.setitimer(signal.ITIMER_VIRTUAL, 0)
        signal.signal(signal.SIGVTALRM, old)
        sys.argv = old_argv


def roundtrips(j, tmpd):
    """the dumped file loads back to the same data (otherwise the CLI case says nothing)"""
    from yamlpath.common import Parsers
    p = os.path.join(tmpd, "t.yaml")
    dump_yaml(j, p)
    y = Parsers.get_yaml_editor()
    with open(p) as fh:
        back = y.load(fh)
    try:
        return json.dumps(set_insensitive(codec.node_to_json(back, anchors=False)), sort_keys=True) == json.dumps(
            set_insensitive(j), sort_keys=True)
    except codec.OutOfModel:
        return False


def cli_cases(cases):
    drv = core.Driver()
    model = drv.ask([{"op": "C06.diff", "l": l, "r": r, "arr": a, "aoh": h} for (l, r, a, h, _t) in cases])
    tmpd = tempfile.mkdtemp(prefix="ypv-c06-")
    viol, disag = [], []
    n = skipped = 0
    try:
        for idx, ((lj, rj, arr, aoh, _t), mo) in enumerate(zip(cases, model)):
            # yaml-diff's loader turns a document that is just '' into "no document": not the Differ's business
            if lj == {"k": "str", "v": ""} or rj == {"k": "str", "v": ""} or not (
                    roundtrips(lj, tmpd) and roundtrips(rj, tmpd)):
                skipped += 1
                continue
            im = impl_report(lj, rj, arr, aoh)
            if "rep" not in im:
                skipped += 1
                continue
            n += 1
            lib_clean = all(e[0] == "same" for e in im["rep"])
            code, out = cli_exit(lj, rj, arr, aoh, tmpd, dfl_in_config=(idx % 4 == 3))
            case = {"l": lj, "r": rj, "arr": arr, "aoh": aoh, "cli": True, "config_defaults": idx % 4 == 3}
            if code not in (0, 1):
                viol.append((size(lj) + size(rj), "cli:%s" % code, "yaml-diff main() ended with %s" % (code,), case))
                continue
            if (code == 0) != lib_clean:
                viol.append((size(lj) + size(rj), "exit-status", "yaml-diff exits %s but the library report is %s" % (
                    code, "clean" if lib_clean else "not clean"), case))
            out = "\n".join(x for x in out.split("\n") if not x.startswith("WARNING"))
            if (code == 0) != (out.strip() == ""):
                viol.append((size(lj) + size(rj), "exit-status:output", "yaml-diff exits %s but printed %d characters" % (
                    code, len(out.strip())), case))
            if code != mo["exit"]:
                disag.append((size(lj) + size(rj), "exit", "yaml-diff exits %s, model %s" % (code, mo["exit"]), case))
    finally:
        shutil.rmtree(tmpd, ignore_errors=True)
    return n, skipped, per_sig(viol), per_sig(disag)


def tables_check(chk):
    from yamlpath.differ.enums import ArrayDiffOpts, AoHDiffOpts, DiffActions
    from yamlpath.differ import DifferConfig
    from yamlpath.wrappers import NodeCoords
    t = core.Driver().ask([{"op": "C06.tables"}])[0]
    if sorted(t["arrays"]) != sorted(ArrayDiffOpts.get_names()) or sorted(t["aoh"]) != sorted(AoHDiffOpts.get_names()) \
            or sorted(t["actions"]) != sorted(a.name for a in DiffActions):
        chk.disagreement("tables", "mode / action name tables differ from the live enums", {"model": t})
    # mode precedence: command line > config [defaults] > POSITION   (no [rules] section)
    log = core.quiet_logger()
    tmpd = tempfile.mkdtemp(prefix="ypv-c06-")
    try:
        reqs, got = [], []
        for cliA in [None] + ARR:
            for dA in [None] + ARR:
                for cliH in [None] + AOH:
                    for dH in [None] + AOH:
                        cf = None
                        if dA or dH:
                            cf = os.path.join(tmpd, "c.ini")
                            with open(cf, "w") as fh:
                                fh.write("[defaults]\n" + ("arrays = %s\n" % dA if dA else "") + ("aoh = %s\n" % dH if dH else ""))
                        cfg = DifferConfig(log, SimpleNamespace(arrays=cliA, aoh=cliH, config=cf))
                        nc = NodeCoords([], None, None)
                        got.append({"arr": str(cfg.array_diff_mode(nc)), "aoh": str(cfg.aoh_diff_mode(nc))})
                        rq = {"op": "C06.mode"}
                        for k, v in (("cliA", cliA), ("dfltA", dA), ("cliH", cliH), ("dfltH", dH)):
                            if v:
                                rq[k] = v
                        reqs.append(rq)
        want = core.Driver().ask(reqs)
        for rq, g, w in zip(reqs, got, want):
            chk.evaluations += 1
            if g != w:
                chk.disagreement("mode-resolution", "DifferConfig resolves %s to %s, model %s" % (rq, g, w), {"request": rq})
    finally:
        shutil.rmtree(tmpd, ignore_errors=True)


# --------------------------------------------------------------------------- entry points

def _job(job):
    kind_, payload = job
    if kind_ == "diff":
        return ("diff", run_cases(payload))
    if kind_ == "sync":
        return ("sync", sync_cases(payload))
    return ("cli", cli_cases(payload))


def corpus_cases():
    cases = []
    for (l, r) in CORPUS:
        for (a, h) in MODES:
            cases.append((plain_to_json(l), plain_to_json(r), a, h, "corpus"))
    d = os.path.join(core.CORPUS_DIR, "C06")
    if os.path.isdir(d):
        for fn in sorted(os.listdir(d)):
            try:
                c = json.load(open(os.path.join(d, fn)))
                cases.append((c["l"], c["r"], c["arr"], c["aoh"], "corpus"))
            except Exception:
                pass
    return cases


def build_jobs(chk, scale=1):
    rng = random.Random(chk.seed)
    tier = chk.tier
    jobs = [("diff", corpus_cases())]
    docs = small_docs(3)
    per_pair = 2 if tier == "quick" else 10
    per_pair = min(10, per_pair * scale)
    small = []
    off = rng.randrange(10)
    n = 0
    for a in docs:
        for b in docs:
            n += 1
            if per_pair >= 10:
                ms = MODES
            else:
                ms = [MODES[(off + n * 3 + i * 7) % 10] for i in range(per_pair)]
            for (x, h) in ms:
                small.append((a, b, x, h, "small"))
    chk.exhaustive = True
    chk.extra_cov["exhaustive_bound"] = ("all %d x %d ordered pairs of documents of <= 3 nodes over 5 scalars / 3 keys; "
                                         "%d of the 10 mode mixes per pair" % (len(docs), len(docs), per_pair))
    jobs += [("diff", c) for c in core.chunked(small, 96)]
    nrand = (40000 if tier == "quick" else 600000) * scale
    rnd = []
    for _ in range(nrand):
        a, b, tag = random_pair(rng)
        x, h = rng.choice(MODES)
        rnd.append((a, b, x, h, tag))
    jobs += [("diff", c) for c in core.chunked(rnd, 64)]
    # list pairs for the synchronisers
    sy = []
    flat = [d for d in small_docs(3) if d["k"] == "seq"]
    for a in flat:
        for b in flat:
            sy.append((a["i"], b["i"]))
    for _ in range((4000 if tier == "quick" else 60000) * scale):
        a = rand_aoh(rng, 8) if rng.random() < 0.6 else {"k": "seq", "i": [rand_doc(rng, 2) for _ in range(rng.randint(0, 5))]}
        b = a
        for _ in range(rng.randint(0, 3)):
            b = edit(rng, b)
        if b["k"] != "seq":
            b = {"k": "seq", "i": [b]}
        sy.append((a["i"], b["i"]))
    jobs += [("sync", c) for c in core.chunked(sy, 16)]
    ncli = (320 if tier == "quick" else 4000) * scale
    cl = [(plain_to_json(l), plain_to_json(r), a, h, "cli") for (l, r) in CORPUS[:12] for (a, h) in MODES[:3]]
    while len(cl) < ncli:
        a, b, tag = random_pair(rng)
        x, h = rng.choice(MODES)
        cl.append((a, b, x, h, "cli"))
    jobs += [("cli", c) for c in core.chunked(cl, 16)]
    return jobs


def absorb(chk, results):
    for kind_, res in results:
        if kind_ == "diff":
            stats, viol, disag, samples = res
            chk.evaluations += stats["n"]
            for k, v in stats["hist"].items():
                chk.count(k, v)
            for h in stats["nontrivial"]:
                chk.nontrivial.add(h)
            for s in samples:
                chk.sample(s)
        elif kind_ == "sync":
            n, viol, disag = res
            chk.evaluations += n
            chk.count("sync-calls", n)
        else:
            n, skipped, viol, disag = res
            chk.evaluations += n
            chk.count("cli-runs", n)
            chk.count("cli-skipped-no-roundtrip", skipped)
        chk._c06_v += viol
        chk._c06_d += disag


def report_findings(chk):
    chk._c06_v.sort(key=lambda v: v[0])
    chk._c06_d.sort(key=lambda v: v[0])
    seen = {}
    for _sz, sig, what, case in chk._c06_v:
        seen[sig] = seen.get(sig, 0) + 1
        if seen[sig] <= 3 or chk._known_match(sig):
            chk.violation(sig, what, case)
    seen = {}
    for _sz, sig, what, case in chk._c06_d:
        chk.disagreements_checked += 1
        seen[sig] = seen.get(sig, 0) + 1
        if seen[sig] <= 3:
            chk.disagreement(sig, what, case)


def run(chk: core.Check):
    core.use_repo()
    chk._c06_v, chk._c06_d = [], []
    if chk.replay_in:
        rp = json.load(open(chk.replay_in))
        c = rp.get("case", rp)
        if "sync" in c:
            res = [("sync", sync_cases([(c["xs"], c["ys"])]))]
        elif c.get("cli"):
            res = [("cli", cli_cases([(c["l"], c["r"], c["arr"], c["aoh"], "replay")]))]
        else:
            print("replay:", json.dumps({"case": {k: c[k] for k in ("l", "r", "arr", "aoh")},
                                         "impl": impl_report(c["l"], c["r"], c["arr"], c["aoh"]),
                                         "model": core.Driver().ask([{"op": "C06.diff", "l": c["l"], "r": c["r"],
                                                                      "arr": c["arr"], "aoh": c["aoh"]}])[0]}))
            res = [("diff", run_cases([(c["l"], c["r"], c["arr"], c["aoh"], "replay")]))]
        absorb(chk, res)
        report_findings(chk)
        return chk
    tables_check(chk)
    jobs = build_jobs(chk)
    absorb(chk, core.pmap(_job, jobs))
    report_findings(chk)
    return chk


def widen(chk: core.Check):
    """ten times the random budget with a different stream"""
    chk2_seed = chk.seed + 7919
    saved = chk.seed
    chk.seed = chk2_seed
    try:
        jobs = [j for j in build_jobs(chk, scale=10) if j[0] == "diff"]
    finally:
        chk.seed = saved
    chk._c06_v, chk._c06_d = [], []
    absorb(chk, core.pmap(_job, jobs))
    chk._c06_d = []
    report_findings(chk)
