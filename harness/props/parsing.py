"""Shared by C14 and C08: run the real YAMLPath parser and the Lean parser model on the same
texts and compare.  Everything the implementation does runs under a per-call timer."""
from __future__ import annotations

import itertools
import json
import signal

from harness import core, codec

ALPHABET = ['.', '/', '\\', '[', ']', '(', ')', "'", '"', '&', '!', '=', '~', '^', '$', '%', '<', '>',
            '*', ':', ',', '+', '-', ' ', 'a', 'b', '1']
WORDS = ["has_child", "max", "min", "name", "parent", "unique", "distinct", "abc", "12", "-3", "a b",
         "=~", "**", "[.", "(a)", "[1:2]", "&anc", "\\", "'q'", '"d"', "!", ".=", "/x/", "é", "日本", "\t", "\n", "١",
         "_", "+1", " 1", "1_0"]


# BFS alphabet: the significant characters plus keyword names as single symbols
# (also in mixed / upper case, and the tab: an id that is a keyword name only up to letter case or
# escaped edge white-space is its own abstract state, see Drv/C14.lean `segIdClass`)
BFS_SYMBOLS = ALPHABET + ["max", "has_child", "name", "parent", "-1", "1:2", "ab", "\t", "Max", "HAS_CHILD"]
# ordinary characters the state machine treats alike (a change to the code may not), appended to covers
ODD = ["{", "}", "#", "@", "_", "|", "`", ";", "?", "é", "²", "①", "٣", "\t", "\n", "\x00", "0", "z", "A"]


def state_cover(max_states=20000, max_depth=14):
    """Model-based generation: breadth-first search over the abstract states of the Lean parser model
    (driver op C14.state); returns one shortest representative text per reachable abstract state."""
    drv = core.Driver()
    reps = {}
    frontier = [""]
    seen = set()
    depth = 0
    while frontier and depth < max_depth and len(reps) < max_states:
        cand = [f + a for f in frontier for a in BFS_SYMBOLS]
        outs = drv.ask([{"op": "C14.state", "t": c} for c in cand])
        nxt = []
        for c, o in zip(cand, outs):
            st = o["s"]
            if st == "ERR" or st in seen:
                continue
            seen.add(st)
            reps[st] = c
            nxt.append(c)
        frontier = nxt
        depth += 1
    return sorted(reps.values(), key=lambda t: (len(t), t))


MODEL_MAX_LEN = 600


class ParseTimeout(Exception):
    pass


def _alarm(_sig, _frm):
    raise ParseTimeout()


def impl_parse(text, mode="auto", want_segments=True, limit_s=3.0):
    """Outcome of the real parser: {"esc": <out>, "unesc": <out>} where <out> is
    {"ok": segments} | {"ypath": 1} | {"crash": "<Type>", "site": ...} | {"timeout": 1}."""
    from yamlpath import YAMLPath
    from yamlpath.enums import PathSeparators
    from yamlpath.exceptions import YAMLPathException
    res = {}
    old = signal.signal(signal.SIGVTALRM, _alarm)
    try:
        for which in ("esc", "unesc"):
            signal.setitimer(signal.ITIMER_VIRTUAL, limit_s)
            try:
                p = YAMLPath(text)
                if mode == "dot":
                    p._separator = PathSeparators.DOT
                elif mode == "fslash":
                    p._separator = PathSeparators.FSLASH
                segs = list(p.escaped if which == "esc" else p.unescaped)
                res[which] = {"ok": codec.segs_to_json(segs) if want_segments else len(segs)}
            except ParseTimeout:
                res[which] = {"timeout": 1}
            except YAMLPathException:
                res[which] = {"ypath": 1}
            except RecursionError as e:
                res[which] = {"crash": "RecursionError", "site": core.crash_site(e)}
            except Exception as e:  # noqa
                res[which] = {"crash": type(e).__name__, "site": core.crash_site(e)}
            finally:
                signal.setitimer(signal.ITIMER_VIRTUAL, 0)
        # stringification of a text that parses (C14 observes YAMLPath(text).escaped / .unescaped / str()): it may not
        # raise anything but the library's exception either, and it must end
        if "ok" in res.get("unesc", {}):
            signal.setitimer(signal.ITIMER_VIRTUAL, limit_s)
            try:
                p = YAMLPath(text)
                if mode == "dot":
                    p._separator = PathSeparators.DOT
                elif mode == "fslash":
                    p._separator = PathSeparators.FSLASH
                str(p)
                res["str"] = {"ok": 1}
            except ParseTimeout:
                res["str"] = {"timeout": 1}
            except YAMLPathException:
                res["str"] = {"ypath": 1}
            except RecursionError as e:
                res["str"] = {"crash": "RecursionError", "site": core.crash_site(e)}
            except Exception as e:  # noqa
                res["str"] = {"crash": type(e).__name__, "site": core.crash_site(e)}
            finally:
                signal.setitimer(signal.ITIMER_VIRTUAL, 0)
    finally:
        signal.signal(signal.SIGVTALRM, old)
    return res


def short(t, n=60):
    """Text as shown in a report line (the replay case always holds the whole text)."""
    return repr(t) if len(t) <= n else "%r...%r (%d characters)" % (t[:n // 2], t[-n // 2:], len(t))


def out_class(o):
    if "ok" in o:
        return "ok"
    if "ypath" in o:
        return "ypath"
    if "timeout" in o:
        return "timeout"
    return "crash"


def in_model_text(text):
    """The parser model reads Python's int() and str.strip() only for ASCII."""
    return all(ord(c) < 128 for c in text)


KEYWORD_NAMES = ["has_child", "name", "max", "min", "parent", "unique", "distinct"]
# what may stand next to a keyword name: nothing, plain blanks (insignificant), ESCAPED blanks (part of the name)
KEYWORD_PADS = ["", " ", "\t", "\\ ", "\\\t", " \\ ", "\\  ", "\\\\", "\\a"]


def case_variants(word):
    return [word, word.upper(), word.capitalize(), word[:-1] + word[-1].upper()]


def keyword_segment_texts():
    """Search-keyword segments in every spelling of the name the parser could be asked to recognise:
    each keyword in lower / upper / mixed case, with plain and escaped white-space (and other escaped
    symbols) on either side of the name, inverted or not, dot and forward-slash notation, with and
    without parameters.  Small enough to enumerate (7 * 4 * 9 * 9 * 2 * 2 * 3)."""
    out = []
    for kw in KEYWORD_NAMES:
        for name in case_variants(kw):
            for before in KEYWORD_PADS:
                for after in KEYWORD_PADS:
                    for inv in ("", "!"):
                        for lead in ("h", "/h"):
                            for par in ("", "x", "x, y"):
                                out.append("%s[%s%s%s%s(%s)]" % (lead, inv, before, name, after, par))
    return out


# Spellings that one of Python's numeric constructors (int, float, complex, Decimal, Fraction) accepts or nearly accepts.
# A bracketed element reference holds "an integer"; whatever conversion the parser applies to that text, the outcome
# must be an INDEX segment or a YAML Path error for each of these.
NUMERIC_SPELLINGS = [
    "0", "7", "-7", "+7", "007", "-0", "1_0", "1__0", "_1", "1_", "1 0", "12345678901234567890", "9" * 400, "-" + "9" * 400,
    "0x1f", "0X1F", "0b101", "0o17", "0x", "1f", "4F", "1L", "1l",
    "1.0", "2.", ".5", "-1.0", "+3.0", "1.5", "-0.0", "1_0.0", "1.0_0", "00.0", "1..0", "1.0.0",
    "1e3", "1E3", "1e+3", "1e-3", "1e0", "-1e3", "1e", "e3", "1e999", "-1e999", "1E+999", "1e-999", "9" * 400 + ".0", "1e308", "1e309",
    "inf", "-inf", "+inf", "INF", "+INF", "Inf", "iNf", "infinity", "Infinity", "-Infinity", "INFINITY", "infinit", "in",
    "nan", "NaN", "-nan", "+NAN", "nan1", "snan", "sNaN",
    "1j", "1J", "1+2j", "infj", "nanj", "(1)", "1/2", "3/1", "1/0", "0/0",
    "True", "False", "None", "true", "null", "~",
    "\u0661\u0662", "\u0663.\u0660", "\uff11", "\u00b2", "\u2460", "\u221e", "\u0661e\u0669\u0669\u0669", "\u2212 1", "\u22121",
]


def numeric_index_texts():
    """Element references (and slice bounds) spelt in every way a numeric conversion could read, plain and blank-padded,
    alone, after and between other segments, dot and forward-slash notation."""
    out = []
    for n in NUMERIC_SPELLINGS:
        for pad in ("%s", " %s ", "\t%s", "%s "):
            x = pad % n
            out += ["[%s]" % x, "abc[%s]" % x, "/abc[%s]/def" % x, "abc.def[%s][0]" % x, "abc[0][%s].d" % x,
                    "abc[%s:1]" % x, "abc[1:%s]" % x, "/abc[%s:%s]" % (x, x), "(abc[%s])" % x, "abc[!%s]" % x]
    return out


def deep_texts(rng, depths=(30, 120, 480, 700, 1100, 1600)):
    """Texts whose size is in the NESTING or REPETITION rather than in the variety of characters: each demarcation pair
    nested d levels deep (balanced, one closer short, one closer too many, malformed innermost text), the same inside a
    search term / keyword parameter / between ordinary segments, and d-fold repetitions of every significant character,
    keyword and short segment.  d runs past the interpreter's default recursion limit (1000 frames) and past half of it."""
    out = []
    inner = ["abc", "abc.def", "", "abc[", "a[1]", "&x", "*", "a b", "/a/b"]
    for d in depths:
        dd = [d, d + rng.randint(1, 40)]
        for n in dd:
            for (o, c) in (("(", ")"), ("[", "]"), ("((", "))"), ("([", "])"), ("(a", ")"), ("(a.", ")"), ("(", ")+(b)"), ("(", ")[0]")):
                for x in (rng.sample(inner, 3) if n == d else [rng.choice(inner)]):
                    bal = o * n + x + c * n
                    out += [bal, "/top" + o * n + x + c * n + "[0]", "top." + bal + ".x", o * n + x + c * (n - 1), o * n + x + c * (n + 1),
                            o * (n - 1) + x + c * n, "a[b=" + bal + "]", "a[has_child(" + bal + ")]", "(" + bal + ")-(" + bal + ")"]
        for a in ALPHABET + WORDS[:8] + ["a.", "/a", "[0]", "[a=b]", "(a)", "(a)+", "[&a]", "\\.", "''", '""', "**.", "a*", "[name()]", "\\\\"]:
            out += [a * d, "x" + a * d, a * d + "x", "(" + a * d + ")", "[" + a * d + "]"]
    return out


def exhaustive_texts(maxlen, prefix=""):
    for n in range(0, maxlen + 1 - len(prefix)):
        for tup in itertools.product(ALPHABET, repeat=n):
            yield prefix + "".join(tup)


def random_text(rng, maxlen=24):
    n = rng.randint(5, maxlen)
    out = []
    while len(out) < n:
        if rng.random() < 0.25:
            out.append(rng.choice(WORDS))
        else:
            out.append(rng.choice(ALPHABET))
    return "".join(out)


def compare_chunk(args):
    """Worker: run impl and model on a list of (text, mode); returns stats and findings.
    `what` selects the comparison: 'class' (C14) or 'segments' (C08)."""
    texts, what = args
    drv = core.Driver()
    # the model walks long nested texts in quadratic time: texts above MODEL_MAX_LEN get the direct check only
    small = [(t, m) for (t, m) in texts if len(t) <= MODEL_MAX_LEN]
    answers = dict(zip(small, drv.ask([{"op": "parse", "t": t, "sep": m} for (t, m) in small])))
    model = [answers.get(tm, {"esc": {"skipped": 1}, "unesc": {"skipped": 1}}) for tm in texts]
    stats = {"n": 0, "ok": 0, "ypath": 0, "crash": 0, "timeout": 0, "out_of_model": 0, "nontrivial": 0}
    viol, disag = [], []
    samples = []
    for (t, m), mo in zip(texts, model):
        if core.aborted():
            break   # another case already showed that the parser hangs
        im = impl_parse(t, m, want_segments=True)
        if "timeout" in im["esc"] or "timeout" in im["unesc"]:
            core.signal_abort()
        stats["n"] += 1
        cls = out_class(im["esc"])
        stats[cls] += 1
        if cls == "ok" and len(im["esc"]["ok"]) >= 2:
            stats["nontrivial"] += 1
        for which in ("esc", "unesc"):
            io, mo_ = im[which], mo[which]
            ic = out_class(io)
            if ic in ("crash", "timeout"):
                sig = ("crash:%s@%s" % (io.get("crash"), io.get("site"))) if ic == "crash" else "timeout"
                viol.append((sig, "parsing %s (%s, separator %s) raised %s" % (short(t), which, m, io.get("crash", "timeout")),
                             {"text": t, "sep": m, "which": which, "impl": io, "model": mo_}))
                continue
            if m != "auto" and which == "unesc":
                continue
            if not in_model_text(t) or "skipped" in mo_:
                stats["out_of_model"] += 1
                continue
            mc = out_class(mo_)
            if mc != ic:
                disag.append(("class:%s-vs-%s" % (ic, mc), "outcome class of %s (%s, %s): impl %s, model %s" % (short(t), which, m, ic, mc),
                              {"text": t, "sep": m, "which": which, "impl": io, "model": mo_}))
            elif what == "segments" and ic == "ok" and io["ok"] != mo_["ok"]:
                disag.append(("segments", "segments of %r (%s, %s) differ" % (t, which, m),
                              {"text": t, "sep": m, "which": which, "impl": io, "model": mo_}))
        so = im.get("str")
        if so is not None and out_class(so) in ("crash", "timeout"):
            sig = ("str:crash:%s@%s" % (so.get("crash"), so.get("site"))) if "crash" in so else "str:timeout"
            viol.append((sig, "str(YAMLPath(%s)) (separator %s) raised %s although the text parses" % (short(t), m, so.get("crash", "timeout")),
                         {"text": t, "sep": m, "which": "str", "impl": so}))
        if len(samples) < 2 and cls == "ok" and len(t) > 3:
            samples.append({"text": t, "sep": m, "impl": im["esc"], "model": mo["esc"]})
    return stats, viol[:50], disag[:50], samples
