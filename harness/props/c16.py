"""C16 — the command-line tools deliver the library's answers and honest exit codes."""
from __future__ import annotations

import io
import json
import os
import random
import re
import traceback
from types import SimpleNamespace

from harness import codec, core
from harness.props import cli_common as cc
from harness.props import editing as ed
from harness.props import merging as mg

RULE = ("seeded random cases for each of the six tools (yaml-get, yaml-set, yaml-merge, yaml-diff, yaml-validate, yaml-paths): "
        "random documents (C03's generator: maps/sequences/sets/scalars of every kind, anchors; C05's generator for merges) written as "
        "YAML or JSON text and delivered as a named file, as the pseudo-file '-' and as the implicit standard input of a non-TTY session; "
        "random queries (exact, wildcard, search, slice, keyword, collector, unmatched, unparsable), values x formats, merge policies x "
        "multi-document modes x output formats x output destinations, diff option mixes and document indexes, good/bad/missing/empty/"
        "multi-document files for yaml-validate, search/except expression lists for yaml-paths, and for every tool a share of argument "
        "records that validateargs must reject.  Every case runs the real main() in-process (argv, stdin, stdout replaced; SystemExit caught; "
        "timer) and a sample additionally as `python -m yamlpath.commands.<tool>` subprocess.  Judged directly on the real tool: exit "
        "status and printed/written DATA equal (a) the library's own in-process answer (Processor / Merger+merge_docs / Differ / loader / "
        "search_for_paths on the same text) pushed through (b) the Lean model of the tool's control flow; file, '-' and implicit stdin "
        "deliveries give the same outcome; nothing but SystemExit escapes main(); a non-zero exit leaves the target file untouched.  "
        "yaml-paths: 500 more cases run over documents given as YAML TEXT that reuse an anchored KEY through an alias in one to "
        "three other mappings (nested, in list elements), with anchored values aliased under keys and in lists and ordinary keys / "
        "values of the same names, x every alias option (none, -A, -Y, -y, -l and their long forms) x key-name mode (none, -k, -K, long "
        "forms) x -a / -L / -m / -t; the oracle calls search_for_paths with the meaning of the IncludeAliases member the option NAMES "
        "(finite table option -> member name -> (key aliases, value aliases); the member is looked up by name), and the table itself is "
        "checked: IncludeAliases has exactly the four documented members, pairwise distinct.  "
        "Dates as JSON (real tools only, 500 cases): documents from YAML text holding timestamps with UTC offsets (+-hh:mm, fractions, "
        "T / t / space, anchored + aliased), naive timestamps and dates in maps / sequences / flow collections; yaml-get of a container "
        "and of the scalar, yaml-merge -D json (stdout, -o file, lone file, RHS from '-'), yaml-set on a JSON-style document (*.json file "
        "and '-'): every such scalar is rendered as its ISO 8601 text with the offset it was written with (computed from the literal "
        "with Python's datetime alone).  "
        "yaml-merge with --config (400 cases, own stream): the ordinary merge cases with a readable INI file that carries part of the policy "
        "in [defaults] and whose [rules] / [keys] sections are absent, empty or name a path no document has (MergerConfig warns, the "
        "merge is unaffected), mostly written to STDOUT: STDOUT reloads to the library's merge, nothing else is on it.  "
        "Hashes with YAML merge keys as JSON (real tools, 400 cases): YAML text with anchored mappings holding dates, timestamps, !!set, "
        "tagged scalars, Booleans, words, numbers and mappings / list elements that take them in through `<<: *a` / `<<: [*a, *b]` "
        "(own keys and earlier sources win); yaml-get of such a mapping, of a list of them, of the root (file / '-'), yaml-merge -D json, "
        "yaml-set on the JSON-style form: exit 0 and ONE JSON value equal to the mapping with all its members (by construction).  "
        "yaml-set --saveto (real tool, 400 cases): YAML text with scalars in every presentation (plain words, quoted, folded > / >- with "
        "one to three lines and paragraph breaks, literal | / |-, numbers, Booleans) at top level, in mappings, in lists; "
        "`-g PATH --saveto NEWPATH -a WORD` (both separators, file / '-', -b): the result reloads (ruamel safe loader) to the document the "
        "set model predicts: old value - same data - at NEWPATH, WORD at PATH, the rest untouched.  "
        "yaml-set over document roots of every kind (400 cases, own stream; ordinary yaml-set pipeline): the root is an empty Array, an "
        "empty Hash, an empty !!set, one of the scalars 0 / false / '' / 0.0 / 5 / true / text, null, or a small Array / set / Hash, "
        "written as YAML or JSON, delivered as file / '-' / implicit stdin, x change paths whose first segment fits or does not fit that "
        "root (keys, nested keys, indexes, negative index, slice, wildcards, searches, the root itself; creating segments are handed to "
        "the Lean model) x value / delete / null / value file: exit status and the reloaded result equal the library replay on the SAME "
        "loaded document (only a null document is 'no document'; a refused change exits 1 and leaves the file as it was).  "
        "distinct_nontrivial = distinct (tool, input text, argument vector) whose run reached the library (arguments accepted, input loaded).")

HELP_LINE = "Please try --help for more information."
QUICK = {"get": 2600, "set": 2200, "merge": 1300, "diff": 1500, "validate": 1500, "paths": 1300, "paths-alias": 500, "dates": 500, "merge-config": 400,
         "mergekeys": 400, "saveto": 400, "set-roots": 400}


def _n(tool, tier):
    base = QUICK[tool]
    scale = float(os.environ.get("YPV_C16_SCALE", "1"))
    return int(base * scale * (1 if tier == "quick" else 8))


class F:
    """findings of one case"""

    def __init__(self):
        self.items = []
        self.stats = {}
        self.nontrivial = None
        self.oom = False

    def viol(self, sig, what):
        self.items.append(("violation", sig, what))

    def dis(self, sig, what):
        self.items.append(("disagreement", sig, what))

    def count(self, k, n=1):
        self.stats[k] = self.stats.get(k, 0) + n


# --------------------------------------------------------------------------- shared helpers

def write_file(name, text):
    p = os.path.join(cc.tmpdir(), name)
    with open(p, "w", encoding="utf-8") as fh:
        fh.write(text)
    return p


def read_file(p):
    try:
        with open(p, "r", encoding="utf-8") as fh:
            return fh.read()
    except FileNotFoundError:
        return None


def rm(*paths):
    for p in paths:
        try:
            os.unlink(p)
        except OSError:
            pass


def doc_text(docs, fmt):
    return cc.dump_json(docs) if fmt == "json" else cc.dump_yaml(docs)


def load_docs(text):
    """The tools' loader on a text -> (list of ruamel documents | None on failure)."""
    import warnings
    from yamlpath.common import Parsers
    try:
        with warnings.catch_warnings():
            warnings.filterwarnings("error")
            return list(Parsers.get_yaml_editor().load_all(text))
    except Exception:  # noqa
        return None


def key_files(keys):
    """--privatekey / --publickey arguments for a {"priv","pub"} record; good = an existing file."""
    argv = []
    for k, opt in (("priv", "--privatekey"), ("pub", "--publickey")):
        v = keys.get(k, "unset")
        if v == "good":
            argv += [opt, write_file("key-%s.pem" % k, "x")]
        elif v == "bad":
            argv += [opt, os.path.join(cc.tmpdir(), "no-such-key-%s.pem" % k)]
    return argv


def rand_keys(rng, p_any=0.06):
    if rng.random() >= p_any:
        return {"priv": "unset", "pub": "unset"}
    return {"priv": rng.choice(["unset", "good", "bad", "good"]), "pub": rng.choice(["unset", "good", "bad", "good"])}


def run_tool(case, tool, argv, stdin_text, tty):
    if case.get("sub") and not tty:
        return cc.run_subproc(tool, argv, stdin_text)
    return cc.run_inproc(tool, argv, stdin_text or "", tty)


def out_lines(text):
    ls = text.split("\n")
    if ls and ls[-1] == "":
        ls.pop()
    return [l for l in ls if l != HELP_LINE]


def crashed(f, tool, r, desc, lib_crash=None):
    """Common handling of runs that did not end in an exit status.  True when the run is unusable."""
    if r.get("timeout"):
        f.viol("timeout:%s" % tool, "%s did not finish within its time limit" % desc)
        return True
    if "crash" in r:
        if lib_crash is not None and lib_crash == r["crash"]:
            f.count("%s:library-exception-relayed(C15)" % tool)
            return True
        # an exception that escapes main() ends the process with a traceback and status 1
        r["rc"] = 1
        r["uncaught"] = "%s@%s" % (r["crash"], r.get("site", "?"))
        r.setdefault("err", "")
        f.count("%s:uncaught-%s->status-1" % (tool, r["uncaught"]))
    return False


def unc(r):
    return "(uncaught %s)" % r["uncaught"] if r.get("uncaught") else ""


def same_outcome(a, b):
    return a["rc"] == b["rc"] and out_lines(a["out"]) == out_lines(b["out"])


# =========================================================================== yaml-get

UNPARSABLE = ["a[", "[.=", "a[b", "(a", "a.b[1", "[=1]"]


def gen_get(rng):
    doc = ed.gen_doc(rng, depth=rng.choice([2, 3, 3]))
    if rng.random() < 0.04:
        doc = rng.choice([{"k": "int", "v": "5"}, {"k": "str", "v": "text"}, {"k": "seq", "i": []}, {"k": "map", "e": []},
                          {"k": "null"}])
    fmt = "json" if (cc.json_safe(codec.strip_anchors(doc)) and rng.random() < 0.3) else "yaml"
    if fmt == "json":
        doc = codec.strip_anchors(doc)
    r = rng.random()
    if doc["k"] not in ("map", "seq"):
        q = rng.choice(["/", "a", "*", "**"])
    elif r < 0.86:
        q = ed.gen_path(rng, doc)
    elif r < 0.95:
        q = rng.choice(["zz", "a.zz", "zz[0]", "**.zz", "[.=zz]", "*[.=zz]", "[9]", "a.b.c.d", "/", "**"])
    else:
        q = rng.choice(UNPARSABLE)
    case = {"tool": "get", "doc": doc, "fmt": fmt, "query": q,
            "pathsep": rng.choice([None, None, None, "auto", "dot", "fslash"]),
            "deliveries": rng.sample(["file", "dash", "implicit"], 2), "keys": rand_keys(rng),
            "bad": None}
    x = rng.random()
    if x < 0.03:
        case["bad"] = "no-input-tty"
    elif x < 0.05:
        case["bad"] = "no-input-nostdin"
    elif x < 0.07:
        case["bad"] = "unloadable"
    elif x < 0.08:
        case["bad"] = "missing-file"
    return case


def lib_get(text, query, pathsep, keys):
    """The library's own answer for yaml-get: the unwrapped nodes of
    EYAMLProcessor.get_eyaml_values(query, mustexist=True) over the loaded text."""
    from yamlpath import YAMLPath
    from yamlpath.enums import PathSeparators
    from yamlpath.eyaml import EYAMLProcessor
    from yamlpath.eyaml.exceptions import EYAMLCommandException
    from yamlpath.exceptions import YAMLPathException
    from yamlpath.wrappers import NodeCoords
    docs = load_docs(text)
    if docs is None or len(docs) > 1:
        return {"ld": None}
    data = docs[0] if docs else None
    res = {"ld": data, "nodes": [], "err": None}

    def go():
        yp = YAMLPath(query, pathsep=PathSeparators.from_str(pathsep or "dot"))
        proc = EYAMLProcessor(core.quiet_logger(), data, binary="eyaml",
                              publickey=keys.get("pubfile"), privatekey=keys.get("privfile"))
        out = []
        try:
            for n in proc.get_eyaml_values(yp, mustexist=True):
                out.append(NodeCoords.unwrap_node_coords(n))
        except YAMLPathException:
            return out, "ypath"
        except EYAMLCommandException:
            return out, "eyaml"
        return out, None
    g = ed.guarded(go, 10.0)
    if g[0] != "ok":
        res["crash"] = g[0]
        return res
    res["nodes"], res["err"] = g[1]
    return res


def prep_get(case):
    f = F()
    doc, q = case["doc"], case["query"]
    try:
        text = doc_text([doc], case["fmt"])
    except Exception:  # noqa
        f.oom = True
        return f, None, None
    bad = case.get("bad")
    if bad == "unloadable":
        text = "a: [1, 2\nb: }\n"
    keys = dict(case["keys"])
    kargv = key_files(keys)
    base = ["-p", q] + (["-t", case["pathsep"]] if case["pathsep"] else []) + kargv
    runs = {}
    path = write_file("get-%d.%s" % (os.getpid(), "json" if case["fmt"] == "json" else "yaml"), text)
    if bad == "missing-file":
        rm(path)
    for dl in case["deliveries"]:
        if bad == "no-input-tty":
            runs[dl] = (run_tool(case, "get", base, "", True), None, False, True)
        elif bad == "no-input-nostdin":
            runs[dl] = (run_tool(case, "get", base + ["-S"], text, False), None, True, False)
        elif dl == "file" or bad == "missing-file":
            runs[dl] = (run_tool(case, "get", base + [path], "", rnd_tty(case, dl)), "path", False, rnd_tty(case, dl))
        elif dl == "dash":
            runs[dl] = (run_tool(case, "get", base + ["-"], text, rnd_tty(case, dl)), "dash", False, rnd_tty(case, dl))
        else:
            runs[dl] = (run_tool(case, "get", base, text, False), None, False, False)
    rm(path)
    kk = {"pubfile": kargv[kargv.index("--publickey") + 1] if "--publickey" in kargv else None,
          "privfile": kargv[kargv.index("--privatekey") + 1] if "--privatekey" in kargv else None}
    lib = lib_get(text, q, case["pathsep"], kk) if bad != "missing-file" else {"ld": None}
    ctx = {"text": text, "runs": runs, "lib": lib}
    reqs = []
    try:
        ldj = None
        if lib.get("ld", None) is not None or (lib.get("ld", 0) is None and "nodes" in lib):
            ldj = codec.node_to_json(lib["ld"], anchors=False)
        nodes = [codec.node_to_json(n, anchors=False) for n in lib.get("nodes", [])]
    except codec.OutOfModel:
        f.oom = True
        return f, ctx, None
    ctx["nodes"] = nodes
    for dl, (_r, farg, nostdin, tty) in runs.items():
        reqs.append({"op": "C16.get", "args": {"file": farg, "nostdin": nostdin, "priv": keys["priv"], "pub": keys["pub"]},
                     "tty": tty, "ld": ldj, "q": {"nodes": nodes, "err": lib.get("err")}})
    return f, ctx, reqs


def rnd_tty(case, dl):
    # the TTY flag is irrelevant once a file or '-' is named; vary it deterministically
    return (len(case["query"]) + len(dl)) % 2 == 0


def judge_get(case, f, ctx, answers):
    lib = ctx["lib"]
    desc0 = "yaml-get -p %r%s on %s" % (case["query"], (" -t " + case["pathsep"]) if case["pathsep"] else "", _show(ctx["text"]))
    outcomes = []
    for (dl, (r, farg, nostdin, tty)), mo in zip(ctx["runs"].items(), answers):
        desc = "%s [%s%s]" % (desc0, dl, ", bad=%s" % case["bad"] if case["bad"] else "")
        if crashed(f, "get", r, desc, lib.get("crash")):
            continue
        if "crash" in lib:
            f.count("get:library-crash-not-relayed")
            continue
        outcomes.append((dl, r))
        lines = out_lines(r["out"])
        f.count("get:exit=%d" % r["rc"])
        if r["rc"] != mo["exit"]:
            f.viol("get-exit:impl=%d,model=%d" % (r["rc"], mo["exit"]),
                   "%s exits %d; the library's answer (%d node(s), %s) defines %d" % (
                       desc, r["rc"], len(ctx["nodes"]), lib.get("err") or "no exception", mo["exit"]))
            continue
        if r["rc"] == 0 and not lines:
            f.viol("get-exit0-nothing-matched", "%s exits 0 and prints nothing" % desc)
            continue
        want = mo["out"]
        ok = len(lines) == len(want)
        if ok:
            for line, w in zip(lines, want):
                if "text" in w:
                    ok = ok and line == w["text"]
                else:
                    try:
                        ok = ok and json.loads(line) == json.loads(json.dumps(cc.plain_json(w["json"])))
                    except ValueError:
                        ok = False
        if not ok:
            f.viol("get-lines", "%s prints %r; the library's results in query order are %s" % (
                desc, lines[:6], json.dumps(want)[:300]))
        if mo["errors"] == 0 and lib.get("ld", None) is not None:
            f.nontrivial = ("get", ctx["text"], case["query"], case["pathsep"])
    if len(outcomes) == 2 and not case["bad"] and not same_outcome(outcomes[0][1], outcomes[1][1]):
        f.viol("get-file-vs-stdin", "%s: delivery %s gives exit %d / %r, delivery %s gives exit %d / %r" % (
            desc0, outcomes[0][0], outcomes[0][1]["rc"], out_lines(outcomes[0][1]["out"])[:4],
            outcomes[1][0], outcomes[1][1]["rc"], out_lines(outcomes[1][1]["out"])[:4]))


def _show(text, n=160):
    t = text if len(text) <= n else text[:n] + "…"
    return repr(t)


# =========================================================================== yaml-set

NEW_PATHS = [[["k", "new"]], [["k", "new"], ["k", "sub"]], [["k", "zz"], ["i", 0]], [["k", "zz"], ["k", "y"], ["k", "z"]],
             [["k", "n1"], ["i", 1], ["k", "q"]]]
SET_VALUES = ["5", "1", "0", "a", "b", "new", "true", "False", "1.50", "-3", "", "x y", "yes", "10.0", "+7", "a-b", "300",
              "123.456", "line1\nline2", "None"]


def pseg_path(segs):
    t = ""
    for k, v in segs:
        if k == "k":
            t += ("." if t else "") + v
        else:
            t += "[%d]" % v
    return t


def gen_set(rng):
    doc = ed.gen_doc(rng, depth=rng.choice([2, 3]))
    while doc["k"] != "map":
        doc = ed.gen_doc(rng, depth=2)
    fmt_in = "json" if (cc.json_safe(codec.strip_anchors(doc)) and rng.random() < 0.2) else "yaml"
    if fmt_in == "json":
        doc = codec.strip_anchors(doc)
    r = rng.random()
    segs = None
    nodes = ed.all_addrs(doc)
    if r < 0.55 and nodes:
        scal = [a for a, n in nodes if n["k"] not in ("map", "seq", "set")]
        a = rng.choice(scal) if scal and rng.random() < 0.8 else rng.choice(nodes)[0]
        change = ed.path_of_addr(a, rng, doc)
    elif r < 0.78:
        change = ed.gen_path(rng, doc)
    elif r < 0.92:
        segs = rng.choice(NEW_PATHS)
        change = pseg_path(segs)
    else:
        change = rng.choice(["zz.y[.=1]", "a.b.c.d.e", "/", "**", UNPARSABLE[0], "[.=zz]"])
    x = rng.random()
    if x < 0.55:
        src = {"k": "value", "v": rng.choice(SET_VALUES)}
    elif x < 0.75:
        src = {"k": "delete"}
    elif x < 0.81:
        src = {"k": "null"}
    elif x < 0.88:
        src = {"k": "file", "v": rng.choice(SET_VALUES) + rng.choice(["", "\n", "  \n\n"])}
    elif x < 0.95:
        src = {"k": "stdin", "v": rng.choice(SET_VALUES) + rng.choice(["", "\n"])}
    else:
        src = {"k": "none"}
    case = {"tool": "set", "doc": doc, "fmt_in": fmt_in, "change": change, "segs": segs, "src": src,
            "fmt": rng.choice(ed.FORMATS), "mustexist": rng.random() < 0.3, "backup": rng.random() < 0.25,
            "check": None, "saveto": None, "delivery": rng.choice(["file", "file", "file", "dash", "implicit"]),
            "keys": rand_keys(rng, 0.04), "bad": None, "anchor": None, "tag": False, "randomfrom": None}
    y = rng.random()
    if y < 0.05:
        nodes_s = [n for _, n in nodes if n["k"] == "str"]
        case["check"] = rng.choice([n["v"] for n in nodes_s] + ["nope"]) if nodes_s else "nope"
    elif y < 0.08:
        case["saveto"] = rng.choice([change, "saved.here"])
    elif y < 0.10:
        case["anchor"] = rng.choice(["&", "name", " * "])
    elif y < 0.12:
        case["randomfrom"] = rng.choice(["a", "", "ab"])
    elif y < 0.14:
        case["bad"] = rng.choice(["no-input-tty", "no-input-nostdin", "unloadable", "missing-file"])
    if src["k"] == "stdin" and case["delivery"] != "file" and rng.random() < 0.7:
        case["delivery"] = "file"
    return case


# Document roots of every kind.  gen_set only writes non-empty Hash roots; yaml-set has a branch of its own for "no document
# there" (a null document is replaced by one built from the change path), and the line between "no document" and "a document
# that is merely empty / falsy" ([], {}, 0, false, '', 0.0, an empty !!set) - as well as Array and scalar roots in general -
# is only met by these cases.  Judged by the ordinary yaml-set pipeline (library replay -> Lean model of main()).
ROOTS = [{"k": "seq", "i": []}, {"k": "seq", "i": []}, {"k": "map", "e": []}, {"k": "set", "m": []},
         {"k": "int", "v": "0"}, {"k": "bool", "v": False}, {"k": "str", "v": ""}, {"k": "float", "m": "0", "e": 0},
         {"k": "int", "v": "5"}, {"k": "bool", "v": True}, {"k": "str", "v": "text"}, {"k": "null"},
         {"k": "seq", "i": [{"k": "int", "v": "0"}]}, {"k": "seq", "i": [{"k": "str", "v": "a"}, {"k": "int", "v": "2"}]},
         {"k": "seq", "i": [{"k": "map", "e": [["a", {"k": "int", "v": "1"}]]}, {"k": "map", "e": []}]},
         {"k": "seq", "i": [{"k": "seq", "i": []}]}, {"k": "set", "m": ["a", "b"]}, {"k": "map", "e": [["a", {"k": "seq", "i": []}]]}]
ROOT_CHANGES = [("a", [["k", "a"]]), ("a.b", [["k", "a"], ["k", "b"]]), ("settings.enabled", [["k", "settings"], ["k", "enabled"]]),
                ("/a", None), ("/a/b", None), ("[0]", [["i", 0]]), ("[1]", [["i", 1]]), ("[-1]", None), ("[0].a", [["i", 0], ["k", "a"]]),
                ("a[0]", [["k", "a"], ["i", 0]]), ("/0", None), ("0", None), ("*", None), ("**", None), ("/", None), ("[.=0]", None),
                ("[.=a]", None), ("[0:1]", None), ("b", [["k", "b"]]), ("new.sub[0]", [["k", "new"], ["k", "sub"], ["i", 0]])]


def gen_set_roots(rng):
    doc = json.loads(json.dumps(rng.choice(ROOTS)))
    fmt_in = "json" if (doc["k"] != "set" and rng.random() < 0.25) else "yaml"
    x = rng.random()
    src = ({"k": "value", "v": rng.choice(SET_VALUES)} if x < 0.7 else {"k": "delete"} if x < 0.82 else {"k": "null"} if x < 0.9
           else {"k": "file", "v": rng.choice(SET_VALUES) + rng.choice(["", "\n"])})
    change, segs = rng.choice(ROOT_CHANGES)
    return {"tool": "set", "roots": True, "doc": doc, "fmt_in": fmt_in, "change": change, "segs": segs, "src": src,
            "fmt": rng.choice(ed.FORMATS[:6]), "mustexist": rng.random() < 0.25, "backup": rng.random() < 0.25,
            "check": None, "saveto": None, "delivery": rng.choice(["file", "file", "dash", "implicit"]),
            "keys": {"priv": "unset", "pub": "unset"}, "bad": None, "anchor": None, "tag": False, "randomfrom": None}


def lib_set(text, case):
    """What main() asks of the library, replayed in-process on the same text:
    -> {"exit": n, "doc": canonical result | None} | {"crash": class}"""
    from yamlpath import Processor, YAMLPath
    from yamlpath.enums import PathSeparators
    from yamlpath.exceptions import YAMLPathException
    docs = load_docs(text)
    if docs is None:
        return {"exit": 1, "doc": None, "ld": "failed"}
    data = docs[0] if docs else None
    if data is None:
        return {"ld": "null"}
    src = case["src"]
    must_exist = case["mustexist"] or src["k"] == "delete" or bool(case["saveto"])
    value = {"value": src.get("v"), "stdin": src.get("v"), "file": (src.get("v") or "").rstrip(), "null": None}.get(src["k"])
    has_value = src["k"] in ("value", "stdin", "file", "null")

    def go():
        proc = Processor(core.quiet_logger(), data)
        yp = YAMLPath(case["change"], pathsep=PathSeparators.DOT)
        try:
            gathered = list(proc.get_nodes(yp, mustexist=True, default_value=("" if value else " ")))
        except YAMLPathException:
            if must_exist:
                return 1
            gathered = []
        if case["check"]:
            for nc in gathered:
                if not case["check"] == nc.node:
                    return 20
        if case["saveto"]:
            return "saveto"
        if src["k"] == "delete":
            try:
                proc.delete_gathered_nodes(gathered)
            except YAMLPathException as ex:
                if "delete the entire document" in ex.user_message:
                    return 1
        elif has_value:
            try:
                proc.set_value(yp, value, value_format=case["fmt"].lower(), mustexist=must_exist, tag=None)
            except YAMLPathException:
                return 1
        return 0
    g = ed.guarded(go, 10.0)
    if g[0] != "ok":
        return {"crash": g[0], "ld": "ok"}
    if g[1] == "saveto":
        return {"ld": "ok", "exit": None}
    res = {"ld": "ok", "exit": g[1], "doc": None}
    if g[1] == 0:
        # what the tool's writer makes of the library's result, reloaded (serialisation is not the subject)
        buf = io.StringIO()
        from yamlpath.common import Parsers
        from yamlpath.commands import yaml_set
        try:
            if yaml_set.write_document_as_yaml("x.json" if case["fmt_in"] == "json" else "x.yaml", data):
                Parsers.get_yaml_editor().dump(data, buf)
            else:
                json.dump(Parsers.jsonify_yaml_data(data), buf)
            back = load_docs(buf.getvalue())
            res["doc"] = codec.node_to_json(back[0] if back else None, anchors=False) if back is not None else "unloadable"
        except codec.OutOfModel:
            res["doc"] = "oom"
        except Exception as e:  # noqa
            res["doc"] = "dump-crash:" + type(e).__name__
    return res


def set_argv(case, path_or_none):
    src = case["src"]
    argv = ["-g", case["change"]]
    extra_files = []
    if src["k"] == "value":
        argv += ["--value=" + src["v"]]
    elif src["k"] == "delete":
        argv += ["-D"]
    elif src["k"] == "null":
        argv += ["-N"]
    elif src["k"] == "file":
        vf = write_file("set-value-%d.txt" % os.getpid(), src["v"])
        extra_files.append(vf)
        argv += ["-f", vf]
    elif src["k"] == "stdin":
        argv += ["-i"]
    if case["fmt"] != "DEFAULT":
        argv += ["-F", case["fmt"].lower()]
    if case["mustexist"]:
        argv += ["-m"]
    if case["backup"]:
        argv += ["-b"]
    if case["check"]:
        argv += ["-c", case["check"]]
    if case["saveto"]:
        argv += ["-s", case["saveto"]]
    if case["anchor"]:
        argv += ["-H", case["anchor"]]
    if case["randomfrom"] is not None:
        argv += ["-M", case["randomfrom"]]
    argv += key_files(case["keys"])
    return argv, extra_files


def prep_set(case):
    f = F()
    try:
        text = doc_text([case["doc"]], case["fmt_in"])
    except Exception:  # noqa
        f.oom = True
        return f, None, None
    bad = case.get("bad")
    if bad == "unloadable":
        text = "a: [1, 2\nb: }\n"
    src = case["src"]
    dl = case["delivery"]
    ext = "json" if case["fmt_in"] == "json" else "yaml"
    path = write_file("set-%d.%s" % (os.getpid(), ext), text)
    bak = path + ".bak"
    rm(bak)
    argv, extra = set_argv(case, path)
    stdin_text, tty, farg, nostdin = "", True, None, False
    if bad == "no-input-tty":
        pass
    elif bad == "no-input-nostdin":
        argv += ["-S"]
        nostdin, tty, stdin_text = True, False, text
    elif dl == "file" or bad == "missing-file":
        argv += [path]
        farg = "path"
        tty = src["k"] != "stdin"
        if src["k"] == "stdin":
            stdin_text = src["v"]
        if bad == "missing-file":
            rm(path)
    elif dl == "dash":
        argv += ["-"]
        farg, tty, stdin_text = "dash", False, text
    else:
        tty, stdin_text = False, text
    r = run_tool(case, "set", argv, stdin_text, tty)
    after = read_file(path)
    bak_text = read_file(bak)
    rm(path, bak, *extra)
    lib = lib_set(text, case) if bad != "missing-file" else {"exit": 1, "doc": None, "ld": "failed"}
    ctx = {"text": text, "r": r, "after": after, "bak": bak_text, "lib": lib, "farg": farg, "argv": argv}
    # the model's inputs
    docs = load_docs(text) if bad != "missing-file" else None
    try:
        if docs is None:
            ld = None
            dj = None
        else:
            data = docs[0] if docs else None
            dj = codec.node_to_json(data, anchors=True) if data is not None else None
            ld = {"doc": dj}
        g = {"addrs": [], "failed": True}
        modelled = True
        if dj is not None:
            ga = ed.gather(dj, case["change"], "delete" if src["k"] == "delete" else "set")
            if ga[0] == "ok":
                if src["k"] == "delete":
                    g = {"addrs": ga[1], "failed": False}
                else:
                    if any(nm for _a, nm in ga[1]):
                        modelled = False
                    g = {"addrs": [a for a, _nm in ga[1]], "failed": False}
            elif ga[0] == "err" and ga[1] == "ypath":
                g = {"addrs": [], "failed": True}
            else:
                modelled = False
    except codec.OutOfModel:
        f.oom = True
        return f, ctx, None
    must_exist = case["mustexist"] or src["k"] == "delete" or bool(case["saveto"])
    if not must_exist and not re.fullmatch(r"[A-Za-z0-9_.\[\]\-]+", case["change"]):
        modelled = False       # set_value(mustexist=False) follows the path with the creating evaluator
    if case["check"] and "(" in case["change"]:
        modelled = False       # --check against virtual collector results
    ctx["modelled"] = modelled
    anchor = case["anchor"]
    args = {"file": farg, "nostdin": nostdin, "src": _src_json(src), "anchor": None if not anchor else (
                "name" if anchor.replace(" ", "").replace("&", "").replace("*", "") else "symbols"),
            "tag": False, "backup": case["backup"], "change": case["change"], "saveto": case["saveto"],
            "mustexist": case["mustexist"], "check": case["check"], "fmt": case["fmt"], "eyamlcrypt": False,
            "randomFromShort": case["randomfrom"] is not None and len(case["randomfrom"]) < 2,
            "priv": case["keys"]["priv"], "pub": case["keys"]["pub"]}
    req = {"op": "C16.set", "args": args, "tty": tty, "ld": ld, "g": g, "segs": case["segs"]}
    return f, ctx, [req]


def _src_json(src):
    if src["k"] in ("value", "stdin", "file"):
        return {"k": src["k"], "v": src["v"]}
    return {"k": src["k"]}


def judge_set(case, f, ctx, answers):
    mo = answers[0]
    r, lib = ctx["r"], ctx["lib"]
    desc = "yaml-set %s on %s [%s%s]" % (" ".join(_q(a) for a in ctx["argv"][:-1 if ctx["farg"] else None]), _show(ctx["text"]),
                                         case["delivery"], ", bad=%s" % case["bad"] if case["bad"] else "")
    if r.get("timeout") and case["saveto"] and "(" in case["change"]:
        f.viol("timeout:set:saveto-of-collector-result", "%s did not finish within its time limit" % desc)
        return
    if crashed(f, "set", r, desc, lib.get("crash")):
        return
    if r.get("uncaught", "").endswith(("save_to_json_file", "save_to_yaml_file")):
        f.count("set:dumper-failed-midway-in-%s(C17)" % r["uncaught"].rsplit(":", 1)[-1])
        return
    f.count("set:exit=%d" % r["rc"])
    to_file = ctx["farg"] == "path"
    # direct: a failing run leaves the file alone and takes no backup content other than the original
    if to_file and r["rc"] != 0 and case["bad"] != "missing-file" and ctx["after"] != ctx["text"]:
        f.viol("set-failed-run-changed-file", "%s exits %d but the file content changed" % (desc, r["rc"]))
        return
    if to_file and ctx["bak"] is not None and ctx["bak"] != ctx["text"]:
        f.viol("set-backup-differs", "%s: FILE.bak is not the original content" % desc)
        return
    if mo.get("errors", 0) > 0:
        if r["rc"] != 1:
            f.viol("set-args:impl=%d,model=1" % r["rc"], "%s exits %d; validateargs rejects this argument record (status 1)" % (desc, r["rc"]))
        return
    if lib.get("ld") == "null" or "crash" in lib or lib.get("exit", 0) is None:
        f.count("set:not-judged(%s)" % ("null-document" if lib.get("ld") == "null" else "saveto" if "crash" not in lib else "library-crash"))
        if "unmodelled" not in mo and lib.get("exit", 0) is None and mo["exit"] != r["rc"]:
            f.viol("set-exit:impl=%d,model=%d" % (r["rc"], mo["exit"]), "%s exits %d, the model of main() %d" % (desc, r["rc"], mo["exit"]))
        return
    f.nontrivial = ("set", ctx["text"], tuple(ctx["argv"][:-1]))
    # (a) against the library's own answer
    if r["rc"] != lib["exit"]:
        f.viol("set-exit:impl=%d,library=%d" % (r["rc"], lib["exit"]),
               "%s exits %d; replaying the same library calls in-process ends with status %d" % (desc, r["rc"], lib["exit"]))
        return
    got = None
    if r["rc"] == 0:
        produced = ctx["after"] if to_file else r["out"]
        back = load_docs(produced or "")
        if (back is None or len(back) > 1) and lib["doc"] == "unloadable":
            f.count("set:library-result-does-not-reload(C03)")
            return
        if back is None or len(back) > 1:
            f.viol("set-output-unloadable", "%s: the document it wrote does not load: %s" % (desc, _show(produced or "")))
            return
        try:
            got = codec.node_to_json(back[0] if back else None, anchors=False)
        except codec.OutOfModel:
            f.oom = True
            return
        if isinstance(lib["doc"], str):
            f.count("set:library-result-not-comparable(%s)" % lib["doc"].split(":")[0])
        elif cc.data_of(got) != cc.data_of(lib["doc"]):
            f.viol("set-result-differs-from-library", "%s wrote %s; Processor on the same text gives %s" % (
                desc, _showj(got), _showj(lib["doc"])))
            return
        if to_file and case["backup"] and ctx["bak"] is None:
            f.viol("set-no-backup", "%s: --backup given, no FILE.bak" % desc)
        if not to_file and ctx["after"] != ctx["text"] and case["bad"] is None:
            f.viol("set-stdin-run-touched-file", "%s" % desc)
    # (b) against the Lean model (Edit model applied to the gathered addresses)
    if "unmodelled" in mo or not ctx["modelled"]:
        f.count("set:model-unmodelled")
        return
    if mo["exit"] != r["rc"]:
        f.dis("set-exit:impl=%d,model=%d" % (r["rc"], mo["exit"]), "%s exits %d (as the library replay), the Lean model %d" % (
            desc, r["rc"], mo["exit"]))
        return
    if r["rc"] == 0 and got is not None and mo["written"] is not None:
        want = codec.strip_anchors(mo["written"]["doc"])
        if case["fmt_in"] == "json" or not to_file and False:
            pass
        if cc.data_of(got) != cc.data_of(want):
            if _reload_lossy(want):
                f.count("set:model-result-differs-after-reload(text-style)")
            else:
                f.dis("set-result-differs-from-model", "%s wrote %s; the Edit model predicts %s" % (desc, _showj(got), _showj(want)))
        dest = "file" if to_file else "stdout"
        if mo["written"]["dest"] != dest:
            f.dis("set-destination", "%s wrote to %s, model says %s" % (desc, dest, mo["written"]["dest"]))
        if to_file and (mo["backup"] is not None) != (ctx["bak"] is not None):
            f.viol("set-backup-presence", "%s: FILE.bak %s" % (desc, "missing" if ctx["bak"] is None else "unexpected"))


def _reload_lossy(j):
    """Text values that a dump + reload legitimately changes (multi-line folded text etc.)."""
    if j["k"] == "map":
        return any(_reload_lossy(v) for _, v in j["e"])
    if j["k"] == "seq":
        return any(_reload_lossy(v) for v in j["i"])
    return j["k"] == "str" and ("\n" in j["v"])


def _q(a):
    return a if re.fullmatch(r"[\w./=\-\[\]]+", a) else repr(a)


def _showj(j, n=220):
    try:
        t = json.dumps(codec.json_to_plain(j), default=lambda o: sorted(o) if isinstance(o, (set, frozenset)) else str(o))
    except Exception:  # noqa
        t = json.dumps(j)
    return t if len(t) <= n else t[:n] + "…"


# =========================================================================== yaml-merge

MODES = ["condense_all", "merge_across", "matrix_merge"]
BROKEN_TEXT = "a: [1, 2\nb: }\n"


def gen_merge(rng):
    nfiles = rng.choice([1, 2, 2, 2, 3])
    streams = []
    l, r = mg.rand_pair(rng)
    for i in range(nfiles):
        ndocs = rng.choice([1, 1, 1, 2, 3])
        base = l if i == 0 else r
        docs = [base if j == 0 else mg.mutate(rng, base, 2) for j in range(ndocs)]
        streams.append(docs)
    cfg = {}
    for name, opts in (("hash", mg.HASH), ("array", mg.ARRAY), ("aoh", mg.AOH), ("set", mg.SETS)):
        if rng.random() < 0.5:
            cfg[name] = rng.choice(opts)
    fmts = []
    for docs in streams:
        fmts.append("json" if all(cc.json_safe(d) for d in docs) and rng.random() < 0.3 else "yaml")
    x = rng.random()
    stdin_at = None              # index of the stream delivered on standard input
    how = "files"
    if x < 0.22:
        stdin_at, how = rng.randrange(nfiles), "dash"
    elif x < 0.42:
        stdin_at, how = nfiles - 1, "implicit"
    out = rng.choice(["stdout", "stdout", "stdout", "output-new", "overwrite-existing", "overwrite-new", "output-existing"])
    case = {"tool": "merge", "streams": streams, "fmts": fmts, "cfg": cfg, "mode": rng.choice(MODES),
            "docformat": rng.choice([None, None, "yaml", "json", "auto"]), "stdin_at": stdin_at, "how": how, "out": out,
            "backup": (out.startswith("overwrite") and rng.random() < 0.5) or rng.random() < 0.03, "bad": None, "tty": rng.random() < 0.5}
    y = rng.random()
    if y < 0.05:
        case["bad"] = {"k": "unloadable", "at": rng.randrange(nfiles)}
    elif y < 0.09:
        case["bad"] = {"k": "missing", "at": rng.randrange(nfiles)}
    elif y < 0.11:
        case["bad"] = {"k": "no-input"}
    elif y < 0.13:
        case["bad"] = {"k": "two-dashes"}
    elif y < 0.16:
        case["bad"] = {"k": "empty", "at": rng.randrange(nfiles)}
    elif y < 0.18:
        case["bad"] = {"k": "bad-config"}
    return case


ABSENT_KEY = "zz_absent_q"


def gen_merge_config(rng):
    """yaml-merge with a readable --config INI file: part of the policy moves from the command line to [defaults]; the
    [rules] / [keys] sections are absent, empty or name a path no document has (each makes MergerConfig log a warning
    and changes nothing about the merge).  Mostly written to STDOUT, where the tool must print the document alone."""
    c = gen_merge(rng)
    if rng.random() < 0.9 or (c["bad"] or {}).get("k") == "bad-config":
        c["bad"] = None
    if rng.random() < 0.75:
        c["out"], c["backup"] = "stdout", False
    cfg = c["cfg"]
    for name, opts in (("hash", mg.HASH), ("array", mg.ARRAY), ("aoh", mg.AOH), ("set", mg.SETS)):
        x = rng.random()
        if name in cfg and x < 0.5:
            cfg["d" + name] = cfg.pop(name)
        elif x < 0.65:
            cfg["d" + name] = rng.choice(opts)          # next to a command-line value (which wins) or alone
    c["ini"] = {"rules": rng.choice(["absent", "absent", "empty", "nomatch"]), "keys": rng.choice(["absent", "absent", "empty", "nomatch"])}
    return c


def write_merge_ini(case, path):
    cfg, ini = case["cfg"], case["ini"]
    names = {"hash": "hashes", "array": "arrays", "aoh": "aoh", "set": "sets"}
    lines = []
    d = [(n, cfg["d" + n]) for n in ("hash", "array", "aoh", "set") if cfg.get("d" + n)]
    if d:
        lines.append("[defaults]")
        lines += ["%s = %s" % (names[n], v) for n, v in d]
    for sec, val in (("rules", "left"), ("keys", "id")):
        if ini[sec] != "absent":
            lines.append("[%s]" % sec)
        if ini[sec] == "nomatch":
            lines.append("/%s/sub = %s" % (ABSENT_KEY, val))
    with open(path, "w", encoding="utf-8") as fh:
        fh.write("\n".join(lines) + "\n")


def lib_merge(case, texts, outp=None):
    """The library's answer: Mergers over the loaded streams, combined with yaml_merge's own
    merge_condense_all / merge_across / merge_matrix in the order main() reads the inputs."""
    from yamlpath.commands import yaml_merge
    from yamlpath.merger import Merger
    mode = case["mode"]
    extra = {"multi_doc_mode": mode}
    if case["docformat"]:
        extra["document_format"] = case["docformat"]
    mc = mg.make_config(case["cfg"], extra_args=extra)
    log = core.quiet_logger()
    fn = {"condense_all": yaml_merge.merge_condense_all, "merge_across": yaml_merge.merge_across,
          "matrix_merge": yaml_merge.merge_matrix}[mode]

    def go():
        mergers, count, state = [], 0, 0
        for (text, is_stdin) in texts:
            docs = load_docs(text) if text is not None else None
            if docs is not None and is_stdin and not docs:
                docs = [""]
            if len(mergers) < 1:
                if docs is None:
                    return 4, None
                mergers = [Merger(log, d, mc) for d in docs]
                continue
            if docs is None:
                return 3, None
            state = fn(log, mergers, [Merger(log, d, mc) for d in docs])
            if state != 0:
                return state, None
            count += 1
        if count == 0 and mode == "condense_all":
            state = yaml_merge.merge_condense_all(log, mergers, [])
            if state != 0:
                return state, None
        if not mergers:
            raise IndexError("no documents")
        from yamlpath.common import Parsers
        from yamlpath.merger.enums.outputdoctypes import OutputDocTypes
        editor = Parsers.get_yaml_editor()
        is_json = mergers[0].prepare_for_dump(editor, outp or "") is OutputDocTypes.JSON
        # the first document decides how the stream is written; under `-D auto` every document is nevertheless prepared
        # according to its OWN root style (a flow-style root: dumped as JSON and reloaded - sets become {member: null},
        # keys become text - even when the stream is then written as YAML)
        flags = [m.prepare_for_dump(editor, outp or "") is OutputDocTypes.JSON for m in mergers]
        flags[0] = flags[0] or is_json
        return 0, ([m.data for m in mergers], is_json, flags)
    g = ed.guarded(go, 15.0)
    if g[0] != "ok":
        return {"crash": g[0]}
    state, datas = g[1]
    res = {"exit": state, "docs": None}
    if datas is not None:
        datas, res["is_json"], res["json_flags"] = datas
        try:
            res["docs"] = [codec.node_to_json(d, anchors=False) for d in datas]
        except codec.OutOfModel:
            res["oom"] = True
    return res


def prep_merge(case):
    f = F()
    streams, bad = case["streams"], case["bad"] or {}
    texts = []
    try:
        for docs, fm in zip(streams, case["fmts"]):
            texts.append(doc_text(docs, fm))
    except Exception:  # noqa
        f.oom = True
        return f, None, None
    paths = []
    for i, t in enumerate(texts):
        if bad.get("k") == "unloadable" and bad["at"] == i:
            texts[i] = t = BROKEN_TEXT
        if bad.get("k") == "empty" and bad["at"] == i:
            texts[i] = t = ""
        p = write_file("merge-%d-%d.%s" % (os.getpid(), i, "json" if case["fmts"][i] == "json" else "yaml"), t)
        if bad.get("k") == "missing" and bad["at"] == i:
            rm(p)
            texts[i] = None
        paths.append(p)
    argv = []
    for n, opt in (("hash", "-H"), ("array", "-A"), ("aoh", "-O"), ("set", "-E")):
        if case["cfg"].get(n):
            argv += [opt, case["cfg"][n]]
    argv += ["-M", case["mode"]]
    if case["docformat"]:
        argv += ["-D", case["docformat"]]
    config, inip = "unset", None
    if case.get("ini"):
        inip = os.path.join(cc.tmpdir(), "merge-%d.ini" % os.getpid())
        write_merge_ini(case, inip)
        argv += ["-c", inip]
        config = "good"
    if bad.get("k") == "bad-config":
        argv += ["-c", os.path.join(cc.tmpdir(), "no-such.ini")]
        config = "bad"
    outp, existed_text, outarg = None, None, {"k": "stdout"}
    if case["out"] != "stdout":
        outp = os.path.join(cc.tmpdir(), "merge-out-%d.%s" % (os.getpid(), "yaml"))
        rm(outp, outp + ".bak")
        exists = case["out"].endswith("existing")
        if exists:
            existed_text = "old: content\n"
            write_file(os.path.basename(outp), existed_text)
        argv += ["-o" if case["out"].startswith("output") else "-w", outp]
        outarg = {"k": "output" if case["out"].startswith("output") else "overwrite", "exists": exists}
    if case["backup"]:
        argv += ["-b"]
    stdin_at, how = case["stdin_at"], case["how"]
    if texts and stdin_at is not None and texts[stdin_at] is None:
        stdin_at, how = None, "files"
    files, fargs, stdin_text, tty, nostdin = [], [], "", case["tty"], False
    for i, p in enumerate(paths):
        if stdin_at == i and how == "dash":
            files.append("-")
            fargs.append("dash")
            stdin_text, tty = texts[i], False
        elif stdin_at == i and how == "implicit":
            stdin_text, tty = texts[i], False
        else:
            files.append(p)
            fargs.append("path")
    if bad.get("k") == "two-dashes":
        files += ["-", "-"]
        fargs += ["dash", "dash"]
        tty = False
    if bad.get("k") == "no-input":
        files, fargs, tty, stdin_text, how, stdin_at = [], [], True, "", "files", None
    if how != "implicit" and not tty and "-" not in files:
        # a non-TTY session without '-' reads standard input as one more stream: keep it out
        argv += ["-S"]
        nostdin = True
    # explicit arity of the eventual exists() test happens before the run
    r = run_tool(case, "merge", argv + files, stdin_text, tty)
    produced = read_file(outp) if outp else None
    bak = read_file(outp + ".bak") if outp else None
    rm(*[p for p in paths], *( [outp, outp + ".bak"] if outp else []), *([inip] if inip else []))
    # the streams in the order main() reads them
    order = [(texts[i], stdin_at == i) for i in range(len(texts)) if not (stdin_at == i and how == "implicit")]
    if how == "implicit" and stdin_at is not None:
        order.append((texts[stdin_at], True))
    lib = lib_merge(case, order, outp) if not bad.get("k") in ("no-input", "two-dashes", "bad-config") else {"exit": 1, "docs": None}
    ctx = {"r": r, "argv": argv + files, "texts": texts, "lib": lib, "produced": produced, "bak": bak,
           "existed": existed_text, "outp": outp, "order": order}
    # model inputs
    try:
        def loaded(text, is_stdin):
            if text is None:
                return None
            docs = load_docs(text)
            if docs is None:
                return None
            if is_stdin and not docs:
                docs = [""]
            return [codec.node_to_json(d, anchors=False) for d in docs]
        loads = [loaded(texts[i], stdin_at == i) for i in range(len(texts)) if not (stdin_at == i and how == "implicit")]
        if bad.get("k") == "two-dashes":
            loads += [None, None]
        if bad.get("k") == "no-input":
            loads = []
        stdin_l = loaded(texts[stdin_at], True) if (how == "implicit" and stdin_at is not None) else loaded(stdin_text, True)
    except codec.OutOfModel:
        f.oom = True
        return f, ctx, None
    alldocs = [d for l in loads + [stdin_l] if l for d in l]
    req = {"op": "C16.merge", "args": {"files": fargs, "nostdin": nostdin, "config": config, "out": outarg,
                                        "backup": case["backup"], "mode": case["mode"]},
           "tty": tty, "loads": loads, "stdin": stdin_l, "cfg": mg.model_cfg(case["cfg"], alldocs)}
    return f, ctx, [req]


def parse_merge_output(text, as_json):
    if as_json:
        text = text.strip()
        try:
            return [json.loads(text)]
        except ValueError:
            return [json.loads(l) for l in text.split("\n") if l.strip()]
    docs = load_docs(text)
    if docs is None:
        raise ValueError("unloadable")
    return [codec.node_to_json(d, anchors=False) for d in docs]


def judge_merge(case, f, ctx, answers):
    mo, r, lib = answers[0], ctx["r"], ctx["lib"]
    desc = "yaml-merge %s (%s)" % (" ".join(_q(os.path.basename(a) if a.startswith("/") else a) for a in ctx["argv"]),
                                  "; ".join("%s%s" % ("stdin=" if s else "", _show(t if t is not None else "<missing>", 70))
                                            for t, s in ctx["order"]))
    if crashed(f, "merge", r, desc, None):
        return
    f.count("merge:exit=%d" % r["rc"])
    if ctx["bak"] is not None and ctx["bak"] != ctx["existed"]:
        f.viol("merge-backup-differs", "%s: OVERWRITE.bak is not the former content" % desc)
    if r["rc"] != 0 and ctx["outp"] and ctx["produced"] != ctx["existed"]:
        f.viol("merge-failed-run-wrote-file", "%s exits %d yet the output file changed" % (desc, r["rc"]))
        return
    if mo.get("errors", 0) > 0:
        if r["rc"] != 1:
            f.viol("merge-args:impl=%d,model=1" % r["rc"], "%s exits %d; validateargs rejects this argument record (status 1)" % (desc, r["rc"]))
        elif ctx["outp"] and ctx["produced"] != ctx["existed"]:
            f.viol("merge-rejected-run-wrote-file", desc)
        return
    if "crash" in lib:
        if r.get("uncaught"):
            f.count("merge:library-exception-relayed(C05)")
        else:
            f.count("merge:library-crash-not-relayed")
        return
    if lib.get("oom"):
        f.oom = True
        return
    if r["rc"] != lib["exit"]:
        f.viol("merge-exit:impl=%d,library=%d%s" % (r["rc"], lib["exit"], unc(r)),
               "%s exits %d%s; Mergers combined by the tool's own multi-document functions end with %d" % (
                   desc, r["rc"], unc(r), lib["exit"]))
        return
    if mo.get("errors", 0) == 0 and not (case["bad"] or {}).get("k") in ("unloadable", "missing"):
        f.nontrivial = ("merge", tuple(ctx["argv"][:-1]), tuple(t for t, _ in ctx["order"]))
    got = None
    if r["rc"] == 0:
        produced = ctx["produced"] if ctx["outp"] else r["out"]
        # "in the requested format": an explicit --document-format decides, whatever the output file is called
        # (the library's own answer is only consulted for `auto` / no option)
        as_json = (True if case.get("docformat") == "json" else False if case.get("docformat") == "yaml"
                   else bool(lib.get("is_json")))
        try:
            got = parse_merge_output(produced or "", as_json)
        except Exception:  # noqa
            logged = [l for l in out_lines(r["out"]) if l.startswith("WARNING:  ")] if not ctx["outp"] else []
            f.viol("merge-stdout-holds-log-lines" if logged else "merge-output-unloadable",
                   "%s wrote %s (%s expected)" % (desc, _show(produced or ""), "JSON" if as_json else "YAML"))
            return
        want = lib["docs"]
        logged = [l for l in out_lines(r["out"]) if l.startswith("WARNING:  ")] if not ctx["outp"] else []
        if logged and not _merge_same(got, want, as_json):
            f.viol("merge-stdout-holds-log-lines", "%s: the merged document goes to STDOUT, which also holds the logger's line(s) %s: "
                   "STDOUT is not the merge result (%s)" % (desc, logged[:2], _show(r["out"], 300)))
            return
        if not _merge_same(got, want, as_json):
            f.viol("merge-result-differs-from-library", "%s wrote %s; the library's merge of the same inputs is %s" % (
                desc, _show(produced or "", 300), [_showj(d) for d in want]))
            return
        if ctx["outp"] and [l for l in out_lines(r["out"]) if not l.startswith("WARNING:")]:
            f.viol("merge-wrote-stdout-too", "%s printed %s although an output file was named" % (desc, _show(r["out"])))
        if case["backup"] and case["out"] == "overwrite-existing" and ctx["bak"] is None:
            f.viol("merge-no-backup", "%s: --backup given, no OVERWRITE.bak" % desc)
    # the Lean model
    if "crash" in mo or "err" in mo:
        if mo.get("err") == "outOfModel":
            f.count("merge:model-out-of-model")
            return
        f.dis("merge-model:%s" % (mo.get("crash") or mo.get("err")), "%s exits %d; the Lean model ends in %s" % (
            desc, r["rc"], mo.get("crash") or mo.get("err")))
        return
    if mo["exit"] != r["rc"]:
        if mo["errors"] > 0 or r["rc"] in (1, 3, 4) or mo["exit"] in (1, 3, 4):
            f.viol("merge-exit:impl=%d,model=%d%s" % (r["rc"], mo["exit"], unc(r)), "%s exits %d%s; the model of main() defines %d" % (
                desc, r["rc"], unc(r), mo["exit"]))
        elif r["rc"] >= 10 and mo["exit"] >= 10 and case["mode"] != "merge_across":
            # a failed pairwise merge leaves the real left-hand document partly merged; later failures then differ
            f.count("merge:state-differs-after-first-failure(model abstraction, as C18)")
        else:
            f.dis("merge-exit:impl=%d,model=%d" % (r["rc"], mo["exit"]), "%s exits %d; the Lean merge model %d" % (desc, r["rc"], mo["exit"]))
        return
    if r["rc"] == 0 and got is not None:
        if not _merge_same(got, mo["docs"], bool(lib.get("is_json")), lib.get("json_flags")):
            f.dis("merge-result-differs-from-model", "%s wrote %s; the Lean model predicts %s" % (
                desc, _show(ctx["produced"] or r["out"], 300), [_showj(d) for d in mo["docs"]]))
        if mo["toFile"] != bool(ctx["outp"]):
            f.dis("merge-destination", desc)


def _merge_same(got, want, as_json, json_flags=None):
    """json_flags (comparison with the Lean model's documents, which are never "prepared for dump"): the documents
    that Merger.prepare_for_dump passed through JSON although the stream was written as YAML (`-D auto`, first document
    with a block-style root, this one with a flow-style root): compared as the JSON data they were reduced to."""
    if want is None or len(got) != len(want):
        return False
    for i, (g, w) in enumerate(zip(got, want)):
        if as_json:
            if json.loads(json.dumps(g)) != json.loads(json.dumps(cc.plain_json(w))):
                return False
        elif json_flags and i < len(json_flags) and json_flags[i]:
            if json.loads(json.dumps(cc.plain_json(g))) != json.loads(json.dumps(cc.plain_json(w))):
                return False
        elif cc.data_of(g) != cc.data_of(w):
            return False
    return True


# =========================================================================== yaml-diff

def gen_diff(rng):
    l, r = mg.rand_pair(rng)
    x = rng.random()
    if x < 0.3:
        r = l
    lhs, rhs = [l], [r]
    if rng.random() < 0.15:
        lhs = [mg.rand_doc(rng, 1)] * rng.choice([1, 2]) + [l]
    if rng.random() < 0.15:
        rhs = [r, mg.rand_doc(rng, 1)]
    lidx = (len(lhs) - 1) if len(lhs) > 1 and rng.random() < 0.8 else None
    ridx = 0 if len(rhs) > 1 and rng.random() < 0.8 else None
    if rng.random() < 0.04:
        lidx = rng.choice([5, -1, 1])
    flags = []
    y = rng.random()
    if y < 0.2:
        flags.append("-s")
    elif y < 0.35:
        flags.append("-o")
    elif y < 0.5:
        flags.append("-q")
    elif y < 0.55:
        flags += ["-q", "-s"]
    elif y < 0.6:
        flags.append("-v")
    if rng.random() < 0.2:
        flags += ["-t", rng.choice(["fslash", "dot", "auto"])]
    case = {"tool": "diff", "lhs": lhs, "rhs": rhs, "lidx": lidx, "ridx": ridx, "flags": flags,
            "lfmt": "json" if all(cc.json_safe(d) for d in lhs) and rng.random() < 0.25 else "yaml",
            "rfmt": "json" if all(cc.json_safe(d) for d in rhs) and rng.random() < 0.25 else "yaml",
            "stdin_side": rng.choice([None, None, "l", "r"]), "keys": rand_keys(rng, 0.04), "bad": None}
    z = rng.random()
    if z < 0.04:
        case["bad"] = rng.choice(["unloadable-l", "unloadable-r", "missing-l", "two-dashes", "empty-l"])
    return case


def lib_diff(ldata, rdata, flags):
    from yamlpath.differ import Differ, DifferConfig
    from yamlpath.differ.enums.diffactions import DiffActions
    from yamlpath.enums import PathSeparators
    log = core.quiet_logger()
    args = SimpleNamespace(config=None, arrays=None, aoh=None)
    pathsep = PathSeparators.from_str(flags[flags.index("-t") + 1]) if "-t" in flags else PathSeparators.DOT

    def go():
        d = Differ(DifferConfig(log, args), log, ldata, ignore_eyaml_values=False, binary="eyaml", publickey=None, privatekey=None)
        d.compare_to(rdata)
        out = []
        for e in d.get_report():
            e.pathsep = pathsep
            e.verbose = "-v" in flags
            out.append((e.action is DiffActions.SAME, str(e)))
        return out
    g = ed.guarded(go, 15.0)
    if g[0] != "ok":
        return {"crash": g[0]}
    return {"report": g[1]}


def _diff_docs(text, is_stdin):
    """get_docs of yaml-diff: the loaded documents, an empty text scalar becoming None."""
    docs = load_docs(text) if text is not None else None
    if docs is None:
        return None
    if is_stdin and not docs:
        docs = [""]
    return [None if (not isinstance(d, (list, dict)) and len(str(d)) < 1) else d for d in docs]


def prep_diff(case):
    f = F()
    bad = case["bad"]
    try:
        lt, rt = doc_text(case["lhs"], case["lfmt"]), doc_text(case["rhs"], case["rfmt"])
    except Exception:  # noqa
        f.oom = True
        return f, None, None
    if bad == "unloadable-l":
        lt = BROKEN_TEXT
    if bad == "unloadable-r":
        rt = BROKEN_TEXT
    if bad == "empty-l":
        lt = ""
    lp = write_file("diff-l-%d.%s" % (os.getpid(), "json" if case["lfmt"] == "json" else "yaml"), lt)
    rp = write_file("diff-r-%d.%s" % (os.getpid(), "json" if case["rfmt"] == "json" else "yaml"), rt)
    if bad == "missing-l":
        rm(lp)
        lt = None
    side = case["stdin_side"] if bad != "missing-l" else None
    argv = list(case["flags"]) + key_files(case["keys"])
    if case["lidx"] is not None:
        argv += ["-L", str(case["lidx"])]
    if case["ridx"] is not None:
        argv += ["-R", str(case["ridx"])]
    files = ["-" if side == "l" else lp, "-" if side == "r" else rp]
    if bad == "two-dashes":
        files = ["-", "-"]
        side = "l"
    stdin_text = lt if side == "l" else rt if side == "r" else ""
    r = run_tool(case, "diff", argv + files, stdin_text, side is None)
    rm(lp, rp)
    ldocs = _diff_docs(lt, side == "l")
    rdocs = _diff_docs(rt, side == "r" or bad == "two-dashes")
    if bad == "two-dashes":
        rdocs = _diff_docs("", True)
    ctx = {"r": r, "argv": argv + [os.path.basename(x) for x in files], "lt": lt, "rt": rt}
    # the documents the tool compares (Python indexing)
    lib = {}
    try:
        def pick(docs, idx):
            if docs is None or (len(docs) > 1 and idx is None):
                return None
            i = idx or 0
            if i > len(docs) - 1 or -i > len(docs):
                return None
            return docs[i]
        if ldocs is not None and rdocs is not None:
            okl = not (len(ldocs) > 1 and case["lidx"] is None) and (case["lidx"] or 0) <= len(ldocs) - 1 and -(case["lidx"] or 0) <= len(ldocs)
            okr = not (len(rdocs) > 1 and case["ridx"] is None) and (case["ridx"] or 0) <= len(rdocs) - 1 and -(case["ridx"] or 0) <= len(rdocs)
            if okl and okr:
                ld, rd = ldocs[case["lidx"] or 0], rdocs[case["ridx"] or 0]
                lib = lib_diff(ld, rd, case["flags"])
                lib["equal"] = cc.data_of(codec.node_to_json(ld, anchors=False)) == cc.data_of(codec.node_to_json(rd, anchors=False))
        lj = None if ldocs is None else [codec.node_to_json(d, anchors=False) for d in ldocs]
        rj = None if rdocs is None else [codec.node_to_json(d, anchors=False) for d in rdocs]
    except codec.OutOfModel:
        f.oom = True
        return f, ctx, None
    ctx["lib"] = lib
    fl = case["flags"]
    req = {"op": "C16.diff", "args": {"lhs": "dash" if files[0] == "-" else "path", "rhs": "dash" if files[1] == "-" else "path",
                                       "quiet": "-q" in fl, "same": "-s" in fl, "onlysame": "-o" in fl, "config": "unset",
                                       "priv": case["keys"]["priv"], "pub": case["keys"]["pub"],
                                       "lidx": case["lidx"], "ridx": case["ridx"]},
           "l": lj, "r": rj, "report": [s for s, _t in lib["report"]] if "report" in lib else None}
    return f, ctx, [req]


def judge_diff(case, f, ctx, answers):
    mo, r, lib = answers[0], ctx["r"], ctx["lib"]
    desc = "yaml-diff %s on %s vs %s%s" % (" ".join(ctx["argv"]), _show(ctx["lt"] or "<missing>", 100), _show(ctx["rt"] or "", 100),
                                          " [bad=%s]" % case["bad"] if case["bad"] else "")
    if "crash" in mo:
        f.count("diff:model-crash(negative index before the first document)")
        if "crash" not in r and not r.get("timeout"):
            f.dis("diff-index", "%s: exit %s where Python indexing raises IndexError" % (desc, r.get("rc")))
        return
    if crashed(f, "diff", r, desc, lib.get("crash")):
        return
    f.count("diff:exit=%d" % r["rc"])
    if "crash" in lib:
        f.count("diff:library-crash-not-relayed")
        return
    if r["rc"] != mo["exit"]:
        f.viol("diff-exit:impl=%d,model=%d%s" % (r["rc"], mo["exit"], unc(r)),
               "%s exits %d%s; the differ's report (%s) defines %d" % (
                   desc, r["rc"], unc(r), "%d entries, %d not SAME" % (len(lib["report"]), sum(1 for s, _ in lib["report"] if not s))
                   if "report" in lib else "not reached", mo["exit"]))
        return
    if "report" in lib and mo["errors"] == 0:
        f.nontrivial = ("diff", tuple(ctx["argv"]), ctx["lt"], ctx["rt"])
        clean = all(s for s, _ in lib["report"])
        if clean != lib["equal"]:
            f.count("diff:report-vs-data-equality-differ(C06)")
        want = "".join(("\n" if i else "") + lib["report"][k][1] + "\n" for i, k in enumerate(mo["printed"]))
        got = "\n".join(l for l in r["out"].split("\n") if l != HELP_LINE)
        if got != want:
            f.viol("diff-entries", "%s prints %s; the differ's entries to show are %s" % (desc, _show(got, 300), _show(want, 300)))
    elif r["out"].replace(HELP_LINE, "").strip():
        f.viol("diff-output-on-failure", "%s exits %d and prints %s" % (desc, r["rc"], _show(r["out"])))


# =========================================================================== yaml-validate

GOOD_DOCS = ["a: 1\n", "- 1\n- 2\n", "a:\n  b: [1, 2]\n", "{\"a\": 1}\n", "x: &v 1\ny: *v\n", "just text\n", "5\n", "a: 1\nb:\n  - c\n"]
BAD_DOCS = ["a: [1, 2\n", "a: 1\na: 2\n", "x: &v 1\ny: &v 2\n", "a: }\n", "a: *nope\n", "a: 1\n b: 2\n", "- a\nb: 1\n"]


def gen_stream(rng):
    """(text | None for a missing file, knowledge of the expected doc_loaded flags by construction or None)"""
    x = rng.random()
    if x < 0.06:
        return None, [False]
    if x < 0.12:
        return "", []
    n = rng.choice([1, 1, 1, 2, 3])
    parts, flags = [], []
    for i in range(n):
        if rng.random() < 0.22:
            parts.append(rng.choice(BAD_DOCS))
            flags.append(False)
            break
        parts.append(rng.choice(GOOD_DOCS))
        flags.append(True)
    return "".join("---\n" + p for p in parts), flags


def gen_validate(rng):
    nfiles = rng.choice([1, 1, 2, 2, 3])
    streams = [gen_stream(rng) for _ in range(nfiles)]
    x = rng.random()
    stdin_at, how = None, "files"
    cands = [i for i, (t, _) in enumerate(streams) if t is not None]
    if cands and x < 0.25:
        stdin_at, how = rng.choice(cands), "dash"
    elif cands and x < 0.45 and streams[-1][0] is not None:
        stdin_at, how = nfiles - 1, "implicit"
    case = {"tool": "validate", "streams": [t for t, _ in streams], "by_construction": [fl for _, fl in streams],
            "stdin_at": stdin_at, "how": how, "noise": rng.choice([None, None, "-v", "-q"]), "bad": None, "tty": rng.random() < 0.5}
    y = rng.random()
    if y < 0.03:
        case["bad"] = "no-input"
    elif y < 0.06:
        case["bad"] = "two-dashes"
    return case


def lib_flags(text, is_stdin):
    """doc_loaded flags of Parsers.get_yaml_multidoc_data for one input."""
    import yamlpath.common.parsers as parsers_mod
    from yamlpath.common import Parsers

    class Cap:
        def __getattr__(self, _n):
            return lambda *a, **k: None
    if text is None:
        src = os.path.join(cc.tmpdir(), "no-such-file.yaml")
    elif is_stdin:
        src = "-"
    else:
        src = write_file("val-lib-%d.yaml" % os.getpid(), text)
    saved = parsers_mod.stdin
    parsers_mod.stdin = cc.FakeStdin(text or "", False)
    try:
        g = ed.guarded(lambda: [bool(ok) for (_d, ok) in Parsers.get_yaml_multidoc_data(Parsers.get_yaml_editor(), Cap(), src)], 10.0)
    finally:
        parsers_mod.stdin = saved
        if src not in ("-",) and text is not None:
            rm(src)
    if g[0] != "ok":
        return None
    return g[1]


def prep_validate(case):
    f = F()
    texts, bad = case["streams"], case["bad"]
    paths = []
    for i, t in enumerate(texts):
        p = os.path.join(cc.tmpdir(), "val-%d-%d.yaml" % (os.getpid(), i))
        if t is not None:
            write_file(os.path.basename(p), t)
        else:
            rm(p)
        paths.append(p)
    argv = [case["noise"]] if case["noise"] else []
    stdin_at, how = case["stdin_at"], case["how"]
    files, fargs, names, stdin_text, tty, nostdin = [], [], [], "", case["tty"], False
    for i, p in enumerate(paths):
        if stdin_at == i and how == "dash":
            files.append("-")
            fargs.append("dash")
            names.append("STDIN")
            stdin_text, tty = texts[i], False
        elif stdin_at == i and how == "implicit":
            stdin_text, tty = texts[i], False
        else:
            files.append(p)
            fargs.append("path")
            names.append(p)
    if bad == "two-dashes":
        files += ["-", "-"]
        fargs += ["dash", "dash"]
        tty = False
    if bad == "no-input":
        files, fargs, names, tty, how, stdin_at, stdin_text = [], [], [], True, "files", None, ""
    if how != "implicit" and not tty and "-" not in files:
        argv += ["-S"]
        nostdin = True
    r = run_tool(case, "validate", argv + files, stdin_text, tty)
    rm(*paths)
    loads, known = [], []
    for i, t in enumerate(texts):
        if stdin_at == i and how == "implicit":
            continue
        if bad == "no-input":
            break
        loads.append(lib_flags(t, stdin_at == i and how == "dash"))
        kn = case["by_construction"][i]
        known.append([True] if (stdin_at == i and how == "dash" and t == "") else kn)
    if bad == "two-dashes":
        loads += [[True], [True]]
    stdin_flags = lib_flags(stdin_text, True) if how == "implicit" and stdin_at is not None else [True]
    if how == "implicit" and stdin_at is not None:
        known.append([True] if stdin_text == "" else case["by_construction"][stdin_at])
    if any(l is None for l in loads) or stdin_flags is None:
        f.dis("harness-error:validate", "library loader did not answer")
        return f, None, None
    ctx = {"r": r, "argv": argv + [os.path.basename(x) if x != "-" else x for x in files], "names": names + ["STDIN"],
           "loads": loads, "known": known, "stdin_text": stdin_text}
    req = {"op": "C16.validate", "args": {"files": fargs, "nostdin": nostdin, "quiet": case["noise"] == "-q",
                                           "verbose": case["noise"] == "-v"},
           "tty": tty, "loads": loads, "stdin": stdin_flags}
    return f, ctx, [req]


def judge_validate(case, f, ctx, answers):
    mo, r = answers[0], ctx["r"]
    desc = "yaml-validate %s over %s%s" % (" ".join(ctx["argv"]), [(_show(t, 50) if t is not None else "<missing>") for t in case["streams"]],
                                         " stdin=%s(%s)" % (case["stdin_at"], case["how"]) if case["stdin_at"] is not None else "")
    if crashed(f, "validate", r, desc, None):
        return
    f.count("validate:exit=%d" % r["rc"])
    if r["rc"] != mo["exit"]:
        f.viol("validate-exit:impl=%d,model=%d%s" % (r["rc"], mo["exit"], unc(r)),
               "%s exits %d%s; the loader's per-document flags %s define %d" % (desc, r["rc"], unc(r), ctx["loads"], mo["exit"]))
        return
    if mo["errors"] > 0:
        return
    f.nontrivial = ("validate", tuple(ctx["argv"]), tuple(case["streams"]), case["stdin_at"], case["how"])
    # direct, by construction of the inputs: exit 0 exactly when every document of every input is well-formed
    # (inputs after a failing one are still read; the implicit standard input only while all is well)
    known = ctx["known"]
    all_ok = all(all(fl) for fl in known)
    if (r["rc"] == 0) != all_ok:
        f.viol("validate-exit-vs-construction", "%s exits %d; by construction the inputs %s" % (
            desc, r["rc"], "are all well-formed" if all_ok else "contain a malformed document"))
        return
    got = []
    for line in out_lines(r["out"]):
        m = re.fullmatch(r"(.*)/(\d+) is (valid\.|invalid due to:)", line)
        if m:
            got.append([m.group(1), int(m.group(2)), m.group(3) == "valid."])
    want = [[ctx["names"][fi] if fi < len(ctx["names"]) - 1 else ("STDIN" if case["how"] == "implicit" else ctx["names"][fi]), i, ok]
            for fi, i, ok in mo["lines"]]
    if got != want:
        f.viol("validate-lines", "%s reports %s; the loader's flags define %s" % (desc, got, want))


# =========================================================================== yaml-paths

EXPRS = ["=1", "=a", "^a", "$b", "%a", "=~/^[ab]/", ">0", "<2", "!=1", "=2", "=x", "^l", "=true", "=1.5", "=~/./", "=zz"]
BAD_EXPRS = ["a", "=", "~x", "=~/[/"]


ALIAS_OPTS = [None, "-A", "-Y", "-y", "-l", "--anchorsonly", "--allowkeyaliases", "--allowvaluealiases", "--allowaliases"]
KEYMODE_OPTS = [None, "-k", "-K", "-K", "--keynames", "--onlykeynames"]
LONG_OPTS = {"--anchorsonly": "-A", "--allowkeyaliases": "-Y", "--allowvaluealiases": "-y", "--allowaliases": "-l",
             "--keynames": "-k", "--onlykeynames": "-K"}
# option -> the NAME of the IncludeAliases member it stands for (yaml-paths --help), and what each member means
ALIAS_MEMBER = {"-A": "ANCHORS_ONLY", "-Y": "INCLUDE_KEY_ALIASES", "-y": "INCLUDE_VALUE_ALIASES", "-l": "INCLUDE_ALL_ALIASES",
                None: "INCLUDE_KEY_ALIASES"}
ALIAS_MEANING = {"ANCHORS_ONLY": (False, False), "INCLUDE_KEY_ALIASES": (True, False), "INCLUDE_VALUE_ALIASES": (False, True),
                 "INCLUDE_ALL_ALIASES": (True, True)}
AK_NAMES = ["shared_name", "name2", "ab", "other"]
AK_VALUES = ["shared_value", "first", "second", "1", "a", "ab"]
AK_EXPRS = ["=shared_name", "^shared", "=name2", "=~/name/", "=ab", "^a", "=shared_value", "$value", "=first", "=~/./", "=1", "%e"]


def gen_alias_text(rng, ident):
    """YAML text of a document that reuses an anchored KEY through an alias (`&kn name: v` ... `*kn : v`) in one to three
    other mappings (nested ones and list elements included), next to anchored VALUES reused through aliases under keys and
    in lists, and ordinary keys / values of the same names."""
    lines = ["---", "id: doc%d" % ident]
    keys, vals = [], []
    cnt = [0]

    def value():
        r = rng.random()
        if vals and r < 0.3:
            return "*" + rng.choice(vals)
        v = rng.choice(AK_VALUES)
        if r > 0.7 and len(vals) < 3:
            vals.append("v%d" % len(vals))
            return "&%s %s" % (vals[-1], v)
        return v

    def entry(ind, used):
        r = rng.random()
        free = [k for k in keys if k[1] not in used]
        if free and r < 0.5:
            k = rng.choice(free)
            used.add(k[1])
            return "%s*%s : %s" % (ind, k[0], value())
        names = [n for n in AK_NAMES if n not in used]
        if not names:
            cnt[0] += 1
            names = ["x%d" % cnt[0]]
        n = rng.choice(names)
        used.add(n)
        if r > 0.72 and len(keys) < 2 and n not in [k[1] for k in keys]:
            keys.append(("k%d" % len(keys), n))
            return "%s&%s %s: %s" % (ind, keys[-1][0], n, value())
        return "%s%s: %s" % (ind, n, value())
    lines.append("anchored:")
    keys.append(("k0", rng.choice(AK_NAMES[:3])))
    lines.append("  &k0 %s: %s" % (keys[0][1], value()))
    used = {keys[0][1]}
    for _ in range(rng.randint(0, 2)):
        lines.append(entry("  ", used))
    for i in range(rng.randint(1, 3)):
        lines.append("reuse%d:" % i)
        used = set()
        for _ in range(rng.randint(1, 3)):
            lines.append(entry("  ", used))
        if rng.random() < 0.3:
            lines.append("  deep:")
            used = set()
            for _ in range(rng.randint(1, 2)):
                lines.append(entry("    ", used))
    if rng.random() < 0.6:
        lines.append("list:")
        for _ in range(rng.randint(1, 3)):
            if rng.random() < 0.4:
                used = set()
                lines.append("  - " + entry("", used))
            else:
                lines.append("  - " + value())
    return "\n".join(lines) + "\n"


def gen_paths_alias(rng):
    """yaml-paths over documents with key aliases: every alias option (short and long form, and none) x key-name mode."""
    nfiles = rng.choice([1, 1, 2])
    streams = []
    for i in range(nfiles):
        streams.append({"yaml": "".join(gen_alias_text(rng, 10 * i + j) for j in range(rng.choice([1, 1, 2])))})
    ns = rng.choice([1, 1, 2])
    search = [rng.choice(AK_EXPRS) for _ in range(ns)]
    exc = [rng.choice(AK_EXPRS)] if rng.random() < 0.15 else []
    flags = []
    km = rng.choice(KEYMODE_OPTS)
    if km:
        flags.append(km)
    ao = rng.choice(ALIAS_OPTS)
    if ao:
        flags.append(ao)
    if rng.random() < 0.2:
        flags.append("-a")
    if rng.random() < 0.15:
        flags.append("-L")
    if rng.random() < 0.15:
        flags += ["-t", rng.choice(["fslash", "dot"])]
    if rng.random() < 0.1:
        flags.append("-m")
    y = rng.random()
    stdin_at, how = None, "files"
    if y < 0.15:
        stdin_at, how = rng.randrange(nfiles), "dash"
    elif y < 0.25:
        stdin_at, how = nfiles - 1, "implicit"
    return {"tool": "paths", "streams": streams, "search": search, "exc": exc, "flags": flags, "stdin_at": stdin_at, "how": how,
            "keys": {"priv": "unset", "pub": "unset"}, "bad": None, "tty": rng.random() < 0.5, "break_at": None, "aliasdoc": True}


def gen_paths(rng):
    nfiles = rng.choice([1, 1, 2])
    streams = []
    for _ in range(nfiles):
        n = rng.choice([1, 1, 2, 3])
        docs = [ed.gen_doc(rng, depth=rng.choice([2, 3])) for _ in range(n)]
        streams.append(docs)
    ns = rng.choice([1, 1, 2, 3])
    search = [rng.choice(EXPRS) for _ in range(ns)]
    if rng.random() < 0.1:
        search[rng.randrange(ns)] = rng.choice(BAD_EXPRS)
    exc = []
    if rng.random() < 0.3:
        exc = [rng.choice(EXPRS) for _ in range(rng.choice([1, 2]))]
        if rng.random() < 0.15:
            exc[0] = rng.choice(BAD_EXPRS)
    flags = []
    x = rng.random()
    if x < 0.2:
        flags.append("-k")
    elif x < 0.35:
        flags.append("-K")
    if rng.random() < 0.25:
        flags.append("-L")
    if rng.random() < 0.15:
        flags += ["-t", rng.choice(["fslash", "dot"])]
    if rng.random() < 0.1:
        flags.append("-m")
    if rng.random() < 0.1:
        flags.append(rng.choice(["-a", "-A", "-Y", "-y", "-l"]))
    y = rng.random()
    stdin_at, how = None, "files"
    if y < 0.25:
        stdin_at, how = rng.randrange(nfiles), "dash"
    elif y < 0.45:
        stdin_at, how = nfiles - 1, "implicit"
    case = {"tool": "paths", "streams": streams, "search": search, "exc": exc, "flags": flags, "stdin_at": stdin_at, "how": how,
            "keys": rand_keys(rng, 0.04), "bad": None, "tty": rng.random() < 0.5, "break_at": None}
    z = rng.random()
    if z < 0.03:
        case["bad"] = "no-input"
    elif z < 0.05:
        case["bad"] = "two-dashes"
    elif z < 0.12:
        case["break_at"] = rng.randrange(nfiles)
    return case


def lib_paths(data, expr, flags):
    """search_for_paths over one loaded document for one expression -> [path text] (None: invalid expression)."""
    from yamlpath.commands import yaml_paths
    from yamlpath.common import Anchors
    from yamlpath.enums import PathSeparators
    from yamlpath.eyaml import EYAMLProcessor
    log = core.quiet_logger()
    term = yaml_paths.get_search_term(log, expr)
    if term is None:
        return None
    pathsep = PathSeparators.from_str(flags[flags.index("-t") + 1]) if "-t" in flags else PathSeparators.DOT
    flags = [LONG_OPTS.get(x, x) for x in flags]
    search_values, search_keys = True, False
    if "-K" in flags:
        search_values, search_keys = False, True
    elif "-k" in flags:
        search_keys = True
    # the alias option names a member of IncludeAliases (argparse: the last one given wins); the member is looked up BY NAME
    # and its meaning taken from the finite table ALIAS_MEANING, never from the value or identity of the enum member
    given = [x for x in flags if x in ("-A", "-Y", "-y", "-l")]
    from yamlpath.enums import IncludeAliases
    name = ALIAS_MEMBER[given[-1] if given else None]
    IncludeAliases[name]            # KeyError: the member is gone (enum_table_check reports the table itself)
    ika, iva = ALIAS_MEANING[name]
    proc = EYAMLProcessor(log, None, binary="eyaml")
    proc.data = data
    all_anchors = {}
    Anchors.scan_for_anchors(data, all_anchors)
    return [str(p) for p in yaml_paths.search_for_paths(
        log, proc, data, term, pathsep, search_values=search_values, search_keys=search_keys, search_anchors="-a" in flags,
        include_key_aliases=ika, include_value_aliases=iva, decrypt_eyaml=False, expand_children="-m" in flags,
        all_anchors=all_anchors)]


def prep_paths(case):
    f = F()
    bad = case["bad"]
    texts = []
    try:
        for i, docs in enumerate(case["streams"]):
            if isinstance(docs, dict):
                t = docs["yaml"]                   # documents given as YAML text (key aliases exist in text only)
            else:
                t = cc.dump_yaml(docs)
                if len(docs) == 1 and not t.startswith("---"):
                    t = "---\n" + t
            if case["break_at"] == i:
                t += "---\n" + BROKEN_TEXT
            texts.append(t)
    except Exception:  # noqa
        f.oom = True
        return f, None, None
    paths = [write_file("paths-%d-%d.yaml" % (os.getpid(), i), t) for i, t in enumerate(texts)]
    argv = list(case["flags"]) + key_files(case["keys"])
    for e in case["search"]:
        argv += ["-s", e]
    for e in case["exc"]:
        argv += ["-c", e]
    stdin_at, how = case["stdin_at"], case["how"]
    files, fargs, names, stdin_text, tty, nostdin = [], [], [], "", case["tty"], False
    for i, p in enumerate(paths):
        if stdin_at == i and how == "dash":
            files.append("-")
            fargs.append("dash")
            names.append("STDIN")
            stdin_text, tty = texts[i], False
        elif stdin_at == i and how == "implicit":
            stdin_text, tty = texts[i], False
        else:
            files.append(p)
            fargs.append("path")
            names.append(p)
    if bad == "two-dashes":
        files += ["-", "-"]
        fargs += ["dash", "dash"]
        tty = False
    if bad == "no-input":
        files, fargs, names, tty, how, stdin_at, stdin_text = [], [], [], True, "files", None, ""
    if how != "implicit" and not tty and "-" not in files:
        argv += ["-S"]
        nostdin = True
    r = run_tool(case, "paths", argv + files, stdin_text, tty)
    rm(*paths)
    # the library's answers
    valid, find, lib_crash = {}, [], None

    def stream_docs(text):
        """documents as the loader yields them: [data…] + [None] when the stream breaks"""
        import warnings
        from yamlpath.common import Parsers
        out = []
        try:
            with warnings.catch_warnings():
                warnings.filterwarnings("error")
                for d in Parsers.get_yaml_editor().load_all(text):
                    out.append(("ok", d))
        except Exception:  # noqa
            out.append(("bad", None))
        return out
    loads, stdin_l = [], []
    values, want_values = {}, []
    try:
        for i, t in enumerate(texts):
            sd = stream_docs(t)
            js = []
            for kind, d in sd:
                if kind == "bad":
                    js.append(None)
                    continue
                dj = codec.node_to_json(d, anchors=True)
                js.append(dj)
                found = {}
                for e in case["search"] + case["exc"]:
                    g = ed.guarded(lambda: lib_paths(d, e, case["flags"]), 10.0)
                    if g[0] != "ok":
                        lib_crash = g[0]
                        continue
                    valid[e] = g[1] is not None
                    if g[1] is not None:
                        find.append([dj, e, g[1]])
                        found[e] = g[1]
                if "-L" in case["flags"]:
                    # values only of what the tool prints (search results that no --except expression removes), in its order:
                    # rendering a container as JSON changes the document (a !!set becomes a mapping), so evaluating a path the
                    # tool never prints would change what a later path resolves to
                    excepted = set(x for e in case["exc"] for x in found.get(e, []))
                    for e in case["search"]:
                        want_values.append((d, dj, [x for x in found.get(e, []) if x not in excepted]))
            if stdin_at == i and how == "implicit":
                stdin_l = js
            elif bad != "no-input":
                loads.append(js)
        for d, dj, ptxts in want_values:           # jsonify_yaml_data changes the document: after all searches
            for ptxt in ptxts:
                values.setdefault((json.dumps(dj, sort_keys=True), ptxt), _value_of(d, ptxt))
    except codec.OutOfModel:
        f.oom = True
        return f, None, None
    if bad == "two-dashes":
        loads += [[], []]
    ctx = {"r": r, "argv": argv + [os.path.basename(x) if x != "-" else x for x in files], "names": names, "texts": texts,
           "lib_crash": lib_crash, "values": values, "loads": loads, "stdin_l": stdin_l}
    req = {"op": "C16.paths", "args": {"search": case["search"], "exc": case["exc"], "files": fargs, "nostdin": nostdin,
                                        "priv": case["keys"]["priv"], "pub": case["keys"]["pub"]},
           "tty": tty, "loads": loads, "stdin": stdin_l, "valid": [[e, v] for e, v in valid.items()], "find": find}
    return f, ctx, [req]


def _value_of(data, ptxt):
    from ruamel.yaml.comments import CommentedSet
    from yamlpath import Processor
    from yamlpath.common import Parsers
    try:
        for nc in Processor(core.quiet_logger(), data).get_nodes(ptxt, mustexist=True):
            node = nc.node
            if isinstance(node, (dict, list, CommentedSet)):
                return ("json", json.loads(json.dumps(Parsers.jsonify_yaml_data(node))))
            return ("text", str(node).replace("\n", r"\n"))
    except Exception as e:  # noqa
        return ("error", type(e).__name__)
    return ("none", None)


def judge_paths(case, f, ctx, answers):
    mo, r = answers[0], ctx["r"]
    desc = "yaml-paths %s over %s%s" % (" ".join(_q(a) for a in ctx["argv"]), [_show(t, 90) for t in ctx["texts"]],
                                      " stdin=%s(%s)" % (case["stdin_at"], case["how"]) if case["stdin_at"] is not None else "")
    if crashed(f, "paths", r, desc, ctx["lib_crash"]):
        return
    if r.get("uncaught", "").startswith("ypath@processor.py") and "-L" in case["flags"]:
        f.count("paths:printed-path-does-not-resolve-under--values(C07)")
        return
    if ctx["lib_crash"]:
        f.count("paths:library-crash-not-relayed")
        return
    f.count("paths:exit=%d" % r["rc"])
    if r["rc"] != mo["exit"]:
        f.viol("paths-exit:impl=%d,model=%d%s" % (r["rc"], mo["exit"], unc(r)),
               "%s exits %d%s; loads, expression validity and the loop of main() define %d" % (desc, r["rc"], unc(r), mo["exit"]))
        return
    if mo["errors"] > 0:
        return
    f.nontrivial = ("paths", tuple(ctx["argv"]), tuple(ctx["texts"]), case["stdin_at"], case["how"])
    multi = len(case["search"]) > 1
    want = []
    nfiles_pos = len(ctx["loads"])
    for fi, di, expr, ptxt in mo["lines"]:
        name = ctx["names"][fi] if fi < nfiles_pos and fi < len(ctx["names"]) else "STDIN"
        want.append([name, di, expr if multi else None, ptxt])
    got, bad_lines = [], []
    exprs = sorted(set(case["search"]), key=len, reverse=True)
    with_values = "-L" in case["flags"]
    for line in out_lines(r["out"]):
        m = None
        for name in sorted(set(ctx["names"] + ["STDIN"]), key=len, reverse=True):
            if line.startswith(name + "/"):
                m = name
                break
        if m is None:
            bad_lines.append(line)
            continue
        rest = line[len(m) + 1:]
        mm = re.match(r"(\d+)", rest)
        if not mm:
            bad_lines.append(line)
            continue
        di = int(mm.group(1))
        rest = rest[mm.end():]
        expr = None
        if multi:
            for e in exprs:
                if rest.startswith("[%s]" % e):
                    expr = e
                    rest = rest[len(e) + 2:]
                    break
        if not rest.startswith(": "):
            bad_lines.append(line)
            continue
        got.append([m, di, expr, rest[2:]])
    if bad_lines:
        f.viol("paths-unparsable-line", "%s prints %r" % (desc, bad_lines[:3]))
        return
    if with_values:
        # "<path>: <value>": check the path part against the model, the value against the library's node
        ok = len(got) == len(want)
        if ok:
            for g, w in zip(got, want):
                if g[:3] != w[:3] or not g[3].startswith(w[3] + ": "):
                    ok = False
                    break
        if not ok:
            f.viol(_pl_sig(case, [x[:3] + [x[3].split(": ")[0]] for x in got], want),
                   "%s prints %s; the search results are %s" % (desc, got[:6], want[:6]))
            return
        for g, w, ml in zip(got, want, mo["lines"]):
            fi, di = ml[0], ml[1]
            stream = ctx["loads"][fi] if fi < nfiles_pos else ctx["stdin_l"]
            val = ctx["values"].get((json.dumps(stream[di], sort_keys=True), w[3]))
            shown = g[3][len(w[3]) + 2:]
            if val is None or val[0] in ("error", "none"):
                f.count("paths:value-not-comparable")
                continue
            if val[0] == "text" and shown != val[1] or val[0] == "json" and _try_json(shown) != val[1]:
                f.viol("paths-value", "%s prints value %r for %s; the library's node there is %r" % (desc, shown, w[3], val[1]))
                return
    elif got != want:
        f.viol(_pl_sig(case, got, want), "%s prints %s; the search results (per document, duplicates dropped, exceptions removed) are %s" % (
            desc, got[:8], want[:8]))


def _pl_sig(case, got, want):
    """Documents with key aliases: say which way the printed results are off and under which alias option."""
    if not case.get("aliasdoc"):
        return "paths-lines"
    g, w = set(json.dumps(x) for x in got), set(json.dumps(x) for x in want)
    how = "extra-results" if g - w and not w - g else "missing-results" if w - g and not g - w else "other-results"
    fl = [LONG_OPTS.get(x, x) for x in case["flags"]]
    given = [x for x in fl if x in ("-A", "-Y", "-y", "-l")]
    return "paths-lines:key-alias-document:%s:%s" % (ALIAS_MEMBER[given[-1] if given else None], how)


def _try_json(t):
    try:
        return json.loads(t)
    except ValueError:
        return ("unparsable", t)


# =========================================================================== dates and timestamps rendered as JSON (real tools only)
#
# Dates / timestamps exist only in documents loaded from YAML TEXT (the canonical documents of the other runs and the Lean
# model have no such scalars), so this part judges the real tools directly.  A generated document (maps, sequences, flow
# collections) holds timestamps with a UTC offset (+hh:mm / -hh:mm, with and without fraction, T / t / space separator,
# anchored and aliased), naive timestamps, dates, words and ints.  Rendered as JSON - yaml-get of a container, yaml-merge
# -D json (to stdout and to a file), yaml-set on a JSON-style document (file named *.json and '-') - every such scalar must
# come out as the library's answer for that node: its ISO 8601 text with the offset it was written with (computed here from
# the literal by Python's datetime alone, no yamlpath code); yaml-get of the timestamp itself prints the same text.
# Not generated: `Z` and hour-only offsets (`+01`) - the pinned tree prints both without any offset, as a scalar and
# inside containers alike (Nodes.get_timestamp_with_tzinfo only understands hh:mm); see notes/C16.md.

DJ_OFFSETS = ["-05:00", "+02:00", "+05:30", "-08:00", " +01:00", "-00:30", "+13:45"]


def dj_ts(rng, offset):
    import datetime as dtm
    y, mo, d = rng.choice([1999, 2001, 2019, 2024]), rng.randint(1, 12), rng.randint(1, 28)
    h, mi, sec = rng.randint(0, 23), rng.randint(0, 59), rng.randint(0, 59)
    frac = rng.choice(["", "", ".5", ".10", ".123456"])
    lit = "%04d-%02d-%02d%s%02d:%02d:%02d%s" % (y, mo, d, rng.choice(["T", "t", " "]), h, mi, sec, frac)
    val = dtm.datetime(y, mo, d, h, mi, sec, int(frac[1:].ljust(6, "0")) if frac else 0)
    if offset:
        off = rng.choice(DJ_OFFSETS)
        lit += off
        hh, mm = off.strip()[1:].split(":")
        minutes = (int(hh) * 60 + int(mm)) * (-1 if off.strip()[0] == "-" else 1)
        val = val.replace(tzinfo=dtm.timezone(dtm.timedelta(minutes=minutes)))
    return lit, val.isoformat()


def dj_leaf(rng, st):
    """-> (YAML text, expected JSON value, kind)"""
    r = rng.random()
    if st["anchors"] and r < 0.12:
        name, exp, kind = rng.choice(st["anchors"])
        return "*" + name, exp, kind
    if r < 0.45:
        lit, exp = dj_ts(rng, True)
        kind = "timestamp-with-offset"
    elif r < 0.55:
        lit, exp = dj_ts(rng, False)
        kind = "naive-timestamp"
    elif r < 0.7:
        lit = "%04d-%02d-%02d" % (rng.choice([1999, 2001, 2019]), rng.randint(1, 12), rng.randint(1, 28))
        exp, kind = lit, "date"
    elif r < 0.85:
        lit = rng.choice(["launch", "widget", "a", "x1"])
        exp, kind = lit, "word"
    else:
        exp, kind = rng.randint(0, 300), "int"
        lit = str(exp)
    if kind in ("timestamp-with-offset", "date", "naive-timestamp") and rng.random() < 0.15:
        name = "t%d" % len(st["anchors"])
        st["anchors"].append((name, exp, kind))
        lit = "&%s %s" % (name, lit)
    return lit, exp, kind


def dj_node(rng, depth, st, addr):
    """-> (block lines, flow text, expected data); records containers and scalars with their addresses."""
    r = rng.random()
    if depth <= 0 or r < 0.15:
        lit, exp, kind = dj_leaf(rng, st)
        st["scalars"].append((list(addr), exp, kind))
        return None, lit, exp
    if r < 0.75:
        lines, flow, exp = [], [], {}
        for _ in range(rng.randint(2, 4)):
            st["n"] += 1
            k = "k%d" % st["n"]
            cl, cf, ce = dj_node(rng, depth - 1 if rng.random() < 0.6 else 0, st, addr + [k])
            exp[k] = ce
            flow.append("%s: %s" % (k, cf))
            if cl is None or rng.random() < 0.2:
                lines.append("%s: %s" % (k, cf))
            else:
                lines.append("%s:" % k)
                lines += ["  " + x for x in cl]
        st["containers"].append((list(addr), exp))
        return lines, "{" + ", ".join(flow) + "}", exp
    lines, flow, exp = [], [], []
    for i in range(rng.randint(1, 3)):
        _cl, cf, ce = dj_node(rng, depth - 1 if rng.random() < 0.3 else 0, st, addr + [i])
        exp.append(ce)
        flow.append(cf)
        lines.append("- " + cf)
    st["containers"].append((list(addr), exp))
    return lines, "[" + ", ".join(flow) + "]", exp


def dj_path(addr):
    out = ""
    for a in addr:
        out += "[%d]" % a if isinstance(a, int) else ("." if out else "") + a
    return out or "/"


def gen_dates(rng):
    while True:
        st = {"anchors": [], "scalars": [], "containers": [], "n": 0}
        lines, flow, exp = [], [], {}
        for _ in range(rng.randint(2, 4)):
            st["n"] += 1
            k = "k%d" % st["n"]
            cl, cf, ce = dj_node(rng, 2, st, [k])
            exp[k] = ce
            flow.append("%s: %s" % (k, cf))
            if cl is None:
                lines.append("%s: %s" % (k, cf))
            else:
                lines.append("%s:" % k)
                lines += ["  " + x for x in cl]
        st["containers"].append(([], exp))
        if any(k == "timestamp-with-offset" for _a, _e, k in st["scalars"]):
            break
    mode = rng.choice(["get", "get", "merge", "set"])
    case = {"tool": "dates", "mode": mode, "yaml": "---\n" + "\n".join(lines) + "\n", "flow": "{" + ", ".join(flow) + "}\n",
            "expected": exp, "delivery": rng.choice(["file", "file", "dash"])}
    if mode == "get":
        holders = [c for c in st["containers"] if "T" in json.dumps(c[1])]
        c = rng.choice(holders or st["containers"])
        case["query"], case["qexp"] = dj_path(c[0]), c[1]
        tss = [x for x in st["scalars"] if x[2] in ("timestamp-with-offset", "date", "naive-timestamp")]
        x = rng.choice(tss)
        case["squery"], case["sexp"], case["skind"] = dj_path(x[0]), x[1], x[2]
    elif mode == "merge":
        case["to_file"] = rng.random() < 0.3
        case["alone"] = rng.random() < 0.25
    else:
        plain = [x for x in st["scalars"] if x[2] in ("word", "int")]
        if not plain:
            case["mode"], c = "get", st["containers"][-1]
            case["query"], case["qexp"] = "/", c[1]
            x = [x for x in st["scalars"] if x[2] == "timestamp-with-offset"][0]
            case["squery"], case["sexp"], case["skind"] = dj_path(x[0]), x[1], x[2]
        else:
            x = rng.choice(plain)
            case["target"], case["change"] = x[0], dj_path(x[0])
    return case


def dj_kind(v):
    if isinstance(v, str) and re.match(r"^\d{4}-\d\d-\d\d$", v):
        return "date"
    if isinstance(v, str) and re.match(r"^\d{4}-\d\d-\d\dT\d\d:\d\d:\d\d(\.\d+)?[-+]\d\d:\d\d$", v):
        return "timestamp-with-offset"
    if isinstance(v, str) and re.match(r"^\d{4}-\d\d-\d\dT\d\d:\d\d:\d\d(\.\d+)?$", v):
        return "naive-timestamp"
    return "other"


def dj_diff(want, got, where=""):
    """First leaf on which the JSON data differ -> (kind of the expected leaf, text) | None"""
    if isinstance(want, dict) and isinstance(got, dict):
        if set(want) != set(got):
            return "keys", "%s: keys %s, printed %s" % (where or "/", sorted(want), sorted(got))
        for k in want:
            d = dj_diff(want[k], got[k], (where + "." if where else "") + str(k))
            if d:
                return d
        return None
    if isinstance(want, list) and isinstance(got, list):
        if len(want) != len(got):
            return "length", "%s: %d items, printed %d" % (where or "/", len(want), len(got))
        for i, (a, b) in enumerate(zip(want, got)):
            d = dj_diff(a, b, "%s[%d]" % (where, i))
            if d:
                return d
        return None
    if want == got and type(want) is type(got):
        return None
    return dj_kind(want), "%s is %s, rendered as %s" % (where or "/", json.dumps(want), json.dumps(got))


def prep_dates(case):
    """Runs and judges in one go (no Lean model behind this part)."""
    f = F()
    mode, exp = case["mode"], case["expected"]
    pid = os.getpid()

    def judged_json(sig, desc, text, want):
        try:
            got = json.loads(text)
        except ValueError:
            f.viol("dates-json:%s:output-is-not-json" % sig, "%s prints %r" % (desc, text[:200]))
            return
        d = dj_diff(want, got)
        if d:
            f.viol("dates-json:%s:%s-differs" % (sig, d[0]), "%s: %s (the ISO 8601 text of the node as written, offset included, is the "
                   "library's answer for it: yaml-get of the scalar alone prints it); output %s" % (desc, d[1], text[:400]))

    def ran(r, desc, sig):
        if r.get("timeout"):
            f.viol("timeout:dates", desc + " did not finish")
            return False
        if "crash" in r:
            f.viol("dates-json:%s:uncaught-%s@%s" % (sig, r["crash"], r.get("site")), "%s lets %s escape" % (desc, r["crash"]))
            return False
        if r["rc"] != 0:
            f.viol("dates-json:%s:exit=%d" % (sig, r["rc"]), "%s exits %d: %s" % (desc, r["rc"], r.get("err", "")[-200:]))
            return False
        return True
    f.count("dates:" + mode)
    if mode == "get":
        path = write_file("dates-%d.yaml" % pid, case["yaml"])
        for q, want, sig in ((case["query"], case["qexp"], "get-container"), (case["squery"], case["sexp"], "get-scalar")):
            if case["delivery"] == "dash":
                r = run_tool(case, "get", ["-p", q, "-"], case["yaml"], False)
            else:
                r = run_tool(case, "get", ["-p", q, path], "", True)
            desc = "yaml-get -p %s on %s" % (q, _show(case["yaml"], 400))
            if not ran(r, desc, sig):
                continue
            lines = out_lines(r["out"])
            if sig == "get-container":
                if len(lines) != 1:
                    f.viol("dates-json:get-container:lines", "%s prints %d lines" % (desc, len(lines)))
                else:
                    judged_json(sig, desc, lines[0], want)
            elif lines != [str(want)]:
                f.viol("dates-json:get-scalar:%s-differs" % case["skind"], "%s prints %r, the node is %s" % (desc, lines[:3], want))
        rm(path)
    elif mode == "merge":
        path = write_file("dates-%d.yaml" % pid, case["yaml"])
        rhs = write_file("dates-rhs-%d.yaml" % pid, "---\nzz_extra: 1\n")
        outp = os.path.join(cc.tmpdir(), "dates-out-%d.json" % pid)
        rm(outp)
        want = dict(exp) if case["alone"] else dict(exp, zz_extra=1)
        argv = ["-S", "-D", "json"] + (["-o", outp] if case["to_file"] else [])
        if case["delivery"] == "dash" and not case["alone"]:
            argv, stdin_text = [a for a in argv if a != "-S"] + [path, "-"], "---\nzz_extra: 1\n"
        else:
            argv, stdin_text = argv + [path] + ([] if case["alone"] else [rhs]), ""
        r = run_tool(case, "merge", argv, stdin_text, not stdin_text)
        desc = "yaml-merge %s with LHS %s" % (" ".join(os.path.basename(a) if a.startswith("/") else a for a in argv), _show(case["yaml"], 400))
        if ran(r, desc, "merge"):
            text = read_file(outp) if case["to_file"] else r["out"]
            judged_json("merge", desc, text or "", want)
        rm(path, rhs, outp)
    else:
        import copy
        want = copy.deepcopy(exp)
        node = want
        for a in case["target"][:-1]:
            node = node[a]
        node[case["target"][-1]] = 7
        path = write_file("dates-%d.json" % pid, case["flow"])
        if case["delivery"] == "dash":
            r = run_tool(case, "set", ["-g", case["change"], "-a", "7", "-"], case["flow"], False)
        else:
            r = run_tool(case, "set", ["-g", case["change"], "-a", "7", path], "", True)
        desc = "yaml-set -g %s -a 7 on the JSON-style document %s [%s]" % (case["change"], _show(case["flow"], 400), case["delivery"])
        if ran(r, desc, "set"):
            text = r["out"] if case["delivery"] == "dash" else read_file(path)
            judged_json("set", desc, text or "", want)
        rm(path, path + ".bak")
    f.nontrivial = ("dates", mode, case["yaml"], case.get("query"), case.get("change"), case["delivery"])
    return f, None, None


def judge_dates(case, f, ctx, answers):
    return


# =========================================================================== hashes that use YAML merge keys, as JSON
# (real tools only.)  A mapping that takes members from anchored mappings through `<<: *anchor` / `<<: [*a, *b]` IS, for every
# reader of the document, the mapping with those members (own keys win, earlier merge sources win over later ones).  The
# anchored sources hold what JSON has no type for - dates, timestamps, `!!set`, tagged scalars - next to words and numbers.
# yaml-get of such a mapping (or of a container holding it) prints ONE JSON line with all its members and exits 0;
# yaml-merge -D json and yaml-set on the JSON-style form write the same data.  Expected data come from the construction.

def mk_leaf(rng, st):
    r = rng.random()
    if r < 0.12:
        members = rng.sample(["a", "b", "c", "d1"], rng.randint(1, 3))
        return "!!set {%s}" % ", ".join(members), {m: None for m in members}, "set"
    if r < 0.24:
        w = rng.choice(["launch", "widget", "x1"])
        return "!%s %s" % (rng.choice(["mytag", "secret", "t"]), w), w, "tagged"
    if r < 0.30:
        b = rng.random() < 0.5
        return ("true" if b else "false"), b, "bool"
    return dj_leaf(rng, st)


def gen_mergekeys(rng):
    st = {"anchors": [], "scalars": [], "containers": [], "n": 0}
    block, flow, exp = [], [], {}
    bases = []
    nb = rng.randint(1, 3)
    pool = ["when", "ts", "tag", "members", "n", "w", "at", "day"]
    for b in range(nb):
        name = "b%d" % b
        keys = rng.sample(pool, rng.randint(1, 4))
        e, fl = {}, []
        block.append("base%d: &%s" % (b, name))
        for k in keys:
            lit, v, kind = mk_leaf(rng, st)
            e[k] = v
            block.append("  %s: %s" % (k, lit))
            fl.append("%s: %s" % (k, lit))
        if not any(dj_kind(v) != "other" or isinstance(v, dict) for v in e.values()) or rng.random() < 0.3:
            lit, v = dj_ts(rng, True) if rng.random() < 0.5 else ("2001-12-14", "2001-12-14")
            e["stamp%d" % b] = v
            block.append("  stamp%d: %s" % (b, lit))
            fl.append("stamp%d: %s" % (b, lit))
        exp["base%d" % b] = e
        flow.append("base%d: &%s {%s}" % (b, name, ", ".join(fl)))
        bases.append((name, e))
    users = []

    def user(indent):
        """-> (block lines, flow text, expected)"""
        srcs = rng.sample(bases, rng.randint(1, min(2, len(bases))))
        mk = "*" + srcs[0][0] if len(srcs) == 1 and rng.random() < 0.8 else "[%s]" % ", ".join("*" + n for n, _ in srcs)
        e, own, fl = {}, [], []
        for _ in range(rng.randint(0, 2)):
            st["n"] += 1
            k = rng.choice(pool) if rng.random() < 0.35 else "own%d" % st["n"]
            if k in e:
                continue
            lit, v, kind = mk_leaf(rng, st)
            e[k] = v
            own.append("%s: %s" % (k, lit))
            fl.append("%s: %s" % (k, lit))
        for _n2, src in srcs:
            for k, v in src.items():
                e.setdefault(k, v)
        pos = rng.randint(0, len(own))
        lines = own[:pos] + ["<<: " + mk] + own[pos:]
        fl = fl[:pos] + ["<<: " + mk] + fl[pos:]
        return [indent + l for l in lines], "{" + ", ".join(fl) + "}", e
    for u in range(rng.randint(1, 3)):
        name = "use%d" % u
        if rng.random() < 0.7:
            lines, fl, e = user("  ")
            block.append("%s:" % name)
            block += lines
            flow.append("%s: %s" % (name, fl))
            exp[name] = e
            users.append(([name], e))
        else:
            items, fls, es = [], [], []
            for i in range(rng.randint(1, 2)):
                lines, fl, e = user("    ")
                lines[0] = "  - " + lines[0][4:]
                items += lines
                fls.append(fl)
                es.append(e)
                users.append(([name, i], e))
            if rng.random() < 0.5:
                items.append("  - plain")
                fls.append("plain")
                es.append("plain")
            block.append("%s:" % name)
            block += items
            flow.append("%s: [%s]" % (name, ", ".join(fls)))
            exp[name] = es
            users.append(([name], es))
    block.append("last: 1")
    flow.append("last: 1")
    exp["last"] = 1
    mode = rng.choice(["get", "get", "get", "merge", "set"])
    case = {"tool": "mergekeys", "mode": mode, "yaml": "---\n" + "\n".join(block) + "\n", "flow": "{" + ", ".join(flow) + "}\n",
            "expected": exp, "delivery": rng.choice(["file", "file", "dash"])}
    if mode == "get":
        addr, e = rng.choice(users + [([], exp)])
        case["query"], case["qexp"] = dj_path(addr), e
    elif mode == "merge":
        case["to_file"] = rng.random() < 0.3
        case["alone"] = rng.random() < 0.4
    return case


def prep_mergekeys(case):
    f = F()
    mode, exp, pid = case["mode"], case["expected"], os.getpid()

    def judged_json(sig, desc, text, want):
        try:
            got = json.loads(text)
        except ValueError:
            f.viol("mergekeys-json:%s:output-is-not-json" % sig, "%s prints %r" % (desc, text[:200]))
            return
        d = dj_diff(want, got)
        if d:
            f.viol("mergekeys-json:%s:%s-differs" % (sig, d[0]), "%s: %s (members merged in through `<<:` are members of the mapping); "
                   "output %s" % (desc, d[1], text[:400]))

    def ran(r, desc, sig):
        if r.get("timeout"):
            f.viol("timeout:mergekeys", desc + " did not finish")
            return False
        if "crash" in r:
            f.viol("mergekeys-json:%s:uncaught-%s@%s" % (sig, r["crash"], r.get("site")), "%s lets %s escape (%s)" % (
                desc, r["crash"], r.get("msg", "")))
            return False
        if r["rc"] != 0:
            f.viol("mergekeys-json:%s:exit=%d" % (sig, r["rc"]), "%s exits %d although the node exists: %s" % (
                desc, r["rc"], r.get("err", "")[-200:]))
            return False
        return True
    f.count("mergekeys:" + mode)
    if mode == "get":
        path = write_file("mk-%d.yaml" % pid, case["yaml"])
        q = case["query"]
        if case["delivery"] == "dash":
            r = run_tool(case, "get", ["-p", q, "-"], case["yaml"], False)
        else:
            r = run_tool(case, "get", ["-p", q, path], "", True)
        desc = "yaml-get -p %s on %s [%s]" % (q, _show(case["yaml"], 500), case["delivery"])
        if ran(r, desc, "get"):
            lines = out_lines(r["out"])
            if len(lines) != 1:
                f.viol("mergekeys-json:get:lines", "%s prints %d lines for one matched node" % (desc, len(lines)))
            else:
                judged_json("get", desc, lines[0], case["qexp"])
        rm(path)
    elif mode == "merge":
        path = write_file("mk-%d.yaml" % pid, case["yaml"])
        rhs = write_file("mk-rhs-%d.yaml" % pid, "---\nzz_extra: 1\n")
        outp = os.path.join(cc.tmpdir(), "mk-out-%d.json" % pid)
        rm(outp)
        want = dict(exp) if case["alone"] else dict(exp, zz_extra=1)
        argv = ["-S", "-D", "json"] + (["-o", outp] if case["to_file"] else [])
        if case["delivery"] == "dash" and not case["alone"]:
            argv, stdin_text = [a for a in argv if a != "-S"] + [path, "-"], "---\nzz_extra: 1\n"
        else:
            argv, stdin_text = argv + [path] + ([] if case["alone"] else [rhs]), ""
        r = run_tool(case, "merge", argv, stdin_text, not stdin_text)
        desc = "yaml-merge %s with LHS %s" % (" ".join(os.path.basename(a) if a.startswith("/") else a for a in argv), _show(case["yaml"], 500))
        if ran(r, desc, "merge"):
            text = read_file(outp) if case["to_file"] else r["out"]
            judged_json("merge", desc, text or "", want)
        rm(path, rhs, outp)
    else:
        want = dict(exp, last=7)
        path = write_file("mk-%d.json" % pid, case["flow"])
        if case["delivery"] == "dash":
            r = run_tool(case, "set", ["-g", "last", "-a", "7", "-"], case["flow"], False)
        else:
            r = run_tool(case, "set", ["-g", "last", "-a", "7", path], "", True)
        desc = "yaml-set -g last -a 7 on the JSON-style document %s [%s]" % (_show(case["flow"], 500), case["delivery"])
        if ran(r, desc, "set"):
            text = r["out"] if case["delivery"] == "dash" else read_file(path)
            judged_json("set", desc, text or "", want)
        rm(path, path + ".bak")
    f.nontrivial = ("mergekeys", mode, case["yaml"], case.get("query"), case["delivery"])
    return f, None, None


# =========================================================================== yaml-set --saveto keeps the old value
# (real tool only; the Lean model treats --saveto as validated-but-opaque.)  Documents from YAML TEXT whose scalars are written
# in every presentation YAML has: plain (several words), single- / double-quoted, folded block (`>`, `>-`, one to three
# lines, paragraph breaks) and literal block (`|`, `|-`), numbers and Booleans.  `yaml-set -g PATH --saveto NEWPATH -a WORD`:
# the file reloads (ruamel's safe loader, no yamlpath code) to the document the set model predicts: the former value of
# PATH - the same data - sits at NEWPATH, PATH holds WORD, everything else is untouched.

SV_WORDS = ["welcome", "to", "the", "machine", "room", "alpha", "b", "x1", "over", "and out"]


def sv_scalar(rng, indent):
    """-> text that follows `key:` (the block forms bring their own continuation lines), style name"""
    def words(n):
        return " ".join(rng.choice(SV_WORDS) for _ in range(n))
    style = rng.choice(["plain", "plain", "single", "double", "folded", "folded", "folded", "literal", "literal", "int", "bool", "word"])
    pad = " " * (indent + 2)
    if style == "plain":
        return " " + words(rng.randint(2, 5)), style
    if style == "word":
        return " " + rng.choice(SV_WORDS[:9]), style
    if style == "single":
        return " '%s'" % words(rng.randint(1, 4)), style
    if style == "double":
        return ' "%s"' % words(rng.randint(1, 4)), style
    if style == "int":
        return " %d" % rng.randint(0, 9000), style
    if style == "bool":
        return " " + rng.choice(["true", "false"]), style
    ind = rng.choice(["", "", "-"])
    lines = []
    for i in range(rng.randint(1, 3)):
        if i and style == "folded" and rng.random() < 0.2:
            lines.append("")
        lines.append(pad + words(rng.randint(1, 4)))
    return " %s%s\n%s" % (">" if style == "folded" else "|", ind, "\n".join(lines)), style


def gen_saveto(rng):
    lines, targets = [], []
    for i in range(rng.randint(2, 4)):
        k = "k%d" % i
        shape = rng.choice(["scalar", "scalar", "map", "seq"])
        if shape == "scalar":
            t, st = sv_scalar(rng, 0)
            lines.append("%s:%s" % (k, t))
            targets.append(([k], st))
        elif shape == "map":
            lines.append("%s:" % k)
            for j in range(rng.randint(1, 3)):
                t, st = sv_scalar(rng, 2)
                lines.append("  s%d:%s" % (j, t))
                targets.append(([k, "s%d" % j], st))
        else:
            lines.append("%s:" % k)
            for j in range(rng.randint(1, 3)):
                t, st = sv_scalar(rng, 4)
                lines.append("  -%s" % t)
                targets.append(([k, j], st))
    lines.append("port: 80")
    folded = [t for t in targets if t[1] == "folded"]
    addr, style = rng.choice(folded) if folded and rng.random() < 0.4 else rng.choice(targets)
    saveto = rng.choice([["saved_q"], ["saved_q"], ["backup_q", "old"], ["k0_old"]])
    return {"tool": "saveto", "yaml": ("---\n" if rng.random() < 0.7 else "") + "\n".join(lines) + "\n", "target": addr, "style": style,
            "saveto": saveto, "value": rng.choice(["closed", "hello", "n1", "two words"]),
            "sep": rng.choice([".", "/"]), "delivery": rng.choice(["file", "file", "file", "dash"]), "backup": rng.random() < 0.2}


def sv_path(addr, sep):
    if sep == "/":
        return "".join("[%d]" % a if isinstance(a, int) else "/" + a for a in addr)
    return dj_path(addr)


def sv_plain(data):
    if isinstance(data, dict):
        return {str(k): sv_plain(v) for k, v in data.items()}
    if isinstance(data, list):
        return [sv_plain(v) for v in data]
    return data


def prep_saveto(case):
    import copy
    from ruamel.yaml import YAML
    f = F()
    pid = os.getpid()
    before = sv_plain(YAML(typ="safe").load(case["yaml"]))
    model = copy.deepcopy(before)
    node = model
    for a in case["target"][:-1]:
        node = node[a]
    old = node[case["target"][-1]]
    node[case["target"][-1]] = case["value"]
    tgt = model
    for a in case["saveto"][:-1]:
        tgt = tgt.setdefault(a, {})
    tgt[case["saveto"][-1]] = old
    argv = ["-g", sv_path(case["target"], case["sep"]), "--saveto", sv_path(case["saveto"], case["sep"]), "-a", case["value"]]
    path = write_file("saveto-%d.yaml" % pid, case["yaml"])
    if case["delivery"] == "dash":
        r = run_tool(case, "set", argv + ["-"], case["yaml"], False)
    else:
        if case["backup"]:
            argv += ["-b"]
        r = run_tool(case, "set", argv + ["-S", path], "", True)
    desc = "yaml-set %s on %s [%s]" % (" ".join(_q(a) for a in argv), _show(case["yaml"], 500), case["delivery"])
    f.count("saveto:old-value-" + case["style"])
    text = r.get("out") if case["delivery"] == "dash" else read_file(path)
    bak = read_file(path + ".bak")
    rm(path, path + ".bak")
    if r.get("timeout"):
        f.viol("timeout:saveto", desc + " did not finish")
        return f, None, None
    if "crash" in r:
        f.viol("saveto:uncaught-%s@%s" % (r["crash"], r.get("site")), "%s lets %s escape (%s)" % (desc, r["crash"], r.get("msg", "")))
        return f, None, None
    if r["rc"] != 0:
        f.viol("saveto:exit=%d" % r["rc"], "%s exits %d although exactly one node matches: %s" % (desc, r["rc"], r.get("err", "")[-200:]))
        return f, None, None
    f.nontrivial = ("saveto", case["yaml"], tuple(argv), case["delivery"])
    try:
        got = sv_plain(YAML(typ="safe").load(text or ""))
    except Exception:  # noqa
        f.viol("saveto:result-unloadable", "%s leaves %s" % (desc, _show(text or "", 300)))
        return f, None, None
    if case["backup"] and case["delivery"] != "dash" and bak != case["yaml"]:
        f.viol("set-backup-differs", "%s: FILE.bak is not the former content" % desc)
    if got == model:
        return f, None, None
    g = got
    try:
        for a in case["saveto"]:
            g = g[a]
    except (KeyError, IndexError, TypeError):
        g = None
        f.viol("saveto:nothing-saved", "%s: nothing at the --saveto path; the file reloads to %s" % (desc, json.dumps(got, default=str)[:300]))
        return f, None, None
    if g != old or type(g) is not type(old):
        f.viol("saveto:saved-value-differs:old-value-%s" % case["style"], "%s: the value saved at %s is %r, the value the node had is %r" % (
            desc, sv_path(case["saveto"], case["sep"]), g, old))
    else:
        f.viol("saveto:document-differs-from-model", "%s: the file reloads to %s, the set model predicts %s" % (
            desc, json.dumps(got, default=str)[:300], json.dumps(model, default=str)[:300]))
    return f, None, None


# =========================================================================== dispatcher

TOOLS = {}


def register(name, gen, prep, judge):
    TOOLS[name] = (gen, prep, judge)


register("get", gen_get, prep_get, judge_get)
register("set", gen_set, prep_set, judge_set)
register("merge", gen_merge, prep_merge, judge_merge)
register("diff", gen_diff, prep_diff, judge_diff)
register("validate", gen_validate, prep_validate, judge_validate)
register("paths", gen_paths, prep_paths, judge_paths)
register("dates", gen_dates, prep_dates, judge_dates)
register("mergekeys", gen_mergekeys, prep_mergekeys, judge_dates)
register("saveto", gen_saveto, prep_saveto, judge_dates)


def run_chunk(job):
    """(seed, [cases]) -> per-case results.  One driver call per chunk."""
    import sys
    cases = job
    core.use_repo()
    prepared = []
    reqs = []
    real_out, real_err = sys.stdout, sys.stderr
    sink = open(os.devnull, "w")
    sys.stdout, sys.stderr = sink, sink          # the library's logger writes errors whatever its settings
    try:
        return _run_chunk(cases, prepared, reqs)
    finally:
        sys.stdout, sys.stderr = real_out, real_err
        sink.close()


def _run_chunk(cases, prepared, reqs):
    for case in cases:
        gen, prep, judge = TOOLS[case["tool"]]
        try:
            f, ctx, rq = prep(case)
        except cc.Timeout:
            f, ctx, rq = F(), None, None
            f.viol("timeout:%s" % case["tool"], "harness-side timeout while preparing %s" % json.dumps(case)[:300])
        except Exception:  # noqa
            f, ctx, rq = F(), None, None
            f.dis("harness-error:%s" % case["tool"], traceback.format_exc()[-600:])
        prepared.append((case, f, ctx, rq, len(reqs)))
        if rq:
            reqs += rq
    answers = core.Driver().ask(reqs) if reqs else []
    out = []
    for case, f, ctx, rq, off in prepared:
        if rq and ctx is not None and not f.oom:
            try:
                TOOLS[case["tool"]][2](case, f, ctx, answers[off:off + len(rq)])
            except Exception:  # noqa
                f.dis("harness-error:%s" % case["tool"], traceback.format_exc()[-600:])
        out.append({"tool": case["tool"], "items": f.items, "stats": f.stats, "nontrivial": f.nontrivial, "oom": f.oom,
                    "case": case})
    cc.cleanup_tmp()
    return out


def gen_cases(seed, tier, only=None):
    cases = []
    for tool in TOOLS:
        if only and tool not in only:
            continue
        rng = random.Random("%s:%s" % (seed, tool))
        n = _n(tool, tier)
        for i in range(n):
            c = TOOLS[tool][0](rng)
            c["sub"] = rng.random() < (0.012 if tier == "quick" else 0.004)
            cases.append(c)
        if tool == "merge":
            rng = random.Random("%s:merge-config" % seed)
            for i in range(_n("merge-config", tier)):
                c = gen_merge_config(rng)
                c["sub"] = rng.random() < (0.012 if tier == "quick" else 0.004)
                cases.append(c)
        if tool == "set":
            rng = random.Random("%s:set-roots" % seed)
            for i in range(_n("set-roots", tier)):
                c = gen_set_roots(rng)
                c["sub"] = rng.random() < (0.012 if tier == "quick" else 0.004)
                cases.append(c)
        if tool == "paths":
            # documents with key aliases x alias options: a stream of their own (the cases above stay what they were per seed)
            rng = random.Random("%s:paths-alias" % seed)
            for i in range(_n("paths-alias", tier)):
                c = gen_paths_alias(rng)
                c["sub"] = rng.random() < (0.012 if tier == "quick" else 0.004)
                cases.append(c)
    return cases


def enum_table_check(chk):
    """The finite table behind yaml-paths' alias options: IncludeAliases has exactly the four documented members and they are
    pairwise distinct (an Enum member defined with the value of another one silently becomes an ALIAS of it: `-y` would then
    select what `-l` selects)."""
    from yamlpath.enums import IncludeAliases
    chk.evaluations += 1
    canonical = [m.name for m in IncludeAliases]                       # aliases are not listed here
    members = {n: m.name for n, m in IncludeAliases.__members__.items()}   # name -> canonical name it resolves to
    case = {"tool": "enum-table", "enum": "IncludeAliases", "members": members}
    want = sorted(ALIAS_MEANING)
    if sorted(members) != want:
        chk.violation("enum-table:IncludeAliases:member-names", "IncludeAliases has the members %s, yaml-paths' options need exactly %s" % (
            sorted(members), want), case)
        return
    same = sorted(n for n, c in members.items() if n != c)
    if same or sorted(canonical) != want:
        chk.violation("enum-table:IncludeAliases:members-not-distinct",
                      "IncludeAliases members are not pairwise distinct: %s (name -> member it is): the alias options of yaml-paths "
                      "that name them cannot be told apart" % ", ".join("%s -> %s" % (n, members[n]) for n in same), case)
    chk.extra_cov["enum_table"] = "IncludeAliases: %d members, pairwise distinct" % len(canonical)


def run(chk: core.Check):
    core.use_repo()
    only = os.environ.get("YPV_C16_ONLY")
    only = only.split(",") if only else None
    if chk.replay_in:
        rp = json.load(open(chk.replay_in))
        cases = [rp.get("case", rp)]
        if cases[0].get("tool") == "enum-table":
            enum_table_check(chk)
            print("replay:", json.dumps(chk.violations[:1])[:600])
            return chk
        jobs = [cases]
    else:
        if not only or "paths" in only:
            enum_table_check(chk)
        cases = CORPUS_CASES() + gen_cases(chk.seed, chk.tier, only)
        random.Random(chk.seed).shuffle(cases)
        jobs = core.chunked(cases, 64)
    results = core.pmap(run_chunk, jobs)
    for chunk in results:
        for res in chunk:
            chk.seen(res["nontrivial"])
            chk.count("cases:" + res["tool"])
            if res["oom"]:
                chk.out_of_model += 1
            for k, v in res["stats"].items():
                chk.count(k, v)
            if res["nontrivial"] is not None:
                chk.sample(_sample(res["case"]), limit=8)
            for kind, sig, what in res["items"]:
                if chk.replay_in:
                    print("replay:", kind, sig, what)
                if kind == "violation":
                    chk.violation(sig, what, res["case"])
                else:
                    chk.disagreements_checked += 1
                    chk.disagreement(sig, what, res["case"])
    return chk


def _sample(case):
    c = dict(case)
    for k in ("doc", "docs", "lhs", "rhs", "files"):
        if k in c:
            c[k] = "…"
    return c


def CORPUS_CASES():
    return []


def widen(chk: core.Check):
    chk.notes.append("widened search: thorough-tier case counts")
    chk.tier = "thorough"
    run(chk)
