"""C07 — yaml-paths search is sound and complete, and every printed path resolves."""
from __future__ import annotations

import contextlib
import io
import itertools
import json
import os
import random
import sys
import tempfile

from harness import core, codec
from harness.props import searching as sg
from harness.props import compare_common as cc

RULE = ("documents: a catalogue of ~60 shapes (anchored / aliased scalars, sequences, mappings; anchored and aliased keys; "
        "YAML merge keys incl. overridden and doubly merged entries; sets at the root, under keys, inside sequences, with "
        "aliased members; scalar documents; keys that need escaping or that the notation cannot express) and seeded random "
        "documents (depth <= 3, same features) x the 9 operators x plain/inverted x a term alphabet (incl. regular "
        "expressions, answered for the model by Python re) x {values, keys, keys-only} x the four alias-inclusion modes x "
        "--refnames on/off x expand on/off x the THREE separators the tool accepts (PathSeparators DOT, FSLASH and AUTO - `--pathsep auto`, "
        "which renders dot notation; handed to search_for_paths as the enum member and to main() as the option): the catalogue is crossed with ALL 144 option mixes, random "
        "documents with a seeded sample of them.  Per case: the real search_for_paths is called in-process and the list of "
        "str(path) in order is compared with the Lean model (whose address list is proved equal to the specification "
        "Spec.found); then EVERY printed path is fed to the real Processor.get_nodes(mustexist=True) on the same document and "
        "must resolve to exactly the node the model reported it for (object identity for containers / anchored scalars, "
        "parent object + reference for plain scalars); where the printed list differs from the specification's only in how a path is "
        "written, the printed text is resolved too and must lead to the node reported at that place.  A sample goes through yaml_paths.main() on a dumped file (stdout vs "
        "the model's de-duplicated list on the reloaded document); get_search_term is compared on every expression of length "
        "<= 3 over 13 characters.  Multi-document streams: 2-3 documents (the same document repeated, catalogue shapes, "
        "random documents) dumped into one file and searched by one yaml_paths.main() run; the lines printed for document N "
        "must be the model's de-duplicated list for document N.  Expressions with backslash escapes: operator {=,^,$,%} "
        "(plain / inverted) + a term of words and the symbols space [ ] ' \" backslash, each symbol written as backslash + "
        "symbol; over a document holding the term text, the text without the symbols, the written form and prefixed / "
        "suffixed variants, judged by Python's ==, startswith, endswith, in: exactly the satisfying values are reported, once, "
        "each path resolving to its value (both notations, a quarter also through main()).  Several expressions in one run: 1-3 --search and 0-2 --except expressions "
        "(term grid, a fifth inverted) over catalogue documents (anchored ones preferred) and random documents x a random option mix, "
        "ONE yaml_paths.main() run; judged expression by expression against the model's answer for each expression ALONE: printed = "
        "the ordered union of the searches' lists, each path once, minus the paths of the exceptions.  distinct & non-trivial = distinct (document, term, options) cases with a non-empty result.")

N_RANDOM_DOCS = {"quick": 2600, "thorough": 40000}
PER_DOC = {"quick": 40, "thorough": 60}


# --------------------------------------------------------------------------- catalogue of document shapes

def catalogue():
    S, M, L, SET = sg.S, sg.M, sg.L, sg.SET
    xs = S("a", a="x")
    xm = M(("k", S("a")), ("z", S(1)), a="x")
    xl = L(S("a"), S("b"), a="x")
    docs = [
        # plain shapes
        M(("a", S("a")), ("b", S("b")), ("ab", L(S("a"), S("ab"), S(1)))),
        L(S("a"), L(S("a"), M(("a", S("ab")))), M(("b", S("a")), ("a", L()))),
        M(("a", M(("a", M(("a", S("a")), ("b", S(None)))), ("x", S(True)))), ("k", M())),
        M(("ab", M(("c", S("ab")))), ("c", S("ab"))),
        L(), M(), S("a"), S("ab", a="a"), S(1), S(None), S(""),
        # the design-time suspicions
        M((1, S("x")), ("1", S("y"))),
        M(("1", S("x")), (1, S("y"))),
        SET(1, "1"),
        # anchored / aliased scalars
        M(("a", xs), ("b", xs), ("c", L(xs, S("a"), xs))),
        L(xs, xs, S("a")),
        M(("al", L(S("a", a="y"))), ("p", M(("c", S("a", a="y")))), ("q", S("a"))),
        M(("a", S(1, a="x")), ("b", S(1, a="x")), ("c", S(1))),
        M(("a", S("a", a="a")), ("b", S("a", a="a")), ("ab", S("x", a="ab")), ("c", S("x", a="ab"))),
        # aliased containers
        M(("a", xm), ("b", xm)),
        M(("a", xm), ("b", xm), ("c", L(xm, S("a", a="s"), S("a", a="s")))),
        L(xl, xl),
        L(L(xl), xl, M(("a", xl))),
        M(("a", M(("i", S("a", a="y")), a="x")), ("b", M(("i", S("a", a="y")), a="x")), ("c", S("a", a="y"))),
        M(("ab", M(("x", S("ab", a="n")))), ("c", S("ab", a="n"))),
        M(("a", L(M(("k", S("a")), a="x"), M(("k", S("a")), a="x")))),
        # anchored / aliased keys
        M(("ks", M(("one", S(1), "k1"), ("two", S("two", a="k2"), "k2"))), ("h", M(("one", S("x"), "k1"), ("two", S("y"), "k2")))),
        M(("ks", M(("a", S("b"), "x"))), ("h", M(("a", M(("a", S("a")), ("b", S("b"))), "x"))), ("a", S("a"))),
        M(("al", L(S("a", a="x"))), ("h", M(("a", S("a", a="x"), "y"))), ("g", M(("a", S("b"), "y")))),
        M(("anchors", M(("key", S("value", a="va"), "ka"))), ("key", M(("ig", S("value", a="va")), ("in", S("static"))), "ka")),
        # merge keys
        M(("base", M(("k", S("a")), ("z", S(1)), a="x")), ("m", M(("z", S(2)), ("own", S("a")), merge=["x"]))),
        M(("base", M(("k", S("a")), a="x")), ("b2", M(("j", S("a")), ("k", S("b")), a="y")), ("m", M(("o", S("a")), merge=["x", "y"]))),
        M(("base", M(("k", S("a", a="s")), ("l", L(S("a"))), a="ab")), ("m", M(merge=["ab"])), ("n", M(("q", S("a", a="s")), merge=["ab"]))),
        M(("b", M(("k", S("a")), a="x")), ("c", M(("k", S("a")), a="y")), ("m", M(merge=["x"]))),
        L(M(("k", S("a")), a="x"), M(("own", S("b")), merge=["x"])),
        M(("b", M(("a", S("a"), "k1"), a="x")), ("m", M(("a", S("b"), "k1"), merge=["x"])), ("n", M(merge=["x"]))),
        M(("b", M(("k", M(("i", S("a")), a="y")), a="x")), ("m", M(merge=["x"])), ("o", M(("i", S("a")), a="y"))),
        # sets
        SET("a", "b", "ab"),
        M(("x", SET("a", "b")), ("y", S("a"))),
        L(SET("a", "b"), S("a"), L(SET("ab"))),
        M(("al", L(S("a", a="x"))), ("s", SET("b", ("a", "x"), "ab")), ("t", SET(("a", "x")))),
        M(("s", SET("a", "b", a="x")), ("t", SET("a", "b", a="x"))),
        M(("a", SET("a", ("b", "y"))), ("b", M(("b", S("b"), "y")))),
        SET(("a", "x"), "b", 1),
        # expansion
        M(("p1", M(("c1", S("v1")), ("c2", S("v2")))), ("p2", M(("c", M(("d", M(("e", S("v")))))))), ("p3", L()), ("p4", M())),
        L(L(L(L(S("a"))), a="ab")),
        M(("a", L(S("a", a="x"), S("b"), S("a", a="x"), SET("a", "b"), M(("a", S("a", a="x"), "y"), ("b", S(1), "y"))))),
        # keys needing escapes / inexpressible keys
        M(("a.b", S("a")), ("a/b", S("a")), ("a b", M(("x[0]", S("a")), ("a\\b", S("a")))), ("é", S("a")), ("(a)", S("a"))),
        M(("a%", S("a")), ("^a", S("a")), ("$", S("a")), ("a'b", L(S("a"))), ("a\"b", S("a")), (" a", S("a")), ("a ", S("a"))),
        M(("/a", S("a")), ("a", S("b"))),
        M(("a\\\\b", S("a")), ("a\\b", S("b"))),   # two adjacent backslashes (C07-K6) next to one
        M(("a*", S("a")), ("ab", S("b")), ("a", S("b"))),
        M(("&a", S("a")), ("a", S("b", a="a"))),
        M(("", M(("a", S("a")))), ("a", S("b"))),
        M(("*", S("a")), ("b", S("a"))),
        M((0, S("a")), (-1, S("a")), ("01", S("a")), (10, L(S("a")))),
        L(M(("a.b", L(S("a", a="a.b"))), ("c", S("a", a="a.b")))),
        M(("a", S("a", a="a b")), ("b", L(S("a", a="a/b"), S("a", a="a b")))),
    ]
    return docs


TERM_GRID = [("EQUALS", "a"), ("EQUALS", "ab"), ("EQUALS", "x"), ("EQUALS", "1"), ("STARTS_WITH", "a"), ("ENDS_WITH", "b"),
             ("CONTAINS", "a"), ("GREATER_THAN", "a"), ("LESS_THAN", "b"), ("GREATER_THAN_OR_EQUAL", "1"),
             ("LESS_THAN_OR_EQUAL", "ab"), ("REGEX", "^a"), ("REGEX", "b$|1"), ("EQUALS", "y"), ("STARTS_WITH", "k"),
             ("EQUALS", "v"), ("CONTAINS", ""), ("EQUALS", "value"), ("EQUALS", "ka"), ("EQUALS", "p1"), ("STARTS_WITH", "p")]


def random_term(rng):
    m = rng.choice(sg.METHODS)
    if m == "REGEX":
        t = rng.choice(sg.REGEX_TERMS)
    else:
        t = rng.choice(sg.TERMS)
    return {"inv": rng.random() < 0.3, "m": m, "term": t}


# --------------------------------------------------------------------------- one chunk of work

def _classify_reresolve(addr, model_doc, fslash):
    """Which known hazard of the path notation (if any) lies on the way to this address.  ALL hazards on the way
    are collected; one that is still an open finding explains the failure before one that has been repaired
    in the tree (leading slash e9c869e, integer set member bbb6262): `/a[1].''` fails for its empty key."""
    node = model_doc
    first = True
    found = []
    for (t, x) in addr:
        if node["k"] == "map" and t == "k":
            ents = node["e"] + node.get("me", [])
            sib = [e[0] for e in ents]
            if sum(1 for s in sib if str(s) == str(x)) > 1:
                found.append("int-str-key-clash")
            if not sg.wf_key_text(x):
                found.append("inexpressible-key")
            if isinstance(x, str) and "\\\\" in x:
                found.append("adjacent-backslashes-key")
            if first and not fslash and isinstance(x, str) and x.startswith("/"):
                found.append("dot-path-leading-slash")
            nxt = [e[1] for e in ents if type(e[0]) is type(x) and e[0] == x]
            node = nxt[0] if nxt else {"k": "null"}
        elif node["k"] == "seq" and t == "i":
            node = node["i"][x] if x < len(node["i"]) else {"k": "null"}
        elif node["k"] == "set" and t == "m":
            ms = [m[0] if isinstance(m, list) else m for m in node["m"]]
            if sum(1 for s in ms if str(s) == str(x)) > 1:
                found.append("int-str-key-clash")
            if isinstance(x, int):
                found.append("int-set-member")
            if not sg.wf_key_text(x):
                found.append("inexpressible-key")
            if isinstance(x, str) and "\\\\" in x:
                found.append("adjacent-backslashes-key")
            if first and not fslash and isinstance(x, str) and x.startswith("/"):
                found.append("dot-path-leading-slash")
            node = {"k": "null"}
        elif node["k"] == "map" and t == "r":
            names = node.get("merge_anchors", [])
            if x < len(names):
                found.append("merge-ref-not-resolved")
            break
        else:
            node = {"k": "null"}
        first = False
    repaired = ("dot-path-leading-slash", "int-set-member")
    for h in found:
        if h not in repaired:
            return h
    return found[0] if found else None


def notation(o):
    """which PathSeparators member the case hands to the search / to --pathsep"""
    return "auto" if o.get("sep") == "auto" else "fslash" if o["fslash"] else "dot"


def opt_sig(o):
    return "%s:%s%s%s" % (o["km"], o["am"], ":refnames" if o["sa"] else "", ":expand" if o["expand"] else "")


def run_chunk(job):
    """job: list of (source doc JSON, [(term, opts)…]) -> stats, violations, disagreements, samples, nontrivial keys"""
    drv = core.Driver()
    stats = {"n": 0, "oom": 0, "hist": {}, "resolved": 0}
    viol, disag, samples, nontriv = [], [], [], []

    def count(k, n=1):
        stats["hist"][k] = stats["hist"].get(k, 0) + n

    built = []
    for src, cases in job:
        try:
            root = sg.build(src)
            anchors = sg.real_all_anchors(root)
            mj = sg.to_model_json(root, anchors)
        except codec.OutOfModel:
            stats["oom"] += len(cases)
            continue
        built.append((src, cases, root, anchors, mj))
    # regex oracle: the texts of each document that has a REGEX case
    need = [i for i, b in enumerate(built) if any(t["m"] == "REGEX" for t, _ in b[1])]
    texts = {}
    if need:
        for i, ans in zip(need, drv.ask([{"op": "C07.texts", "doc": built[i][4]} for i in need])):
            texts[i] = ans["texts"]
    reqs, index = [], []
    for i, (src, cases, root, anchors, mj) in enumerate(built):
        for ci, (term, opts) in enumerate(cases):
            r = {"op": "C07.search", "doc": mj, "term": term,
                 "opts": sg.model_opts(opts)}
            if term["m"] == "REGEX":
                r["rx"] = [[term["term"], tx, cc.rx_answer(term["term"], tx)] for tx in texts[i]]
            reqs.append(r)
            index.append((i, ci))
    answers = drv.ask(reqs)
    rescache = {}
    for (i, ci), mo in zip(index, answers):
        src, cases, root, anchors, mj = built[i]
        term, opts = cases[ci]
        case = {"doc": src, "term": term, "opts": opts}
        stats["n"] += 1
        fl = sg.doc_flags(mj)
        # direct check on the merge-key lookup table the model is given
        if mo.get("oom"):
            stats["oom"] += 1
            continue
        impl = sg.impl_search(root, anchors, term, opts)
        count("op:" + term["m"] + ("!" if term["inv"] else ""))
        count("opts:" + opt_sig(opts))
        count("notation:" + notation(opts))
        if "timeout" in impl:
            viol.append(("timeout", "search_for_paths did not finish in 10 s", case))
            continue
        if "exc" in impl:
            viol.append(("crash:%s@%s" % (impl["exc"], impl["site"]),
                         "search_for_paths raised %s after yielding %r" % (impl["exc"], impl["paths"]), case))
            continue
        mpaths = [h["printed"] for h in mo["hits"]]
        maddrs = [h["addr"] for h in mo["hits"]]
        if mo["spec"] != maddrs:
            disag.append(("model-vs-spec", "model addresses %s but Spec.found %s" % (maddrs, mo["spec"]), case))
        if None in mpaths:
            disag.append(("model-path-unparsable", "the model built a path text its parser rejects: %s" % mo["hits"], case))
            continue
        got = impl["paths"]
        if got != mpaths:
            extra = list(got)
            for p in mpaths:
                if p in extra:
                    extra.remove(p)
            missing = list(mpaths)
            for p in got:
                if p in missing:
                    missing.remove(p)
            kind = ("extra" if extra else "") + ("+" if extra and missing else "") + ("missing" if missing else "")
            kind = kind or "order"
            viol.append(("search-%s:%s" % (kind, opt_sig(opts)),
                         "search_for_paths (separator %s) printed %r; the specification demands %r (not demanded: %r; not reported: %r)"
                         % (notation(opts), got, mpaths, extra, missing), case))
            # the clause "every reported path … resolves to exactly the one node that matched" on what WAS printed:
            # where the two lists differ only in how a path is written, the printed text must still lead to the
            # node the specification reports at that place of the list
            if len(got) == len(mpaths):
                for p, q, a in zip(got, mpaths, maddrs):
                    if p == q:
                        continue
                    # one path text may stand for several addresses (an aliased node is one object at each of them)
                    want = set(sg.key_of_addr(root, a2, anchors) for q2, a2 in zip(mpaths, maddrs) if q2 == q)
                    res = sg.resolve(root, p)
                    stats["resolved"] += 1
                    if None in want or (res[0] == "ok" and set(res[1]) == want):
                        continue
                    hazard = _classify_reresolve(a, mj, opts["fslash"])
                    viol.append(("reresolve:%s" % (hazard or ("wrong-node" if res[0] == "ok" else "unresolved:" + str(res[1]))),
                                 "printed path %r (separator %s; the specification writes %r) does not resolve to exactly the node "
                                 "it was reported for (%s): %s" % (p, notation(opts), q, a, res[:2] if res[0] != "ok" else
                                                                   "%d node(s)" % len(res[1])), case))
                    break
            continue
        if sg.dedup(got) != mo["dedup"]:
            disag.append(("dedup", "unique results %r vs model %r" % (sg.dedup(got), mo["dedup"]), case))
        # every printed path must resolve to exactly the node it was reported for
        bad = False
        by_path = {}
        for p, a in zip(mpaths, maddrs):
            by_path.setdefault(p, []).append(a)
        for p, addrs in by_path.items():
            want = set()
            for a in addrs:
                kk = sg.key_of_addr(root, a, anchors)
                if kk is None:
                    disag.append(("model-address-missing", "model address %s does not exist in the real document" % a, case))
                    bad = True
                want.add(kk)
            if bad:
                break
            ck = (i, p)
            if ck not in rescache:
                rescache[ck] = sg.resolve(root, p)
                stats["resolved"] += 1
            res = rescache[ck]
            hazard = None
            if res[0] != "ok" or set(res[1]) != want or len(res[1]) < 1:
                for a in addrs:
                    hazard = hazard or _classify_reresolve(a, mj, opts["fslash"])
            if res[0] == "timeout":
                viol.append(("reresolve:timeout", "get_nodes(%r) did not finish" % p, case))
                bad = True
            elif res[0] == "exc":
                viol.append(("reresolve:%s" % (hazard or ("unresolved:" + res[1])),
                             "printed path %r does not resolve on the document it was found in (%s at %s); reported for %s"
                             % (p, res[1], res[2], addrs), case))
                bad = True
            elif set(res[1]) != want:
                viol.append(("reresolve:%s" % (hazard or "wrong-node"),
                             "printed path %r resolves to %d node(s) other than the node it was reported for (%s)"
                             % (p, len(set(res[1]) - want) or len(want - set(res[1])), addrs), case))
                bad = True
        if bad:
            continue
        if got:
            nontriv.append(json.dumps(case, sort_keys=True))
            count("nonempty")
        for f in ("alias", "keyanchor", "merge", "set", "oddkey"):
            if fl[f]:
                count("doc:" + f)
        count("doc:nodes<=%d" % (4 if fl["nodes"] <= 4 else 8 if fl["nodes"] <= 8 else 16 if fl["nodes"] <= 16 else 99))
        if len(samples) < 2 and got:
            samples.append({"doc": mj, "term": term, "opts": opt_sig(opts), "fslash": opts["fslash"], "paths": got})
    return stats, viol[:40], disag[:40], samples, nontriv


# --------------------------------------------------------------------------- get_search_term

EXPR_ALPHABET = ["=", "!", "~", "<", ">", "^", "$", "%", "a", "1", " ", "]", "\\"]
EXPR_CORPUS = ["=a", "!=a", "=~/a/", "=~ /a b/", "!=~_x_", ">=1", "<=ab", "<1", "^ab", "$b", "%a b", "=", "!", "", "a=b", "==a",
               "=a]b", "=a][b", "='a b'", '="a"', "=a\\]", "!!=a", "=!a", "=~a", "=~", "=~//", ">= 1", " =a", "=a ", "=[a]",
               "=(a)", "=a.b", "=/a", "=*", "=a*", "^", "~a", "=\\", "=é"]


def term_chunk(exprs):
    from yamlpath.commands import yaml_paths as yp
    log = core.quiet_logger()
    model = core.Driver().ask([{"op": "C07.term", "x": x} for x in exprs])
    stats = {"n": 0, "some": 0}
    viol, disag = [], []
    for x, mo in zip(exprs, model):
        stats["n"] += 1
        def call():
            with contextlib.redirect_stderr(io.StringIO()), contextlib.redirect_stdout(io.StringIO()):
                return yp.get_search_term(log, x)
        st, val = sg.guarded(call, 5.0)
        if st == "timeout":
            viol.append(("term-timeout", "get_search_term(%r) did not return" % x, {"kind": "term", "x": x}))
            continue
        if st == "exc":
            impl = {"err": core.exc_class(val)}
        elif val is None:
            impl = {"none": True}
        else:
            impl = {"inv": bool(val.inverted), "m": val.method.name, "term": val.term}
            stats["some"] += 1
        if "err" in impl:
            # a crash on a malformed expression is C15/C16's matter (the tool dies before searching);
            # here only "the model predicts the same outcome" is demanded
            stats["crash"] = stats.get("crash", 0) + 1
        if impl != mo:
            disag.append(("term", "get_search_term(%r): impl %s, model %s" % (x, impl, mo), {"kind": "term", "x": x}))
    return stats, viol[:20], disag[:20]


# --------------------------------------------------------------------------- through main()

def main_chunk(job):
    """job: [(source doc, term, opts)] — dump to a file, run yaml_paths.main() in-process, compare stdout lines with
    the model's de-duplicated result list on the reloaded document."""
    from yamlpath.commands import yaml_paths as yp
    from yamlpath.common import Parsers
    drv = core.Driver()
    stats = {"n": 0, "skipped": 0, "nonempty": 0}
    viol, disag = [], []
    with tempfile.TemporaryDirectory(prefix="ypv-c07-") as td:
        prepared = []
        for n, (src, term, opts) in enumerate(job):
            if term["m"] == "REGEX" and "/" in term["term"]:
                stats["skipped"] += 1
                continue
            fn = os.path.join(td, "d%d.yaml" % n)
            try:
                root = sg.build(src)
                with open(fn, "w", encoding="utf-8") as fh:
                    Parsers.get_yaml_editor().dump(root, fh)
                with contextlib.redirect_stderr(io.StringIO()), contextlib.redirect_stdout(io.StringIO()):
                    (data, ok) = Parsers.get_yaml_data(Parsers.get_yaml_editor(), core.quiet_logger(), fn)
                if not ok:
                    stats["skipped"] += 1
                    continue
                mj = sg.to_model_json(data, sg.real_all_anchors(data))
            except Exception:
                stats["skipped"] += 1     # a document ruamel cannot dump / reload as built (not the tool's matter)
                continue
            expr = ("!" if term["inv"] else "") + sg.OPS[term["m"]] + (
                term["term"] if term["m"] != "REGEX" else "/" + term["term"] + "/")
            prepared.append({"src": src, "term": term, "opts": opts, "fn": fn, "mj": mj, "expr": expr})
        # what the tool makes of the expressions; the regex texts; the model's answers
        tms = drv.ask([{"op": "C07.term", "x": p["expr"]} for p in prepared])
        prepared = [dict(p, tm=tm) for p, tm in zip(prepared, tms)]
        stats["skipped"] += sum(1 for p in prepared if "m" not in p["tm"])
        prepared = [p for p in prepared if "m" in p["tm"]]
        rxs = [p for p in prepared if p["tm"]["m"] == "REGEX"]
        for p, ans in zip(rxs, drv.ask([{"op": "C07.texts", "doc": p["mj"]} for p in rxs])):
            p["rx"] = [[p["tm"]["term"], tx, cc.rx_answer(p["tm"]["term"], tx)] for tx in ans["texts"]]
        reqs = []
        for p in prepared:
            r = {"op": "C07.search", "doc": p["mj"], "term": {"inv": p["tm"]["inv"], "m": p["tm"]["m"], "term": p["tm"]["term"]},
                 "opts": sg.model_opts(p["opts"])}
            if "rx" in p:
                r["rx"] = p["rx"]
            reqs.append(r)
        for p, mo in zip(prepared, drv.ask(reqs)):
            opts = p["opts"]
            case = {"doc": p["src"], "term": p["term"], "opts": opts, "via": "main"}
            if mo.get("oom"):
                stats["skipped"] += 1
                continue
            argv = ["yaml-paths", "--nostdin", "--nofile", sg.pathsep_arg(opts),
                    {"values": "--ignorekeynames", "keys": "--keynames", "keysonly": "--onlykeynames"}[opts["km"]],
                    {"anchorsonly": "--anchorsonly", "keyaliases": "--allowkeyaliases", "valuealiases": "--allowvaluealiases",
                     "allaliases": "--allowaliases"}[opts["am"]]]
            if opts["sa"]:
                argv.append("--refnames")
            if opts["expand"]:
                argv.append("--expand")
            argv += ["--search", p["expr"], p["fn"]]
            out = io.StringIO()
            old = sys.argv

            def go():
                sys.argv = argv
                try:
                    with contextlib.redirect_stdout(out), contextlib.redirect_stderr(io.StringIO()):
                        yp.main()
                except SystemExit as e:
                    return e.code
                finally:
                    sys.argv = old
                return 0
            st, val = sg.guarded(go, 20.0)
            stats["n"] += 1
            if st != "ok":
                what = "timeout" if st == "timeout" else core.exc_class(val)
                viol.append(("main-crash:%s" % what, "yaml-paths %s ended with %s" % (argv[1:-1], what), case))
                continue
            lines = out.getvalue().split("\n")
            if lines and lines[-1] == "":
                lines.pop()
            if val not in (0, None):
                viol.append(("main-exit:%s" % val, "yaml-paths %s exited %s" % (argv[1:-1], val), case))
                continue
            if lines != mo["dedup"]:
                viol.append(("main-output:%s" % opt_sig(opts), "yaml-paths %s printed %r; the specification demands %r" % (
                    argv[1:-1], lines, mo["dedup"]), case))
                continue
            if lines:
                stats["nonempty"] += 1
    return stats, viol[:20], disag[:20]


# --------------------------------------------------------------------------- multi-document streams through main()

def multi_chunk(job):
    """job: [([source doc, ...2-3 of them], term, opts)] — all documents dumped into ONE file (`---` between them), one
    yaml_paths.main() run; the lines printed for document N (prefix `<file>/N: `) must be exactly the model's
    de-duplicated result list on document N as reloaded: results are per document, whatever the other documents of
    the stream printed."""
    from yamlpath.commands import yaml_paths as yp
    from yamlpath.common import Parsers
    drv = core.Driver()
    stats = {"n": 0, "skipped": 0, "nonempty": 0, "docs": 0, "shared": 0}
    viol, disag = [], []
    with tempfile.TemporaryDirectory(prefix="ypv-c07-") as td:
        prepared = []
        for n, (srcs, term, opts) in enumerate(job):
            if term["m"] == "REGEX" and "/" in term["term"]:
                stats["skipped"] += 1
                continue
            fn = os.path.join(td, "m%d.yaml" % n)
            try:
                with open(fn, "w", encoding="utf-8") as fh:
                    for src in srcs:
                        Parsers.get_yaml_editor().dump(sg.build(src), fh)
                with contextlib.redirect_stderr(io.StringIO()), contextlib.redirect_stdout(io.StringIO()):
                    loaded = list(Parsers.get_yaml_multidoc_data(Parsers.get_yaml_editor(), core.quiet_logger(), fn))
                if len(loaded) != len(srcs) or not all(ok for _d, ok in loaded):
                    stats["skipped"] += 1
                    continue
                mjs = [sg.to_model_json(d, sg.real_all_anchors(d)) for d, _ok in loaded]
            except Exception:
                stats["skipped"] += 1     # a stream ruamel cannot dump / reload as built (not the tool's matter)
                continue
            expr = ("!" if term["inv"] else "") + sg.OPS[term["m"]] + (
                term["term"] if term["m"] != "REGEX" else "/" + term["term"] + "/")
            prepared.append({"srcs": srcs, "term": term, "opts": opts, "fn": fn, "mjs": mjs, "expr": expr})
        tms = drv.ask([{"op": "C07.term", "x": p_["expr"]} for p_ in prepared])
        prepared = [dict(p_, tm=tm) for p_, tm in zip(prepared, tms)]
        stats["skipped"] += sum(1 for p_ in prepared if "m" not in p_["tm"])
        prepared = [p_ for p_ in prepared if "m" in p_["tm"]]
        reqs, owner = [], []
        rxreq = [(pi, di) for pi, p_ in enumerate(prepared) if p_["tm"]["m"] == "REGEX" for di in range(len(p_["mjs"]))]
        rxtexts = {}
        for (pi, di), ans in zip(rxreq, drv.ask([{"op": "C07.texts", "doc": prepared[pi]["mjs"][di]} for pi, di in rxreq])):
            rxtexts[(pi, di)] = ans["texts"]
        for pi, p_ in enumerate(prepared):
            for di, mj in enumerate(p_["mjs"]):
                r = {"op": "C07.search", "doc": mj, "term": {"inv": p_["tm"]["inv"], "m": p_["tm"]["m"], "term": p_["tm"]["term"]},
                     "opts": sg.model_opts(p_["opts"])}
                if (pi, di) in rxtexts:
                    r["rx"] = [[p_["tm"]["term"], tx, cc.rx_answer(p_["tm"]["term"], tx)] for tx in rxtexts[(pi, di)]]
                reqs.append(r)
                owner.append(pi)
        answers = {}
        for pi, mo in zip(owner, drv.ask(reqs)):
            answers.setdefault(pi, []).append(mo)
        for pi, p_ in enumerate(prepared):
            opts, mos = p_["opts"], answers[pi]
            case = {"docs": p_["srcs"], "term": p_["term"], "opts": opts, "via": "main-multidoc"}
            if any(mo.get("oom") for mo in mos):
                stats["skipped"] += 1
                continue
            argv = ["yaml-paths", "--nostdin", sg.pathsep_arg(opts),
                    {"values": "--ignorekeynames", "keys": "--keynames", "keysonly": "--onlykeynames"}[opts["km"]],
                    {"anchorsonly": "--anchorsonly", "keyaliases": "--allowkeyaliases", "valuealiases": "--allowvaluealiases",
                     "allaliases": "--allowaliases"}[opts["am"]]]
            if opts["sa"]:
                argv.append("--refnames")
            if opts["expand"]:
                argv.append("--expand")
            argv += ["--search", p_["expr"], p_["fn"]]
            out = io.StringIO()
            old = sys.argv

            def go():
                sys.argv = argv
                try:
                    with contextlib.redirect_stdout(out), contextlib.redirect_stderr(io.StringIO()):
                        yp.main()
                except SystemExit as e:
                    return e.code
                finally:
                    sys.argv = old
                return 0
            st, val = sg.guarded(go, 30.0)
            stats["n"] += 1
            stats["docs"] += len(mos)
            if st != "ok":
                what = "timeout" if st == "timeout" else core.exc_class(val)
                viol.append(("main-crash:%s" % what, "yaml-paths %s on a %d-document stream ended with %s" % (
                    argv[1:-1], len(mos), what), case))
                continue
            if val not in (0, None):
                viol.append(("main-exit:%s" % val, "yaml-paths %s on a %d-document stream exited %s" % (argv[1:-1], len(mos), val), case))
                continue
            lines = out.getvalue().split("\n")
            if lines and lines[-1] == "":
                lines.pop()
            per_doc = [[] for _ in mos]
            stray = []
            for ln in lines:
                for di in range(len(mos)):
                    pre = "%s/%d: " % (p_["fn"], di)
                    if ln.startswith(pre):
                        per_doc[di].append(ln[len(pre):])
                        break
                else:
                    stray.append(ln)
            want = [mo["dedup"] for mo in mos]
            if stray or per_doc != want:
                bad = [di for di in range(len(mos)) if per_doc[di] != want[di]]
                viol.append(("main-multidoc:%s" % opt_sig(opts),
                             "yaml-paths %s on a %d-document stream: printed per document %r; the specification demands %r "
                             "(documents %s differ%s)" % (argv[1:-1], len(mos), per_doc, want, bad,
                                                          "; lines of no document: %r" % stray if stray else ""), case))
                continue
            if any(want):
                stats["nonempty"] += 1
            if any(set(want[a]) & set(want[b]) for a in range(len(want)) for b in range(a)):
                stats["shared"] += 1      # some path text is demanded for two documents of the stream
    return stats, viol[:20], disag[:20]


# --------------------------------------------------------------------------- several expressions in one run

def mexpr_chunk(job):
    """job: [(source doc, [search terms, 1-3], [except terms, 0-2], opts)] — ONE yaml_paths.main() run with every
    `--search` and `--except` expression (`--nofile --noexpression`).  Oracle: each expression on its own (the model's
    de-duplicated list for that expression alone, nothing shared between expressions): the run must print, in order and
    once each, every path demanded for any of the search expressions, minus the paths demanded for an except
    expression — a value satisfying the 2nd or 3rd expression is owed a path exactly as if that expression stood
    first."""
    from yamlpath.commands import yaml_paths as yp
    from yamlpath.common import Parsers
    drv = core.Driver()
    stats = {"n": 0, "skipped": 0, "nonempty": 0, "later_only": 0, "excepted": 0}
    viol, disag = [], []

    def expr_of(term):
        return ("!" if term["inv"] else "") + sg.OPS[term["m"]] + (
            term["term"] if term["m"] != "REGEX" else "/" + term["term"] + "/")

    with tempfile.TemporaryDirectory(prefix="ypv-c07-") as td:
        prepared = []
        for n, (src, sterms, xterms, opts) in enumerate(job):
            if any(t["m"] == "REGEX" and "/" in t["term"] for t in sterms + xterms):
                stats["skipped"] += 1
                continue
            fn = os.path.join(td, "x%d.yaml" % n)
            try:
                root = sg.build(src)
                with open(fn, "w", encoding="utf-8") as fh:
                    Parsers.get_yaml_editor().dump(root, fh)
                with contextlib.redirect_stderr(io.StringIO()), contextlib.redirect_stdout(io.StringIO()):
                    (data, ok) = Parsers.get_yaml_data(Parsers.get_yaml_editor(), core.quiet_logger(), fn)
                if not ok:
                    stats["skipped"] += 1
                    continue
                mj = sg.to_model_json(data, sg.real_all_anchors(data))
            except Exception:
                stats["skipped"] += 1
                continue
            prepared.append({"src": src, "sterms": sterms, "xterms": xterms, "opts": opts, "fn": fn, "mj": mj,
                             "exprs": [expr_of(t) for t in sterms + xterms]})
        flat = [(pi, x) for pi, p_ in enumerate(prepared) for x in p_["exprs"]]
        tms = drv.ask([{"op": "C07.term", "x": x} for _pi, x in flat])
        for (pi, _x), tm in zip(flat, tms):
            prepared[pi].setdefault("tms", []).append(tm)
        stats["skipped"] += sum(1 for p_ in prepared if not all("m" in tm for tm in p_["tms"]))
        prepared = [p_ for p_ in prepared if all("m" in tm for tm in p_["tms"])]
        need = [pi for pi, p_ in enumerate(prepared) if any(tm["m"] == "REGEX" for tm in p_["tms"])]
        texts = {}
        for pi, ans in zip(need, drv.ask([{"op": "C07.texts", "doc": prepared[pi]["mj"]} for pi in need])):
            texts[pi] = ans["texts"]
        reqs, owner = [], []
        for pi, p_ in enumerate(prepared):
            for tm in p_["tms"]:
                r = {"op": "C07.search", "doc": p_["mj"], "term": {"inv": tm["inv"], "m": tm["m"], "term": tm["term"]},
                     "opts": sg.model_opts(p_["opts"])}
                if tm["m"] == "REGEX":
                    r["rx"] = [[tm["term"], tx, cc.rx_answer(tm["term"], tx)] for tx in texts[pi]]
                reqs.append(r)
                owner.append(pi)
        answers = {}
        for pi, mo in zip(owner, drv.ask(reqs)):
            answers.setdefault(pi, []).append(mo)
        for pi, p_ in enumerate(prepared):
            opts, mos = p_["opts"], answers[pi]
            ns = len(p_["sterms"])
            case = {"doc": p_["src"], "search": p_["sterms"], "except": p_["xterms"], "opts": opts, "via": "main-multiexpr"}
            if any(mo.get("oom") for mo in mos):
                stats["skipped"] += 1
                continue
            per_expr = [mo["dedup"] for mo in mos]
            union = []
            for lst in per_expr[:ns]:
                for x in lst:
                    if x not in union:
                        union.append(x)
            excepted = set(x for lst in per_expr[ns:] for x in lst)
            want = [x for x in union if x not in excepted]
            argv = ["yaml-paths", "--nostdin", "--nofile", "--noexpression", sg.pathsep_arg(opts),
                    {"values": "--ignorekeynames", "keys": "--keynames", "keysonly": "--onlykeynames"}[opts["km"]],
                    {"anchorsonly": "--anchorsonly", "keyaliases": "--allowkeyaliases", "valuealiases": "--allowvaluealiases",
                     "allaliases": "--allowaliases"}[opts["am"]]]
            if opts["sa"]:
                argv.append("--refnames")
            if opts["expand"]:
                argv.append("--expand")
            for x in p_["exprs"][:ns]:
                argv += ["--search", x]
            for x in p_["exprs"][ns:]:
                argv += ["--except", x]
            argv.append(p_["fn"])
            out = io.StringIO()
            old = sys.argv

            def go():
                sys.argv = argv
                try:
                    with contextlib.redirect_stdout(out), contextlib.redirect_stderr(io.StringIO()):
                        yp.main()
                except SystemExit as e:
                    return e.code
                finally:
                    sys.argv = old
                return 0
            st, val = sg.guarded(go, 30.0)
            stats["n"] += 1
            if st != "ok":
                what = "timeout" if st == "timeout" else core.exc_class(val)
                viol.append(("main-crash:%s" % what, "yaml-paths %s ended with %s" % (argv[1:-1], what), case))
                continue
            if val not in (0, None):
                viol.append(("main-exit:%s" % val, "yaml-paths %s exited %s" % (argv[1:-1], val), case))
                continue
            lines = out.getvalue().split("\n")
            if lines and lines[-1] == "":
                lines.pop()
            if lines != want:
                missing = [x for x in want if x not in lines]
                extra = [x for x in lines if x not in want]
                kind = ("extra" if extra else "") + ("+" if extra and missing else "") + ("missing" if missing else "") or "order"
                viol.append(("main-multiexpr-%s:%s%s" % (kind, opt_sig(opts), ":except" if p_["xterms"] else ""),
                             "yaml-paths %s printed %r; expression by expression the specification demands %r for the searches and %r "
                             "for the exceptions, i.e. %r (not reported: %r; not demanded: %r)" % (
                                 argv[1:-1], lines, per_expr[:ns], per_expr[ns:], want, missing, extra), case))
                continue
            if want:
                stats["nonempty"] += 1
            if ns > 1 and any(x not in per_expr[0] for lst in per_expr[1:ns] for x in lst):
                stats["later_only"] += 1     # some path is owed to a later expression only
            if excepted & set(union):
                stats["excepted"] += 1
    return stats, viol[:20], disag[:20]


# --------------------------------------------------------------------------- expressions with backslash escapes

ESC_WORDS = ["hello", "world", "a", "b", "it", "s", "alpha"]
ESC_SPECIALS = [" ", "[", "]", "'", '"', "\\"]
ESC_OPS = {"=": lambda t, v: v == t, "^": lambda t, v: v.startswith(t), "$": lambda t, v: v.endswith(t),
           "%": lambda t, v: t in v}


def esc_term(rng):
    """a term holding at least one symbol that has to be written with a backslash in an expression"""
    n = rng.choice([1, 2, 2, 3])
    parts = []
    for i in range(n):
        if rng.random() < 0.85:
            parts.append(rng.choice(ESC_WORDS))
        if i < n - 1 or not parts or rng.random() < 0.3:
            parts.append(rng.choice(ESC_SPECIALS))
    if not any(x in ESC_SPECIALS for x in parts):
        parts.insert(rng.randint(0, len(parts)), rng.choice(ESC_SPECIALS))
    t = "".join(parts)
    if t[0] in "'\"" and t[-1] == t[0]:
        # the path parser removes a pair of quotes wrapped around a search term even when they are written with
        # backslashes (yamlpath.py "Undemarcate the search term"): what such an expression means is the parser's
        # matter (C14), not the search's
        t += rng.choice(ESC_WORDS)
    return t


def esc_written(t):
    return "".join("\\" + c if c in ESC_SPECIALS else c for c in t)


def escape_chunk(job):
    """job: [(term text, operator character, inverted, fslash, through main())].  The expression is the operator
    followed by the term with every space / bracket / quote / backslash written as backslash + symbol.  Judged
    directly, by Python's own ==, startswith, endswith, in: over a document holding the term text, the text with the
    symbols left out, the WRITTEN form (backslashes kept) and prefixed / suffixed variants, exactly the values
    satisfying the expression are reported, each once, and each printed path resolves to its value."""
    from yamlpath.commands import yaml_paths as yp
    from yamlpath.common import Parsers
    from yamlpath.enums import PathSeparators
    from yamlpath.eyaml import EYAMLProcessor
    log = core.quiet_logger()
    stats = {"n": 0, "nonempty": 0, "main": 0}
    viol = []
    with tempfile.TemporaryDirectory(prefix="ypv-c07-") as td:
        for (t, op, inv, fslash, via_main) in job:
            stats["n"] += 1
            written = esc_written(t)
            expr = ("!" if inv else "") + op + written
            bare = "".join(c for c in t if c not in ESC_SPECIALS)
            values = [t, bare or "zz", written, t + "x", "x" + t, "zz", t + t]
            asmap = (len(t) % 2 == 0)
            src = (sg.M(*[("k%d" % i, sg.S(v)) for i, v in enumerate(values)]) if asmap
                   else sg.L(*[sg.S(v) for v in values]))
            root = sg.build(src)
            case = {"kind": "escaped", "t": t, "op": op, "inv": inv, "fslash": fslash, "main": via_main,
                    "expression": expr, "doc": src}
            st, terms = sg.guarded(lambda: yp.get_search_term(log, expr), 5.0)
            if st != "ok" or terms is None:
                viol.append(("escaped-term:rejected", "get_search_term(%r) gives no search term (%s)" % (
                    expr, "None" if st == "ok" else st if st == "timeout" else core.exc_class(terms)), case))
                continue
            sep = PathSeparators.FSLASH if fslash else PathSeparators.DOT
            got = []

            def go():
                proc = EYAMLProcessor(log, root)
                for p_ in yp.search_for_paths(log, proc, root, terms, sep, search_values=True, search_keys=False):
                    got.append(str(p_))
                return True
            st, val = sg.guarded(go)
            if st != "ok":
                viol.append(("escaped-term:crash:%s" % ("timeout" if st == "timeout" else core.exc_class(val)),
                             "search for %r did not finish normally" % expr, case))
                continue
            want_idx = [i for i, v in enumerate(values) if ESC_OPS[op](t, v) != inv]
            want = {sg.key_of_addr(root, [["k", "k%d" % i] if asmap else ["i", i]]): i for i in want_idx}
            hit, bad = {}, None
            for p_ in got:
                res = sg.resolve(root, p_)
                if res[0] != "ok" or len(res[1]) != 1:
                    bad = ("escaped-term:unresolved", "printed path %r of the search %r does not resolve to one node (%s)" % (
                        p_, expr, res[:2]))
                    break
                hit[res[1][0]] = hit.get(res[1][0], 0) + 1
            if bad is None:
                extra = [k for k in hit if k not in want]
                missing = sorted(i for k, i in want.items() if k not in hit)
                if missing:
                    bad = ("escaped-term:missing", "the expression %r (term text %r) is satisfied by the value(s) %r but no path is "
                           "reported for them; printed %r" % (expr, t, [values[i] for i in missing], got))
                elif extra:
                    bad = ("escaped-term:extra", "the expression %r (term text %r) reports %r, among them values that do not "
                           "satisfy it; satisfied only by %r" % (expr, t, got, [values[i] for i in want_idx]))
                elif any(c > 1 for c in hit.values()):
                    bad = ("escaped-term:duplicate", "the expression %r reports a value more than once: %r" % (expr, got))
            if bad:
                viol.append((bad[0], bad[1], case))
                continue
            if got:
                stats["nonempty"] += 1
            if via_main:
                fn = os.path.join(td, "e.yaml")
                try:
                    with open(fn, "w", encoding="utf-8") as fh:
                        Parsers.get_yaml_editor().dump(root, fh)
                    (data, ok) = Parsers.get_yaml_data(Parsers.get_yaml_editor(), log, fn)
                    same = ok and [str(x) for x in (data.values() if asmap else data)] == values
                except Exception:
                    same = False
                if not same:
                    continue
                argv = ["yaml-paths", "--nostdin", "--nofile", "--pathsep=" + ("/" if fslash else "."), "--search", expr, fn]
                out = io.StringIO()
                old = sys.argv

                def run_main():
                    sys.argv = argv
                    try:
                        with contextlib.redirect_stdout(out), contextlib.redirect_stderr(io.StringIO()):
                            yp.main()
                    except SystemExit as e:
                        return e.code
                    finally:
                        sys.argv = old
                    return 0
                st, val = sg.guarded(run_main, 20.0)
                stats["main"] += 1
                lines = out.getvalue().split("\n")
                if lines and lines[-1] == "":
                    lines.pop()
                if st != "ok" or val not in (0, None) or lines != got:
                    viol.append(("escaped-term:main", "yaml-paths --search %r printed %r (exit %s); the values satisfying the "
                                 "expression are at %r" % (expr, lines, val if st == "ok" else st, got), case))
    return stats, viol[:20], []


# --------------------------------------------------------------------------- entry points

def _dispatch(job):
    kind, payload = job
    if kind == "search":
        return ("search", run_chunk(payload))
    if kind == "term":
        return ("term", term_chunk(payload))
    if kind == "multi":
        return ("multi", multi_chunk(payload))
    if kind == "escaped":
        return ("escaped", escape_chunk(payload))
    if kind == "mexpr":
        return ("mexpr", mexpr_chunk(payload))
    return ("main", main_chunk(payload))


def build_jobs(chk, tier):
    rng = random.Random(chk.seed)
    opts = sg.all_opts()
    jobs = []
    # catalogue x all option mixes x the term grid (plain; a seeded third also inverted)
    cat = catalogue()
    search_jobs = []
    for d in cat:
        cases = []
        for o in opts:
            picks = TERM_GRID if tier != "quick" else rng.sample(TERM_GRID, 7)
            for (m, t) in picks:
                cases.append(({"inv": False, "m": m, "term": t}, o))
                if rng.random() < 0.3:
                    cases.append(({"inv": True, "m": m, "term": t}, o))
        for part in core.chunked(cases, 4):
            search_jobs.append([(d, part)])
    chk.extra_cov["catalogue_documents"] = len(cat)
    chk.extra_cov["option_mixes"] = len(opts)
    # seeded random documents x a sample of option mixes and terms
    rnd = []
    for _ in range(N_RANDOM_DOCS[tier]):
        d = sg.gen_doc(rng, depth=rng.choice([2, 3, 3]))
        cases = [(random_term(rng), rng.choice(opts)) for _ in range(PER_DOC[tier])]
        rnd.append((d, cases))
    for part in core.chunked(rnd, 96):
        search_jobs.append(part)
    rng.shuffle(search_jobs)
    jobs += [("search", j) for j in search_jobs]
    # get_search_term
    exprs = list(EXPR_CORPUS)
    L = 3 if tier == "quick" else 4
    for n in range(1, L + 1):
        for tup in itertools.product(EXPR_ALPHABET, repeat=n):
            exprs.append("".join(tup))
    for c in range(32, 127):
        exprs.append(chr(c) + "a")
    jobs += [("term", c) for c in core.chunked(exprs, 8)]
    # through main()
    mains = []
    for _ in range(160 if tier == "quick" else 1500):
        if rng.random() < 0.4:
            d = rng.choice(cat)
        else:
            d = sg.gen_doc(rng, depth=3, odd=0.05)
        m, t = rng.choice(TERM_GRID)
        mains.append((d, {"inv": rng.random() < 0.25, "m": m, "term": t}, rng.choice(opts)))
    jobs += [("main", c) for c in core.chunked(mains, 8)]
    # multi-document streams through main(); search expressions with backslash escapes (own random stream, so that the
    # cases above stay those of earlier versions of this check)
    rng2 = random.Random(chk.seed * 13 + 5)
    multis = []
    for _ in range(480 if tier == "quick" else 4000):
        first = rng2.choice(cat) if rng2.random() < 0.35 else sg.gen_doc(rng2, depth=rng2.choice([2, 3]), odd=0.03)
        srcs = [first]
        for _n in range(rng2.choice([1, 1, 2])):
            r = rng2.random()
            srcs.append(first if r < 0.45 else rng2.choice(cat) if r < 0.6 else sg.gen_doc(rng2, depth=rng2.choice([2, 3]), odd=0.03))
        if rng2.random() < 0.3:
            rng2.shuffle(srcs)
        m, t = rng2.choice(TERM_GRID)
        multis.append((srcs, {"inv": rng2.random() < 0.25, "m": m, "term": t}, rng2.choice(opts)))
    jobs += [("multi", c) for c in core.chunked(multis, 16)]
    esc = [("hello world", "=", False, False, True), ("hello world", "=", False, True, True), (" ", "%", False, False, True),
           ("0]", "$", False, False, True), ("[", "%", False, True, True), ("it's", "=", False, False, True),
           ("\\", "%", False, False, True), ("alpha ", "^", False, True, True), ('say "a"', "=", True, False, True)]
    for i in range(700 if tier == "quick" else 8000):
        esc.append((esc_term(rng2), rng2.choice(sorted(ESC_OPS)), rng2.random() < 0.25, rng2.random() < 0.5, i % 4 == 0))
    jobs += [("escaped", c) for c in core.chunked(esc, 16)]
    # several --search / --except expressions in one run (own random stream)
    rng3 = random.Random(chk.seed * 17 + 3)
    def has_anchor(d):
        try:
            root = sg.build(d)
            return sg.doc_flags(sg.to_model_json(root, sg.real_all_anchors(root)))["anchors"] > 0
        except Exception:
            return False
    anchored = [d for d in cat if has_anchor(d)]
    mx = []
    for _ in range(700 if tier == "quick" else 6000):
        r = rng3.random()
        d = rng3.choice(anchored) if r < 0.3 else rng3.choice(cat) if r < 0.45 else sg.gen_doc(rng3, depth=rng3.choice([2, 3]), odd=0.03)
        def tm():
            m, t = rng3.choice(TERM_GRID)
            return {"inv": rng3.random() < 0.2, "m": m, "term": t}
        sterms = [tm() for _n in range(rng3.choice([1, 2, 2, 2, 3]))]
        xterms = [tm() for _n in range(rng3.choice([0, 0, 0, 1, 1, 2]))]
        mx.append((d, sterms, xterms, rng3.choice(opts)))
    jobs += [("mexpr", c) for c in core.chunked(mx, 32)]
    return jobs


def widen(chk: core.Check):
    chk.notes.append("widened search: thorough-tier case set")
    run(chk, tier="thorough")


def _direct_backslash_keys(chk):
    """Keys holding backslashes are outside the C12 value model (every search over them is counted out
    of model above), so their re-resolution is checked here on the real code alone: the one path printed
    for the value `v` of {key: v} must resolve to exactly that slot."""
    keys = ["a\\b", "\\", "a\\", "\\.b", "a\\\\b", "\\\\", "a\\\\.b", "\\\\\\b"]
    base = {"sv": True, "sk": False, "sa": False, "ika": True, "iva": False, "expand": False,
            "km": "values", "am": "keyaliases"}
    term = {"inv": False, "m": "EQUALS", "term": "v"}
    for k in keys:
        for fslash, sep in ((False, None), (True, None), (False, "auto")):
            opts = dict(base, fslash=fslash)
            if sep:
                opts["sep"] = sep
            src = {"k": "map", "e": [[k, {"k": "str", "v": "v"}], ["z", {"k": "str", "v": "w"}]]}
            root = sg.build(src)
            impl = sg.impl_search(root, sg.real_all_anchors(root), term, opts)
            chk.evaluations += 1
            chk.count("direct:backslash-key")
            case = {"doc": src, "term": term, "opts": opts}
            if impl.get("paths") is None or len(impl.get("paths", [])) != 1 or "exc" in impl:
                chk.violation("search-missing:backslash-key", "search_for_paths printed %r for the value under key %r" % (impl, k), case)
                continue
            want = sg.key_of_addr(root, [["k", k]])
            res = sg.resolve(root, impl["paths"][0])
            if res[0] != "ok" or res[1] != [want]:
                sig = "adjacent-backslashes-key" if "\\\\" in k else "backslash-key"
                chk.violation("reresolve:" + sig, "printed path %r does not resolve to the value of key %r (%s)"
                              % (impl["paths"][0], k, res[:2]), case)


def _direct_lookalike_keys(chk):
    """Integer keys next to (in other Hashes of the same document, visited earlier or later) float and Boolean keys that
    compare equal to them (1 / 1.0 / true, 0 / 0.0 / false): every helper keyed on a key VALUE must keep them apart.  Float and
    Boolean keys are outside the model's Key type, so this is judged on the real code alone, for the values held under the
    INTEGER keys: exactly one path is printed for each, and fed back into a query it resolves to exactly that node."""
    from ruamel.yaml.comments import CommentedMap, CommentedSeq
    from yamlpath import Processor
    base = {"sv": True, "sk": False, "sa": False, "ika": True, "iva": False, "expand": False,
            "km": "values", "am": "keyaliases"}

    def cmap(pairs):
        m = CommentedMap()
        for k, v in pairs:
            m[k] = v
        return m
    shapes = []
    for first in ("floats", "bools", "ints"):
        parts = {"floats": ("ranks", cmap([(1.0, "f1"), (0.0, "f0"), (2.5, "f2")])),
                 "bools": ("flags", cmap([(True, "bt"), (False, "bf")])),
                 "ints": ("slots", cmap([(1, "one"), (0, "zero"), (2, "two")]))}
        order = [first] + [x for x in ("floats", "bools", "ints") if x != first]
        shapes.append(cmap([parts[o] for o in order]))
        shapes.append(cmap([("l", CommentedSeq([cmap([parts[o]]) for o in order]))]))
    for root in shapes:
        for fslash in (False, True):
            for word in ("one", "zero", "two"):
                term = {"inv": False, "m": "EQUALS", "term": word}
                opts = dict(base, fslash=fslash)
                impl = sg.impl_search(root, sg.real_all_anchors(root), term, opts)
                chk.evaluations += 1
                chk.count("direct:lookalike-key")
                case = {"kind": "lookalike-keys", "doc_repr": repr(root), "term": term, "opts": opts}
                paths = impl.get("paths")
                if paths is None or len(paths) != 1 or "exc" in impl:
                    chk.violation("search-missing:lookalike-key", "search_for_paths printed %r for the value %r held under an integer key" % (impl, word), case)
                    continue
                try:
                    got = list(Processor(core.quiet_logger(), root).get_nodes(paths[0], mustexist=True))
                    ok = len(got) == 1 and got[0].node == word and isinstance(got[0].parentref, int) and not isinstance(got[0].parentref, bool)
                    shown = [(g.node, g.parentref) for g in got]
                except Exception as e:  # noqa
                    ok, shown = False, type(e).__name__
                if not ok:
                    chk.violation("reresolve:lookalike-key", "printed path %r does not resolve to the value %r under its integer key (%s)" % (paths[0], word, shown), case)


def run(chk: core.Check, tier=None):
    core.use_repo()
    tier = tier or chk.tier
    if chk.replay_in:
        rp = json.load(open(chk.replay_in))
        c = rp.get("case", rp)
        if c.get("kind") == "term":
            jobs = [("term", [c["x"]])]
        elif c.get("via") == "main":
            jobs = [("main", [(c["doc"], c["term"], c["opts"])])]
        elif c.get("via") == "main-multidoc":
            jobs = [("multi", [(c["docs"], c["term"], c["opts"])])]
        elif c.get("kind") == "escaped":
            jobs = [("escaped", [(c["t"], c["op"], c["inv"], c["fslash"], c["main"])])]
        elif c.get("via") == "main-multiexpr":
            jobs = [("mexpr", [(c["doc"], c["search"], c["except"], c["opts"])])]
        else:
            jobs = [("search", [(c["doc"], [(c["term"], c["opts"])])])]
        results = [_dispatch(j) for j in jobs]
        for kind, res in results:
            print("replay:", json.dumps({"kind": kind, "violations": res[1], "disagreements": res[2]}, default=str)[:3000])
    else:
        jobs = build_jobs(chk, tier)
        results = core.pmap(_dispatch, jobs)
    resolved = 0
    for kind, res in results:
        if kind == "search":
            stats, viol, disag, samples, nontriv = res
            chk.evaluations += stats["n"]
            chk.out_of_model += stats["oom"]
            resolved += stats["resolved"]
            for k, v in stats["hist"].items():
                chk.count(k, v)
            for s in samples:
                chk.sample(s)
            for k in nontriv:
                chk.nontrivial.add(core.hashlib.blake2b(k.encode(), digest_size=8).hexdigest())
        elif kind == "term":
            stats, viol, disag = res
            chk.evaluations += stats["n"]
            chk.count("get_search_term:cases", stats["n"])
            chk.count("get_search_term:accepted", stats["some"])
            chk.count("get_search_term:crash(model agrees)", stats.get("crash", 0))
        elif kind == "multi":
            stats, viol, disag = res
            chk.evaluations += stats["n"]
            chk.count("multidoc:streams", stats["n"])
            chk.count("multidoc:documents", stats["docs"])
            chk.count("multidoc:nonempty", stats["nonempty"])
            chk.count("multidoc:same-path-in-two-documents", stats["shared"])
            chk.count("multidoc:skipped", stats["skipped"])
        elif kind == "mexpr":
            stats, viol, disag = res
            chk.evaluations += stats["n"]
            chk.count("multiexpr:runs", stats["n"])
            chk.count("multiexpr:nonempty", stats["nonempty"])
            chk.count("multiexpr:path-owed-to-a-later-expression-only", stats["later_only"])
            chk.count("multiexpr:except-removes-something", stats["excepted"])
            chk.count("multiexpr:skipped", stats["skipped"])
        elif kind == "escaped":
            stats, viol, disag = res
            chk.evaluations += stats["n"]
            chk.count("escaped-expression:cases", stats["n"])
            chk.count("escaped-expression:nonempty", stats["nonempty"])
            chk.count("escaped-expression:through-main", stats["main"])
        else:
            stats, viol, disag = res
            chk.evaluations += stats["n"]
            chk.count("main:cases", stats["n"])
            chk.count("main:nonempty", stats["nonempty"])
            chk.count("main:skipped", stats["skipped"])
        for sig, w, case in viol:
            chk.violation(sig, w, case)
        for sig, w, case in disag:
            chk.disagreements_checked += 1
            chk.disagreement(sig, w, case)
    if not chk.replay_in:
        _direct_backslash_keys(chk)
        _direct_lookalike_keys(chk)
    chk.extra_cov["paths_re_resolved"] = resolved
    return chk
