"""C17 — a failing or interrupted tool run never loses the user's file.

The real console tools run as subprocesses (code from core.REPO) under strace; the system calls on
the target, its .bak and the output file are canonicalised into the model's primitive steps and
compared with the step list of lean/Ypv/Model/Save.lean; pre-write failures are checked on the
bytes and the directory listing; successful edits are repeated with a fault injected at every
observed system call."""
from __future__ import annotations

import concurrent.futures as cf
import json
import os
import random
import re
import shutil
import subprocess
import tempfile

from harness import core

RULE = ("(i) every tool x writer x --backup x stale-.bak x document combination (yaml-set YAML/JSON writer, yaml-merge "
        "--overwrite/--output, eyaml-rotate-keys with a stand-in eyaml) run under strace -P target -P target.bak: the "
        "canonical syscall sequence on those paths must equal the Lean model's step list and the final bytes the model's "
        "file system; (ii) every pre-write failure cause (unmatched required path, failed --check, impossible change, "
        "undeletable root, invalid path, unreadable/invalid/missing input, merge type clash, anchor conflict with "
        "--anchors=stop, unrenderable JSON, --output naming an existing file, bad argument combinations; multi-document results "
        "(-M merge_across|matrix_merge, 2-3 documents per side) in which ONE document - first, middle or last, of either side - "
        "cannot be rendered as JSON (sequence/mapping/date/binary key, nested), the output being JSON through -D json, a .json "
        "target name or flow-style roots, and type clash / anchor conflict confined to a later document) x documents x "
        "{--backup, stale .bak} : bytes of every file and the directory listing must be identical before/after and the "
        "exit status non-zero (and equal to the model's); (iii) every successful edit re-run with strace "
        "-e inject=<syscall>:error=ENOSPC|EIO:when=k for every k-th call of every syscall of the observed sequence: with "
        "--backup the target or the .bak must hold the original bytes; the observed steps must be a prefix of the model's "
        "list followed by flushes to files open for writing (or a complete recovered run), and the model's file-system "
        "semantics applied to the observed steps must give the real bytes; (iv) symbolic links: every --backup writer "
        "(yaml-set YAML/JSON, yaml-merge --overwrite of the LHS itself / of a third file, eyaml-rotate-keys) x target form "
        "(regular file, relative link, absolute link, link into a subdirectory, chain of two links) x stale-.bak form (none, "
        "regular file, link to an unrelated file, dangling link, link to the target, link to the file the target resolves to): "
        "after exit 0 the bytes read THROUGH target.bak must equal the bytes read through the target before the run, and "
        "target.bak must not resolve to the inode the target resolves to (direct check on the real files; links are outside "
        "the Lean file-system model, these runs are not compared with it); (v) writer faults: every writer (yaml-set YAML/JSON, "
        "yaml-merge --overwrite YAML/JSON, eyaml-rotate-keys) x document x {no --backup, --backup, --backup + stale .bak} run with "
        "the document writer (ruamel YAML.dump/dump_all, json.dump on a real file) replaced by 'render the text, write its first "
        "n characters (n = 0, 1, half, all but one, all) to the stream, then raise E' for E in AssertionError, OSError(ENOSPC), "
        "RuntimeError, ruamel YAMLError: judged once the tool process has ended (every handle closed): with --backup the target "
        "or the .bak must hold the original bytes; (vi) sequences: 2-4 yaml-set runs in a row on ONE hand-formatted file (random "
        "indent 2-4, aligned values, comments, with/without '---', unindented sequences, quoted scalars; pretty-printed JSON), "
        "steps drawn from {set a value to its present value, real change, the previous step again, re-apply a tag, same value "
        "with another --format, --delete, an unmatched --mustexist path}, with/without a stale .bak at the start, mostly with "
        "--backup: after EVERY step the clause is judged against the bytes the harness read right before that step: exit 0 with "
        "--backup => FILE.bak equals that pre-image byte for byte; non-zero exit => nothing changed or appeared "
        "(direct checks, not compared with the Lean model).  distinct_nontrivial = distinct runs whose "
        "tool got as far as reading its input.")

PY = "/venv/bin/python"
STRACE = shutil.which("strace") or "/usr/bin/strace"
TRACE = "trace=%file,write,sendfile,copy_file_range,ftruncate"
FAKE_EYAML = os.path.join(core.HERE, "tools", "fake_eyaml")
SCRATCH_ROOT = os.path.join(core.VERIF, "out", "scratch")
RUN_TIMEOUT = 120

# --------------------------------------------------------------------------- documents

DOC_SMALL = "a: 1\nb:\n  - x\n  - y\nc:\n  d: text\n"
DOC_ANCH = "base: &anc\n  k: v\nuse: *anc\na: old\nlist: [1, 2, 3]\n# trailing comment\n"
DOC_UNI = "a: \"caf\\u00e9 \\u65e5\\u672c\"\nb: [1, 2]\nc: {d: 1}\n"
DOC_BIG = "a: 1\n" + "".join("key%04d: value number %04d with some padding text to make the line long\n" % (i, i)
                              for i in range(420))
DOC_JSON = '{"a": 1, "b": ["x", "y"], "c": {"d": "text"}}\n'
YAML_DOCS = {"small": DOC_SMALL, "anch": DOC_ANCH, "uni": DOC_UNI, "big": DOC_BIG}

KEYS = {"pub1": "FAKE-PUBLIC k1\n", "priv1": "FAKE-PRIVATE k1\n", "pub2": "FAKE-PUBLIC k2\n", "priv2": "FAKE-PRIVATE k2\n"}


def enc(kid, plain):
    return "ENC[FAKE,%s,%s]" % (kid, plain.encode("utf-8").hex())


ROT_DOC1 = "a: plain\nb: %s\nc: &s %s\nd: *s\nl:\n  - x\n  - %s\n" % (enc("k1", "hello"), enc("k1", "sec"), enc("k1", "l1"))
ROT_DOC2 = "top:\n  f: >\n    %s\n  n: 5\n" % enc("k1", "folded secret value")
ROT_PLAIN = "a: plain\nb: [1, 2]\n"


# --------------------------------------------------------------------------- running a tool

def _unhex_str(s):
    """decode a strace -xx string body (\\xHH...)"""
    return bytes(int(h, 16) for h in re.findall(r"\\x([0-9a-f]{2})", s))


_LINE = re.compile(r"^(\d+)\s+(\w+)\((.*)\)\s+=\s+(-?\d+|\?)(?:<[^>]*>)?(.*)$")
_STR = re.compile(r'"((?:\\x[0-9a-f]{2})*)"(\.\.\.)?')
_FD = re.compile(r"(\d+)<([^>]*)>")


def parse_trace(text):
    """strace output -> list of events {sys, path, path2, flags, ok, ret, data, injected}"""
    evs = []
    for line in text.split("\n"):
        if not line or "+++" in line or "--- SIG" in line:
            continue
        if "unfinished" in line or "resumed" in line:
            raise core.Infra("interleaved strace line: " + line[:200])
        m = _LINE.match(line)
        if not m:
            raise core.Infra("unparsable strace line: " + line[:200])
        _pid, sysname, args, ret, tail = m.groups()
        ev = {"sys": sysname, "ok": not ret.startswith("-") and ret != "?", "ret": ret,
              "injected": "INJECTED" in tail, "path": None, "data": None, "flags": ""}
        strs = _STR.findall(args)
        fds = [(n, _unhex_str(q).decode("utf-8", "replace") if "\\x" in q else q) for n, q in _FD.findall(args)]
        if sysname in ("write",):
            ev["path"] = fds[0][1] if fds else None
            ev["data"] = _unhex_str(strs[0][0]) if strs else b""
            if strs and strs[0][1]:
                raise core.Infra("strace truncated write data")
            if ev["ok"]:
                ev["data"] = ev["data"][:int(ret)]
        elif sysname == "sendfile":
            ev["path"] = fds[0][1] if fds else None
            ev["path2"] = fds[1][1] if len(fds) > 1 else None
            ev["n"] = int(ret) if ev["ok"] else 0
        elif sysname == "copy_file_range":
            ev["path"] = fds[1][1] if len(fds) > 1 else None
            ev["path2"] = fds[0][1] if fds else None
            ev["n"] = int(ret) if ev["ok"] else 0
        elif sysname == "ftruncate":
            ev["path"] = fds[0][1] if fds else None
        else:
            real = [s for s in strs if s[0]]
            if real:
                ev["path"] = _unhex_str(real[0][0]).decode("utf-8", "replace")
                if len(real) > 1:
                    ev["path2"] = _unhex_str(real[1][0]).decode("utf-8", "replace")
            elif fds:
                # fd-relative call with an empty path (fstat via newfstatat(fd, ""))
                nonat = [f for f in fds]
                ev["path"] = nonat[0][1]
                ev["fdcall"] = True
            ev["flags"] = args
        evs.append(ev)
    return evs


READS = {"newfstatat", "stat", "lstat", "statx", "access", "faccessat", "faccessat2", "listxattr", "llistxattr",
         "getxattr", "lgetxattr", "readlink", "readlinkat", "fstat"}
METAS = {"utimensat", "utime", "utimes", "futimesat", "chmod", "fchmodat", "fchmodat2", "chown", "lchown", "fchownat",
         "setxattr", "lsetxattr", "removexattr", "lremovexattr"}


def to_steps(evs, contents, only_ok=True):
    """events -> model steps [{"k","p","d"?}], `contents`: path -> bytes before the run (source of
    sendfile data).  Returns (steps, index_of_injected_event_in_steps or None)."""
    steps = []
    inj_at = None
    cur = dict(contents)          # running content, needed to know what sendfile copies
    sf_pos = {}
    for ev in evs:
        if ev["injected"]:
            inj_at = len(steps)
        if not ev["ok"]:
            continue
        s, p = ev["sys"], ev["path"]
        if s in READS:
            steps.append({"k": "S", "p": p})
        elif s in ("openat", "open", "creat"):
            fl = ev["flags"]
            if "O_TRUNC" in fl and ("O_WRONLY" in fl or "O_RDWR" in fl):
                steps.append({"k": "W", "p": p})
                cur[p] = b""
                sf_pos[p] = 0
            elif "O_WRONLY" in fl or "O_RDWR" in fl or "O_APPEND" in fl:
                steps.append({"k": "X", "p": p, "sys": s + ":" + fl[-60:]})
            else:
                steps.append({"k": "R", "p": p})
                sf_pos[("r", p)] = 0
        elif s == "write":
            steps.append({"k": "A", "p": p, "d": ev["data"].hex()})
            cur[p] = (cur.get(p) or b"") + ev["data"]
        elif s in ("sendfile", "copy_file_range"):
            src = ev.get("path2")
            pos = sf_pos.get(("r", src), 0)
            data = (cur.get(src) or b"")[pos:pos + ev["n"]]
            sf_pos[("r", src)] = pos + ev["n"]
            steps.append({"k": "A", "p": p, "d": data.hex()})
            cur[p] = (cur.get(p) or b"") + data
        elif s in ("unlink", "unlinkat"):
            steps.append({"k": "U", "p": p})
            cur[p] = None
        elif s in METAS:
            steps.append({"k": "M", "p": p})
        else:
            steps.append({"k": "X", "p": p, "sys": s})
    return steps, inj_at


def canon(steps, watch):
    """canonical form shared by model and observation: only watched paths, no stat/close, consecutive
    appends on one path merged (byte count), consecutive metadata calls merged."""
    out = []
    for st in steps:
        k, p = st["k"], st["p"]
        if p not in watch or k in ("S", "C"):
            continue
        if k == "A":
            n = len(st["d"]) // 2
            if out and out[-1][0] == "A" and out[-1][1] == p:
                out[-1] = ("A", p, out[-1][2] + n)
            else:
                out.append(("A", p, n))
        elif k == "M":
            if not (out and out[-1][0] == "M" and out[-1][1] == p):
                out.append(("M", p))
        elif k == "X":
            out.append(("X", p, st.get("sys")))
        else:
            out.append((k, p))
    # a zero-length append run (sendfile EOF probe on an empty file) is no step
    return [t for t in out if not (t[0] == "A" and t[2] == 0)]


def snapshot(d):
    snap = {}
    for root, _dirs, files in os.walk(d):
        for fn in files:
            p = os.path.join(root, fn)
            try:
                with open(p, "rb") as fh:
                    snap[os.path.relpath(p, d)] = fh.read()
            except FileNotFoundError:      # a dangling symbolic link
                snap[os.path.relpath(p, d)] = None
    return snap


def link_state(p):
    """what a path is and what is read through it: {islink, dest, bytes (None: nothing readable), id (dev, inode) }"""
    st = {"islink": os.path.islink(p), "dest": None, "bytes": None, "id": None}
    if st["islink"]:
        st["dest"] = os.readlink(p)
    try:
        with open(p, "rb") as fh:
            st["bytes"] = fh.read()
            fst = os.fstat(fh.fileno())
            st["id"] = (fst.st_dev, fst.st_ino)
    except OSError:
        pass
    return st


def run_linked(case, d, sub):
    """a run whose target and/or stale .bak is a symbolic link: no strace, the state of both paths before/after"""
    tgt = os.path.join(d, case["target"])
    pre = {"t": link_state(tgt), "b": link_state(tgt + ".bak")}
    env = dict(os.environ)
    env["PYTHONPATH"] = core.REPO
    env[core.GUARD] = "1"
    env.pop("YPV_EYAML_LOG", None)
    env.pop("YPV_EYAML_FAULT", None)
    cmd = [PY, "-W", "ignore", "-m", "yamlpath.commands." + case["tool"]] + [sub(a) for a in case["args"]]
    try:
        p = subprocess.run(cmd, cwd=core.REPO, env=env, stdin=subprocess.DEVNULL, stdout=subprocess.PIPE,
                           stderr=subprocess.PIPE, timeout=RUN_TIMEOUT)
    except subprocess.TimeoutExpired:
        return {"timeout": True, "dir": d}
    post = {"t": link_state(tgt), "b": link_state(tgt + ".bak")}
    return {"rc": p.returncode, "dir": d, "pre": pre, "post": post, "stderr": p.stderr.decode("utf-8", "replace")[-300:]}


# The tool's main() with the document writer replaced: "render, write the first n characters, raise".  Only dumps to a real
# file (a stream with a file name that is not stdout/stderr) are faulted; the `when`-th such dump fails.
DUMP_RUNNER = r"""
import errno, gc, importlib, io, json, sys, traceback
spec = json.loads(sys.argv[1]); tool = sys.argv[2]; sys.argv = [tool.replace("_", "-")] + sys.argv[3:]
import ruamel.yaml
from ruamel.yaml.error import YAMLError
state = {"n": 0}
def is_file(stream):
    return (stream is not None and stream not in (sys.stdout, sys.stderr, sys.__stdout__, sys.__stderr__)
            and isinstance(getattr(stream, "name", None), str))
def cut(text):
    c = spec["cut"]
    return {"0": 0, "1": min(1, len(text)), "half": len(text) // 2, "last": max(0, len(text) - 1), "all": len(text)}[c]
def make_exc():
    e = spec["exc"]
    if e == "AssertionError": return AssertionError("injected emitter failure")
    if e == "OSError": return OSError(errno.ENOSPC, "No space left on device (injected)")
    if e == "RuntimeError": return RuntimeError("injected writer failure")
    if e == "YAMLError": return YAMLError("injected writer failure")
    raise SystemExit(97)
def emit(stream, text):
    state["n"] += 1
    if state["n"] != spec.get("when", 1):
        stream.write(text); return
    stream.write(text[:cut(text)])
    sys.stderr.write("\nYPV-DUMP-FAULT-FIRED\n"); sys.stderr.flush()
    raise make_exc()
real_dump, real_dump_all, real_jdump = ruamel.yaml.YAML.dump, ruamel.yaml.YAML.dump_all, json.dump
def ydump(self, data, stream=None, **kw):
    if not is_file(stream): return real_dump(self, data, stream, **kw)
    buf = io.StringIO(); real_dump(self, data, buf, **kw); emit(stream, buf.getvalue())
def ydump_all(self, docs, stream=None, **kw):
    if not is_file(stream): return real_dump_all(self, docs, stream, **kw)
    buf = io.StringIO(); real_dump_all(self, docs, buf, **kw); emit(stream, buf.getvalue())
def jdump(obj, fp, **kw):
    if not is_file(fp): return real_jdump(obj, fp, **kw)
    buf = io.StringIO(); real_jdump(obj, buf, **kw); emit(fp, buf.getvalue())
ruamel.yaml.YAML.dump, ruamel.yaml.YAML.dump_all, json.dump = ydump, ydump_all, jdump
mod = importlib.import_module("yamlpath.commands." + tool)
rc = 0
try:
    mod.main()
except SystemExit as ex:
    rc = ex.code if isinstance(ex.code, int) else (0 if ex.code is None else 1)
except BaseException:
    traceback.print_exc(); rc = 1
gc.collect()
sys.exit(rc)
"""


def tool_env():
    env = dict(os.environ)
    env["PYTHONPATH"] = core.REPO
    env[core.GUARD] = "1"
    env.pop("YPV_EYAML_LOG", None)
    env.pop("YPV_EYAML_FAULT", None)
    return env


def run_dumpfault(case, d, sub):
    """a run whose document writer writes a prefix of its output and then raises: no strace; the files are read after
    the tool PROCESS has ended, i.e. after main() has unwound and every handle was closed"""
    before = snapshot(d)
    cmd = [PY, "-W", "ignore", "-c", DUMP_RUNNER, json.dumps(case["dumpfault"]), case["tool"]] + [sub(a) for a in case["args"]]
    try:
        p = subprocess.run(cmd, cwd=core.REPO, env=tool_env(), stdin=subprocess.DEVNULL, stdout=subprocess.PIPE,
                           stderr=subprocess.PIPE, timeout=RUN_TIMEOUT)
    except subprocess.TimeoutExpired:
        return {"timeout": True, "dir": d}
    err = p.stderr.decode("utf-8", "replace")
    return {"rc": p.returncode, "dir": d, "before": before, "after": snapshot(d), "fired": "YPV-DUMP-FAULT-FIRED" in err,
            "stderr": err[-300:]}


def run_seq(case, d, sub):
    """several tool runs in a row on the same directory; the directory is read by the harness right before and right
    after every step"""
    steps = []
    for st in case["steps"]:
        pre = snapshot(d)
        cmd = [PY, "-W", "ignore", "-m", "yamlpath.commands." + case["tool"]] + [sub(a) for a in st["args"]]
        try:
            p = subprocess.run(cmd, cwd=core.REPO, env=tool_env(), stdin=subprocess.DEVNULL, stdout=subprocess.PIPE,
                               stderr=subprocess.PIPE, timeout=RUN_TIMEOUT)
        except subprocess.TimeoutExpired:
            return {"timeout": True, "dir": d}
        steps.append({"rc": p.returncode, "pre": pre, "post": snapshot(d), "stderr": p.stderr.decode("utf-8", "replace")[-300:]})
    return {"rc": steps[-1]["rc"] if steps else 0, "dir": d, "steps": steps}


def run_case(case):
    """Materialise the case in its own directory, run the tool (under strace), collect everything."""
    d = tempfile.mkdtemp(prefix="c17-", dir=SCRATCH_ROOT)
    try:
        sub = lambda s: s.replace("{D}", d)
        for name, text in case["files"].items():
            p = os.path.join(d, name)
            if text is None:
                continue
            if text == "<DIR>":
                os.makedirs(p)
                continue
            os.makedirs(os.path.dirname(p), exist_ok=True)
            with open(p, "wb") as fh:
                fh.write(text.encode("utf-8"))
        for name, dest in (case.get("links") or {}).items():
            os.symlink(sub(dest), os.path.join(d, name))
        watch = [os.path.join(d, w) for w in case["watch"]]
        if case["kind"] == "linked":
            return run_linked(case, d, sub)
        if case["kind"] == "dumpfault":
            return run_dumpfault(case, d, sub)
        if case["kind"] == "seq":
            return run_seq(case, d, sub)
        before = snapshot(d)
        tracefile = os.path.join(SCRATCH_ROOT, os.path.basename(d) + ".trace")
        cmd = [STRACE, "-f", "-y", "-xx", "-s", "4000000", "-o", tracefile]
        for w in watch:
            cmd += ["-P", w]
        cmd += ["-e", TRACE]
        if case.get("inject"):
            cmd += ["-e", "inject=%s:error=%s:when=%d" % tuple(case["inject"])]
        cmd += [PY, "-W", "ignore", "-m", "yamlpath.commands." + case["tool"]] + [sub(a) for a in case["args"]]
        env = dict(os.environ)
        env["PYTHONPATH"] = core.REPO
        env[core.GUARD] = "1"
        env.pop("YPV_EYAML_LOG", None)
        env.pop("YPV_EYAML_FAULT", None)
        try:
            p = subprocess.run(cmd, cwd=core.REPO, env=env, stdin=subprocess.DEVNULL, stdout=subprocess.PIPE,
                               stderr=subprocess.PIPE, timeout=RUN_TIMEOUT)
        except subprocess.TimeoutExpired:
            return {"timeout": True, "dir": d}
        after = snapshot(d)
        try:
            with open(tracefile, "r", encoding="utf-8", errors="replace") as fh:
                trace_text = fh.read()
        finally:
            if os.path.exists(tracefile):
                os.remove(tracefile)
        evs = parse_trace(trace_text)
        return {"rc": p.returncode, "dir": d, "before": before, "after": after, "events": evs,
                "stderr": p.stderr.decode("utf-8", "replace")[-300:]}
    finally:
        shutil.rmtree(d, ignore_errors=True)


# --------------------------------------------------------------------------- case generation

def set_args(change, backup, extra=()):
    return ["-g", change[0]] + list(change[1]) + (["-b"] if backup else []) + list(extra)


def success_cases(tier):
    cases = []
    # yaml-set, YAML writer
    edits = [("a", ["-a", "2"]), ("c.d", ["-a", "new text"]), ("zz.new", ["-a", "created"])]
    for dn, doc in YAML_DOCS.items():
        for backup in (False, True):
            for stale in (False, True):
                ch = edits[(len(cases)) % len(edits)] if dn != "anch" else ("a", ["-a", "changed"])
                if dn == "big":
                    ch = ("key0007", ["-a", "edited"])
                files = {"t.yaml": doc}
                if stale:
                    files["t.yaml.bak"] = "STALE BACKUP\n"
                cases.append({"kind": "success", "tool": "yaml_set", "writer": "setYaml", "doc": dn, "backup": backup,
                              "stale": stale, "files": files, "target": "t.yaml", "watch": ["t.yaml", "t.yaml.bak"],
                              "args": set_args(ch, backup) + ["{D}/t.yaml"]})
    # yaml-set --delete / --null / --format on the small document (same writer, other apply branches)
    for extra in (["-g", "b[0]", "--delete"], ["-g", "a", "--null"], ["-g", "c.d", "-a", "q", "-F", "dquote"],
                  ["-g", "c.d", "-a", "5", "--check", "text"], ["-g", "a", "-a", "7", "--saveto", "old_a"]):
        cases.append({"kind": "success", "tool": "yaml_set", "writer": "setYaml", "doc": "small", "backup": True, "stale": False,
                      "files": {"t.yaml": DOC_SMALL}, "target": "t.yaml", "watch": ["t.yaml", "t.yaml.bak"],
                      "args": extra + ["-b", "{D}/t.yaml"]})
    # yaml-set, JSON writer
    for backup in (False, True):
        for stale in (False, True):
            files = {"t.json": DOC_JSON}
            if stale:
                files["t.json.bak"] = "STALE\n"
            cases.append({"kind": "success", "tool": "yaml_set", "writer": "setJson", "doc": "json", "backup": backup, "stale": stale,
                          "files": files, "target": "t.json", "watch": ["t.json", "t.json.bak"],
                          "args": set_args(("a", ["-a", "2"]), backup) + ["{D}/t.json"]})
    # yaml-merge --overwrite (target is the LHS itself, or a third existing file)
    rhs = "b:\n  - z\nnew: {k: v}\n"
    for dn in ("small", "anch", "big"):
        for backup in (False, True):
            for stale in (False, True):
                for third in ((False, True) if dn == "small" else (False,)):
                    files = {"l.yaml": YAML_DOCS[dn], "r.yaml": rhs}
                    tgt = "l.yaml"
                    if third:
                        tgt = "out.yaml"
                        files["out.yaml"] = "previous: content\n"
                    if stale:
                        files[tgt + ".bak"] = "STALE\n"
                    cases.append({"kind": "success", "tool": "yaml_merge", "writer": "mergeOverwrite", "doc": dn, "backup": backup,
                                  "stale": stale, "files": files, "target": tgt, "watch": [tgt, tgt + ".bak"],
                                  "ins": ["l.yaml", "r.yaml"],
                                  "args": ["-S", "-w", "{D}/" + tgt] + (["-b"] if backup else []) + ["{D}/l.yaml", "{D}/r.yaml"]})
    # yaml-merge --output (new file)
    for dn in ("small", "big"):
        cases.append({"kind": "success", "tool": "yaml_merge", "writer": "output", "doc": dn, "backup": False, "stale": False,
                      "files": {"l.yaml": YAML_DOCS[dn], "r.yaml": rhs}, "target": "o.yaml", "watch": ["o.yaml", "o.yaml.bak"],
                      "ins": ["l.yaml", "r.yaml"], "args": ["-S", "-o", "{D}/o.yaml", "{D}/l.yaml", "{D}/r.yaml"]})
    # eyaml-rotate-keys
    for dn, doc in (("rot1", ROT_DOC1), ("rot2", ROT_DOC2), ("plain", ROT_PLAIN)):
        for backup in (False, True):
            for stale in (False, True):
                files = dict(KEYS)
                files["t.yaml"] = doc
                if stale:
                    files["t.yaml.bak"] = "STALE\n"
                cases.append({"kind": "success", "tool": "eyaml_rotate_keys", "writer": "rotate", "doc": dn, "backup": backup,
                              "stale": stale, "changed": dn != "plain", "files": files, "target": "t.yaml",
                              "watch": ["t.yaml", "t.yaml.bak"],
                              "args": (["-b"] if backup else []) + ["-x", FAKE_EYAML, "-r", "{D}/priv2", "-u", "{D}/pub2",
                                                                    "-i", "{D}/priv1", "-c", "{D}/pub1", "{D}/t.yaml"]})
    return cases


# pre-write failure causes of yaml-set: (name, oracle field, arguments, document override)
SET_FAILS = [
    ("unmatched-required", "queryOk", ["-g", "/nothing/here", "-a", "v", "--mustexist"], None),
    ("unmatched-delete", "queryOk", ["-g", "nothing.here", "--delete"], None),
    ("unmatched-saveto", "queryOk", ["-g", "nothing", "-a", "v", "--saveto", "keep"], None),
    ("check-failed", "checkOk", ["-g", "a", "-a", "2", "--check", "not-the-value"], None),
    ("saveto-many", "applyOk", ["-g", "b[*]", "-a", "v", "--saveto", "keep"], None),
    ("delete-root", "applyOk", ["-g", "/", "--delete"], None),
    ("alias-of-nothing", "applyOk", ["-g", "a", "--aliasof", "does.not.exist"], None),
    ("impossible-descend", "applyOk", ["-g", "a.b.c", "-a", "v", "--mustexist"], None),
    ("bad-path-syntax", "queryOk", ["-g", "a[", "-a", "v"], None),
    ("no-eyaml-binary", "applyOk", ["-g", "a", "-a", "v", "--eyamlcrypt", "-x", "{D}/no-such-eyaml"], None),
    ("invalid-yaml", "loadOk", ["-g", "a", "-a", "2"], "a: [1, 2\nb: }{\n"),
    ("duplicate-keys", "loadOk", ["-g", "a", "-a", "2"], "a: 1\na: 2\n"),
    ("not-utf8-tab", "loadOk", ["-g", "a", "-a", "2"], "a:\t- 1\n\t- 2\n"),
    ("saveto-equals-change", "validOk", ["-g", "a", "-a", "2", "--saveto", "a"], None),
    ("anchor-without-alias", "validOk", ["-g", "a", "-a", "2", "--anchor", "x"], None),
    ("no-input-option", "validOk", ["-g", "a"], None),
    ("unknown-option", "argsOk", ["-g", "a", "-a", "2", "--no-such-option"], None),
    ("two-inputs", "argsOk", ["-g", "a", "-a", "2", "--null"], None),
    ("missing-privkey", "validOk", ["-g", "a", "-a", "2", "--privatekey", "{D}/nokey"], None),
]


def prewrite_cases(tier):
    cases = []
    docs = [("small", DOC_SMALL), ("anch", DOC_ANCH)] + ([("big", DOC_BIG)] if tier != "quick" else [])
    for name, field, args, override in SET_FAILS:
        for dn, doc in docs:
            for backup, stale in ((False, False), (True, False), (True, True)):
                files = {"t.yaml": override if override is not None else doc}
                if stale:
                    files["t.yaml.bak"] = "STALE BACKUP\n"
                cases.append({"kind": "prewrite", "tool": "yaml_set", "cause": name, "field": field, "doc": dn, "backup": backup,
                              "stale": stale, "files": files, "target": "t.yaml", "watch": ["t.yaml", "t.yaml.bak"],
                              "args": args + (["-b"] if backup else []) + ["{D}/t.yaml"]})
            if override is not None:
                break
    # missing input file / a directory as input
    for backup in (False, True):
        cases.append({"kind": "prewrite", "tool": "yaml_set", "cause": "missing-file", "field": "loadOk", "doc": "-", "backup": backup,
                      "stale": False, "files": {"other.yaml": DOC_SMALL}, "target": "t.yaml", "watch": ["t.yaml", "t.yaml.bak"],
                      "args": ["-g", "a", "-a", "2"] + (["-b"] if backup else []) + ["{D}/t.yaml"]})
        cases.append({"kind": "prewrite", "tool": "yaml_set", "cause": "input-is-directory", "field": "loadOk", "doc": "-",
                      "backup": backup, "stale": False, "files": {"t.yaml": "<DIR>"}, "target": "t.yaml",
                      "watch": ["t.yaml", "t.yaml.bak"],
                      "args": ["-g", "a", "-a", "2"] + (["-b"] if backup else []) + ["{D}/t.yaml"]})
    # yaml-merge
    ok_rhs = "b:\n  - z\nnew: 1\n"
    merge_fails = [
        ("type-clash", "applyOk", DOC_SMALL, "- a\n- list\n", []),
        ("anchor-conflict-stop", "applyOk", "a: &x 1\nb: *x\n", "c: &x 2\nd: *x\n", ["--anchors", "stop"]),
        ("rhs-missing", "loadOk", DOC_SMALL, None, []),
        ("rhs-invalid", "loadOk", DOC_SMALL, "a: [1,\n", []),
        ("lhs-invalid", "loadOk", "a: }\n", ok_rhs, []),
        ("rhs-duplicate-keys", "loadOk", DOC_SMALL, "k: 1\nk: 2\n", []),
        ("bad-mergeat", "applyOk", DOC_SMALL, ok_rhs, ["-m", "a["]),
        ("mergeat-into-scalar", "applyOk", DOC_SMALL, ok_rhs, ["-m", "/a/b/c"]),
        ("unrenderable-json", "renderOk", DOC_SMALL, "? [x, y]\n: 1\n", ["-D", "json"]),
        ("unknown-option", "argsOk", DOC_SMALL, ok_rhs, ["--no-such-option"]),
        ("missing-config", "validOk", DOC_SMALL, ok_rhs, ["-c", "{D}/no.ini"]),
    ]
    for name, field, lhs, rhs, extra in merge_fails:
        for dest in ("output-new", "overwrite", "overwrite-backup", "overwrite-backup-stale", "overwrite-third-backup"):
            files = {"l.yaml": lhs}
            if rhs is not None:
                files["r.yaml"] = rhs
            if dest == "output-new":
                tgt, dargs = "o.yaml", ["-o", "{D}/o.yaml"]
            elif dest == "overwrite-third-backup":
                tgt, dargs = "out.yaml", ["-w", "{D}/out.yaml", "-b"]
                files["out.yaml"] = "previous: content\n"
            else:
                tgt, dargs = "l.yaml", ["-w", "{D}/l.yaml"] + (["-b"] if "backup" in dest else [])
            if dest.endswith("stale"):
                files[tgt + ".bak"] = "STALE\n"
            cases.append({"kind": "prewrite", "tool": "yaml_merge", "cause": name, "field": field, "doc": "small", "dest": dest,
                          "backup": "backup" in dest, "stale": dest.endswith("stale"), "files": files, "target": tgt,
                          "watch": [tgt, tgt + ".bak"], "ins": ["l.yaml", "r.yaml"],
                          "args": ["-S"] + extra + dargs + ["{D}/l.yaml", "{D}/r.yaml"]})
    cases += multidoc_prewrite_cases(tier)
    # --output naming an existing file: otherwise faultless merges, and merges failing for another reason too
    for lhs, rhs, extra in ((DOC_SMALL, ok_rhs, []), (DOC_BIG, ok_rhs, []), (DOC_ANCH, ok_rhs, ["-A", "left"]),
                            (DOC_SMALL, "- a\n", []), (DOC_SMALL, None, [])):
        for existing in ("previous: content\n", ""):
            files = {"l.yaml": lhs, "o.yaml": existing}
            if rhs is not None:
                files["r.yaml"] = rhs
            cases.append({"kind": "prewrite", "tool": "yaml_merge", "cause": "output-exists", "field": "outputExists", "doc": "small",
                          "dest": "output-existing", "backup": False, "stale": False, "files": files, "target": "o.yaml",
                          "watch": ["o.yaml", "o.yaml.bak"], "ins": ["l.yaml", "r.yaml"],
                          "args": ["-S"] + extra + ["-o", "{D}/o.yaml", "{D}/l.yaml", "{D}/r.yaml"]})
    # --backup without --overwrite
    cases.append({"kind": "prewrite", "tool": "yaml_merge", "cause": "backup-without-overwrite", "field": "validOk", "doc": "small",
                  "dest": "output-new", "backup": False, "stale": False, "files": {"l.yaml": DOC_SMALL, "r.yaml": ok_rhs},
                  "target": "o.yaml", "watch": ["o.yaml", "o.yaml.bak"], "ins": ["l.yaml", "r.yaml"],
                  "args": ["-S", "-b", "-o", "{D}/o.yaml", "{D}/l.yaml", "{D}/r.yaml"]})
    return cases


# documents no JSON writer can render (a mapping key JSON has no spelling for): (name, block text, flow text)
UNRENDERABLE = [
    ("seq-key", "? [x, y]\n: 4\n", "{[x, y]: 4}\n"),
    ("map-key", "? {k: v}\n: 4\n", "{{k: v}: 4}\n"),
    ("date-key", "? 2001-12-14\n: 1\n", "{2001-12-14: 1}\n"),
    ("binary-key", "? !!binary aGVsbG8=\n: 1\n", "{!!binary aGVsbG8=: 1}\n"),
    ("nested-seq-key", "n:\n  ? [p, q]\n  : 1\n", "{n: {[p, q]: 1}}\n"),
]
MULTI_MODES = ("merge_across", "matrix_merge")
# (documents in LHS, documents in RHS, side and index of the document that cannot be rendered)
MULTI_POSITIONS = [(2, 2, "lhs", 1), (2, 2, "rhs", 1), (3, 3, "lhs", 2), (3, 3, "rhs", 1), (2, 3, "rhs", 2), (2, 2, "lhs", 0)]
MULTI_DESTS = ("output-new", "overwrite", "overwrite-backup", "overwrite-backup-stale", "overwrite-third-backup-stale")


def multi_text(docs):
    return "".join("---\n" + d for d in docs)


def merge_dest(dest, files, lhs_name, ext):
    """(target name, destination arguments) of a yaml-merge destination class; adds the files it needs"""
    if dest == "output-new":
        tgt, dargs = "o" + ext, ["-o", "{D}/o" + ext]
    elif dest.startswith("overwrite-third"):
        tgt, dargs = "out" + ext, ["-w", "{D}/out" + ext, "-b"]
        files[tgt] = "previous: content\n"
    else:
        tgt, dargs = lhs_name, ["-w", "{D}/" + lhs_name] + (["-b"] if "backup" in dest else [])
    if dest.endswith("stale"):
        files[tgt + ".bak"] = "STALE\n"
    return tgt, dargs


def multidoc_prewrite_cases(tier):
    """Multi-document results (-M merge_across / matrix_merge) that fail before writing: ONE document - the first,
    a middle or the last one, from either side - cannot be rendered as JSON, the output being JSON because of
    -D json, of a .json target name, or (format auto, no telling extension) of flow-style roots; and a type
    clash / anchor conflict confined to a later document."""
    cases = []
    n = 0
    for mode in MULTI_MODES:
        for nl, nr, side, idx in MULTI_POSITIONS:
            for why in ("format-json", "json-target", "flow-root"):
                for dest in MULTI_DESTS:
                    kind, block, flow = UNRENDERABLE[(n + n // len(MULTI_DESTS)) % len(UNRENDERABLE)]
                    n += 1
                    fl = why == "flow-root"
                    ldocs = [("{a%d: %d}\n" if fl else "a%d: %d\n") % (i, i) for i in range(nl)]
                    rdocs = [("{c%d: [%d]}\n" if fl else "c%d:\n  - %d\n") % (i, i) for i in range(nr)]
                    (ldocs if side == "lhs" else rdocs)[idx] = flow if fl else block
                    ext = {"format-json": ".yaml", "json-target": ".json", "flow-root": ".cfg"}[why]
                    lhs_name = "l" + ext
                    files = {lhs_name: multi_text(ldocs), "r.yaml": multi_text(rdocs)}
                    tgt, dargs = merge_dest(dest, files, lhs_name, ext)
                    cases.append({"kind": "prewrite", "tool": "yaml_merge", "cause": "multidoc-unrenderable-json", "field": "renderOk",
                                  "doc": "multi:%s:%s%d/%d+%d:%s:%s" % (mode, side, idx, nl, nr, why, kind), "dest": dest,
                                  "backup": "backup" in dest, "stale": dest.endswith("stale"), "files": files, "target": tgt,
                                  "watch": [tgt, tgt + ".bak"], "ins": [lhs_name, "r.yaml"],
                                  "args": ["-S", "-M", mode] + (["-D", "json"] if why == "format-json" else []) + dargs
                                  + ["{D}/" + lhs_name, "{D}/r.yaml"]})
    later = [
        ("multidoc-type-clash", ["a: 1\n", "b:\n  k: 1\n"], ["c: 3\n", "b:\n  - a\n  - b\n"], []),
        ("multidoc-anchor-conflict-stop", ["a: 1\n", "a: &x 1\nb: *x\n"], ["c: 3\n", "c: &x 2\nd: *x\n"], ["--anchors", "stop"]),
    ]
    for name, ldocs, rdocs, extra in later:
        for dest in MULTI_DESTS:
            files = {"l.yaml": multi_text(ldocs), "r.yaml": multi_text(rdocs)}
            tgt, dargs = merge_dest(dest, files, "l.yaml", ".yaml")
            cases.append({"kind": "prewrite", "tool": "yaml_merge", "cause": name, "field": "applyOk", "doc": "multi", "dest": dest,
                          "backup": "backup" in dest, "stale": dest.endswith("stale"), "files": files, "target": tgt,
                          "watch": [tgt, tgt + ".bak"], "ins": ["l.yaml", "r.yaml"],
                          "args": ["-S", "-M", "merge_across"] + extra + dargs + ["{D}/l.yaml", "{D}/r.yaml"]})
    return cases


def multidoc_success_cases(tier):
    """multi-document results that ARE written (YAML and JSON writer of yaml-merge --overwrite)"""
    cases = []
    lhs = multi_text(["a: 1\nl:\n  - x\n", "b: 2\n"])
    rhs = multi_text(["c: 3\n", "d:\n  e: 4\n"])
    combos = [(m, j, b, s) for m in MULTI_MODES for j in (False, True) for b in (False, True) for s in (False, True)]
    if tier == "quick":
        combos = [("merge_across", False, True, True), ("matrix_merge", True, True, False),
                  ("merge_across", True, False, True), ("matrix_merge", False, True, True)]
    for mode, js, backup, stale in combos:
        files = {"l.yaml": lhs, "r.yaml": rhs}
        if stale:
            files["l.yaml.bak"] = "STALE\n"
        cases.append({"kind": "success", "tool": "yaml_merge", "writer": "mergeOverwrite", "doc": "multi-" + mode + ("-json" if js else ""),
                      "backup": backup, "stale": stale, "files": files, "target": "l.yaml", "watch": ["l.yaml", "l.yaml.bak"],
                      "ins": ["l.yaml", "r.yaml"],
                      "args": ["-S", "-M", mode] + (["-D", "json"] if js else []) + ["-w", "{D}/l.yaml"] + (["-b"] if backup else [])
                      + ["{D}/l.yaml", "{D}/r.yaml"]})
    return cases


# the form of the target: (name, real file relative to the run directory, links {name: destination})
TARGET_FORMS = [
    ("regular", None, {}),
    ("rel-link", "real-@", {"@": "real-@"}),
    ("abs-link", "real-@", {"@": "{D}/real-@"}),
    ("subdir-link", "store/v1/@", {"@": "store/v1/@"}),
    ("chain", "real-@", {"@": "mid-@", "mid-@": "{D}/real-@"}),
]
# the stale .bak: (name, files, links); @ = target name, % = real file of the target
STALE_FORMS = [
    ("none", {}, {}),
    ("regular", {"@.bak": "STALE BACKUP\n"}, {}),
    ("link-to-other", {"keep.txt": "UNRELATED FILE\n"}, {"@.bak": "keep.txt"}),
    ("dangling-link", {}, {"@.bak": "{D}/gone-@.bak"}),
    ("link-to-target", {}, {"@.bak": "@"}),
    ("link-to-real", {}, {"@.bak": "%"}),
]


def linked_cases(tier):
    """(iv) --backup runs of every writer whose target and/or stale .bak is a symbolic link"""
    rhs = "b:\n  - z\nnew: {k: v}\n"
    rot = ["-x", FAKE_EYAML, "-r", "{D}/priv2", "-u", "{D}/pub2", "-i", "{D}/priv1", "-c", "{D}/pub1"]
    ydocs = [("small", DOC_SMALL), ("anch", DOC_ANCH), ("uni", DOC_UNI)]
    writers = [
        ("yaml_set", "setYaml", "t.yaml", None, lambda t: ["-g", "a", "-a", "changed", "-b", "{D}/" + t]),
        ("yaml_set", "setJson", "t.json", [("json", DOC_JSON)], lambda t: ["-g", "a", "-a", "2", "-b", "{D}/" + t]),
        ("yaml_merge", "mergeOverwrite", "l.yaml", None, lambda t: ["-S", "-w", "{D}/" + t, "-b", "{D}/" + t, "{D}/r.yaml"]),
        ("yaml_merge", "mergeOverwriteThird", "out.yaml", None, lambda t: ["-S", "-w", "{D}/" + t, "-b", "{D}/l.yaml", "{D}/r.yaml"]),
        ("eyaml_rotate_keys", "rotate", "t.yaml", [("rot1", ROT_DOC1), ("rot2", ROT_DOC2)], lambda t: ["-b"] + rot + ["{D}/" + t]),
    ]
    cases = []
    for tool, writer, tname, docs, mkargs in writers:
        for tform, real, tlinks in TARGET_FORMS:
            for sform, sfiles, slinks in STALE_FORMS:
                if tform == "regular" and sform in ("none", "regular", "link-to-real"):
                    continue                     # no link involved (covered by (i)) / same as link-to-target
                dn, doc = (docs or ydocs)[len(cases) % len(docs or ydocs)]
                realname = (real or "@").replace("@", tname)
                ren = lambda x: x.replace("@", tname).replace("%", realname)
                files = {realname: doc}
                if writer == "mergeOverwriteThird":
                    files = {realname: "previous: content\n", "l.yaml": doc}
                if tool == "yaml_merge":
                    files["r.yaml"] = rhs
                if tool == "eyaml_rotate_keys":
                    files.update(KEYS)
                files.update({ren(k): v for k, v in sfiles.items()})
                links = {ren(k): ren(v) for k, v in list(tlinks.items()) + list(slinks.items())}
                cases.append({"kind": "linked", "tool": tool, "writer": writer, "doc": dn, "backup": True, "stale": sform != "none",
                              "target_form": tform, "stale_form": sform, "files": files, "links": links, "target": tname,
                              "watch": [tname, tname + ".bak"], "args": mkargs(tname)})
    return cases


def judge_linked(chk, case, res):
    """the --backup clause on the real files, read through whatever links there are"""
    tag = "%s/%s" % (case["tool"], case["writer"])
    form = "target=%s stale-bak=%s" % (case["target_form"], case["stale_form"])
    pre, post = res["pre"], res["post"]
    if res["rc"] != 0:
        # a refused run is no violation as long as it lost nothing
        if post["t"]["bytes"] != pre["t"]["bytes"]:
            chk.violation("linked-failed-run-changed-target:" + tag, "exit %d (%s) but the bytes read through the target changed" % (
                res["rc"], form), replayable(case))
        else:
            chk.disagreement("success-case-failed:" + tag, "expected a successful run (%s), exit %d: %s" % (
                form, res["rc"], res["stderr"][-160:]), replayable(case))
        return
    if post["t"]["bytes"] == pre["t"]["bytes"]:
        chk.disagreement("linked-run-wrote-nothing:" + tag, "exit 0 but the target reads as before (%s)" % form, replayable(case))
        return
    if post["b"]["bytes"] != pre["t"]["bytes"]:
        what = "is missing/unreadable" if post["b"]["bytes"] is None else (
            "reads the NEW content" if post["b"]["bytes"] == post["t"]["bytes"] else "reads other bytes")
        chk.violation("backup-not-preimage:%s:links" % tag,
                      "after a successful --backup run (%s) the bytes read through %s.bak are not the pre-image: it %s%s" % (
                          form, case["target"], what, " (it is a symbolic link to %s)" % post["b"]["dest"] if post["b"]["islink"] else ""),
                      replayable(case))
    if post["b"]["id"] is not None and post["b"]["id"] == post["t"]["id"]:
        chk.violation("backup-aliases-target:" + tag,
                      "after a successful --backup run (%s) %s.bak resolves to the same inode as the target: the original bytes are "
                      "stored nowhere" % (form, case["target"]), replayable(case))


# --------------------------------------------------------------------------- (v) writer faults

DUMP_CUTS = ("0", "1", "half", "last", "all")
DUMP_EXCS = ("AssertionError", "OSError", "RuntimeError", "YAMLError")


def dumpfault_cases(tier, rng):
    """(v) the document writer writes the first n characters of its output to the file and then raises"""
    rhs = "b:\n  - z\nnew: {k: v}\n"
    rot = ["-x", FAKE_EYAML, "-r", "{D}/priv2", "-u", "{D}/pub2", "-i", "{D}/priv1", "-c", "{D}/pub1"]
    # (tool, writer, target, files, arguments without -b, documents)
    writers = []
    for dn in ("small", "anch", "uni", "big"):
        ch = {"small": ["-g", "a", "-a", "2"], "anch": ["-g", "a", "-a", "changed"], "uni": ["-g", "c.d", "-a", "new text"],
              "big": ["-g", "key0007", "-a", "edited"]}[dn]
        writers.append(("yaml_set", "setYaml", "t.yaml", {"t.yaml": YAML_DOCS[dn]}, ch + ["{D}/t.yaml"], dn))
    writers.append(("yaml_set", "setJson", "t.json", {"t.json": DOC_JSON}, ["-g", "a", "-a", "2", "{D}/t.json"], "json"))
    for dn in ("small", "big"):
        writers.append(("yaml_merge", "mergeOverwrite", "l.yaml", {"l.yaml": YAML_DOCS[dn], "r.yaml": rhs},
                        ["-S", "-w", "{D}/l.yaml", "{D}/l.yaml", "{D}/r.yaml"], dn))
    writers.append(("yaml_merge", "mergeOverwrite", "l.yaml", {"l.yaml": DOC_SMALL, "r.yaml": rhs},
                    ["-S", "-D", "json", "-w", "{D}/l.yaml", "{D}/l.yaml", "{D}/r.yaml"], "small-json"))
    writers.append(("yaml_merge", "mergeOverwrite", "l.yaml",
                    {"l.yaml": multi_text(["a: 1\nl:\n  - x\n", "b: 2\n"]), "r.yaml": multi_text(["c: 3\n", "d:\n  e: 4\n"])},
                    ["-S", "-M", "matrix_merge", "-w", "{D}/l.yaml", "{D}/l.yaml", "{D}/r.yaml"], "multi"))
    for dn, doc in (("rot1", ROT_DOC1), ("rot2", ROT_DOC2)):
        files = dict(KEYS)
        files["t.yaml"] = doc
        writers.append(("eyaml_rotate_keys", "rotate", "t.yaml", files, rot + ["{D}/t.yaml"], dn))
    cases = []
    for tool, writer, tgt, files, args, dn in writers:
        full = tier != "quick" or (tool == "yaml_set" and dn in ("small", "big", "json"))
        for backup, stale in ((True, False), (True, True), (False, False)):
            combos = [(c, e) for c in DUMP_CUTS for e in DUMP_EXCS]
            if not full:
                # every cut and every exception kind at least once, AssertionError (the handled one) with every cut
                combos = [(c, "AssertionError") for c in DUMP_CUTS] + [(rng.choice(DUMP_CUTS), e) for e in DUMP_EXCS[1:]]
            for cutname, exc in combos:
                fs = dict(files)
                if stale:
                    fs[tgt + ".bak"] = "STALE BACKUP\n"
                cases.append({"kind": "dumpfault", "tool": tool, "writer": writer, "doc": dn, "backup": backup, "stale": stale,
                              "files": fs, "target": tgt, "watch": [tgt, tgt + ".bak"], "dumpfault": {"cut": cutname, "exc": exc, "when": 1},
                              "args": (["-b"] if backup else []) + args})
    return cases


def judge_dumpfault(chk, case, res):
    tag = "%s/%s" % (case["tool"], case["writer"])
    df = case["dumpfault"]
    tgt, bak = case["target"], case["target"] + ".bak"
    before, after = res["before"], res["after"]
    orig = before.get(tgt)
    how = "writer wrote %s of its output, then raised %s" % (
        {"0": "nothing", "1": "1 character", "half": "half", "last": "all but the last character", "all": "all"}[df["cut"]], df["exc"])
    if not res["fired"]:
        chk.count("dumpfault:not-reached")
        chk.disagreement("dumpfault-not-reached:" + tag, "the run never dumped to a file (exit %d): %s" % (res["rc"], res["stderr"][-160:]),
                         replayable(case))
        return
    chk.count("dumpfault:exc=" + df["exc"])
    chk.count("dumpfault:cut=" + df["cut"])
    if res["rc"] == 0:
        chk.disagreement("fault-swallowed:%s:dump" % tag, "exit 0 although the %s" % how, replayable(case))
    if case["backup"]:
        if after.get(tgt) != orig and after.get(bak) != orig:
            chk.violation("fault-lost-original:%s:dump:%s" % (tag, df["exc"]),
                          "%s (exit %d): after the tool has ended neither %s (%s) nor %s (%s) holds the complete original bytes" % (
                              how, res["rc"], tgt, "missing" if after.get(tgt) is None else "%d bytes, original %d" % (
                                  len(after[tgt]), len(orig or b"")), bak, "missing" if after.get(bak) is None else "other bytes"),
                          replayable(case))
        else:
            chk.count("dumpfault:original-kept-in-" + ("target" if after.get(tgt) == orig else "bak"))
    else:
        # without --backup the property promises nothing; the tool itself does ("The original file content was restored")
        chk.count("dumpfault:no-backup:" + ("target-intact" if after.get(tgt) == orig else "target-damaged"))
        if res["rc"] == 3 and after.get(tgt) != orig:
            chk.disagreement("restore-incomplete:%s:dump" % tag, "%s, exit 3 (restore path) but the target is not the original" % how,
                             replayable(case))


# --------------------------------------------------------------------------- (vi) sequences on hand-formatted files

SEQ_LEAVES = [("service.name", "billing", "ledger"), ("service.port", "8080", "9090"), ("service.hosts[0]", "alpha.example.com", "gamma.example.com"),
              ("flag", "true", "false"), ("note", "quoted text", "other text"), ("limits.ratio", "0.5", "0.75")]


def hand_yaml(rng):
    """the same data in somebody's own formatting (never the tool's: 2 spaces, '---', single space after ':')"""
    ind = " " * rng.choice([2, 3, 4, 4])
    pad = lambda k, w: ":" + " " * (rng.choice([1, w - len(k) + 1]) if w else 1)
    w = rng.choice([0, 8, 10])
    seq_ind = rng.choice(["", ind])
    q = rng.choice(["'", '"'])
    cm = lambda: rng.choice(["", "", "  # " + rng.choice(["keep", "see ticket 12", "default"])])
    lines = []
    if rng.random() < 0.6:
        lines.append("# hand-maintained settings")
    if rng.random() < 0.3:
        lines.append("---")
    lines += ["service:",
              ind + "name" + pad("name", w) + "billing" + cm(),
              ind + "port" + pad("port", w) + "8080" + cm(),
              ind + "hosts:",
              ind + seq_ind + "- alpha.example.com",
              ind + seq_ind + "- beta.example.com" + cm()]
    if rng.random() < 0.5:
        lines.append("")
    lines += ["flag" + pad("flag", w) + "true",
              "note" + pad("note", w) + q + "quoted text" + q + cm(),
              "limits:" + cm(),
              ind + "ratio" + pad("ratio", w) + "0.5"]
    if rng.random() < 0.4:
        lines.append(ind + "sizes" + pad("sizes", w) + rng.choice(["[1, 2, 3]", "[ 1,2,3 ]"]))
    text = "\n".join(lines) + "\n"
    if text.startswith("---\n") and ind == "  " and w == 0 and "#" not in text:
        text = "# settings\n" + text
    return text


def hand_json(rng):
    data = {"service": {"name": "billing", "port": 8080, "hosts": ["alpha.example.com", "beta.example.com"]}, "flag": True,
            "note": "quoted text", "limits": {"ratio": 0.5}}
    return json.dumps(data, indent=rng.choice([1, 3, 4, 8]), sort_keys=rng.random() < 0.5) + "\n"


def seq_cases(tier, rng):
    """(vi) short sequences of yaml-set runs on one hand-formatted file"""
    n = 40 if tier == "quick" else 160
    cases = []
    for i in range(n):
        js = i % 5 == 4
        tgt = "t.json" if js else "t.yaml"
        files = {tgt: hand_json(rng) if js else hand_yaml(rng)}
        stale = rng.random() < 0.4
        if stale:
            files[tgt + ".bak"] = "STALE BACKUP\n"
        present = {p: v for p, v, _ in SEQ_LEAVES}
        deleted = set()
        steps = []
        prev = None
        for j in range(rng.choice([2, 2, 3, 4])):
            kinds = ["same", "same", "change", "format", "fail"] + (["tag", "delete"] if not js else []) + (["again", "again"] if prev else [])
            # the first sequences always contain the plain classes
            kind = ("same" if j == 0 else "again") if i < 6 and j < 2 else (("change" if j == 0 else "again") if i < 12 and j < 2 else rng.choice(kinds))
            live = [l for l in SEQ_LEAVES if l[0] not in deleted]
            path, _v0, alt = rng.choice(live)
            expect = "ok"
            if kind == "again":
                st = dict(prev)
                st["what"] = "again:" + prev["what"]
                if prev["what"].endswith("delete"):
                    st["expect"] = "any"          # a second --delete finds nothing (refused) or the next list element
                steps.append(st)
                continue
            if kind == "same":
                args = ["-g", path, "-a", present[path]]
            elif kind == "change":
                new = alt if present[path] != alt else _v0
                args = ["-g", path, "-a", new]
                present[path] = new
            elif kind == "format":
                args = ["-g", path, "-a", present[path], "-F", rng.choice(["bare", "default"])]
            elif kind == "tag":
                args = ["-g", path, "--tag", "!cfg"]
                expect = "any"                    # ruamel.yaml cannot emit every tagged scalar: the save itself may fail
            elif kind == "delete":
                args = ["-g", path, "--delete"]
                deleted.add(path)
            else:
                args = ["-g", "/nothing/here/" + str(j), "-a", "v", "--mustexist"]
                expect = "fail"
            backup = rng.random() < 0.85 or i < 12
            st = {"what": kind, "backup": backup, "expect": expect, "args": args + (["-b"] if backup else []) + ["{D}/" + tgt]}
            steps.append(st)
            if expect != "fail":
                prev = st
        cases.append({"kind": "seq", "tool": "yaml_set", "writer": "setJson" if js else "setYaml", "doc": "hand-json" if js else "hand-yaml",
                      "backup": True, "stale": stale, "files": files, "target": tgt, "watch": [tgt, tgt + ".bak"], "steps": steps,
                      "args": []})
    return cases


def _loads(data):
    """does the YAML (or JSON) loader the tools use accept these bytes?"""
    if data is None:
        return False
    try:
        from ruamel.yaml import YAML
        list(YAML().load_all(data.decode("utf-8") if isinstance(data, (bytes, bytearray)) else data))
        return True
    except Exception:  # pylint: disable=broad-except
        return False


def judge_seq(chk, case, res):
    tag = "%s/%s" % (case["tool"], case["writer"])
    tgt, bak = case["target"], case["target"] + ".bak"
    for i, (st, r) in enumerate(zip(case["steps"], res["steps"])):
        pre, post = r["pre"], r["post"]
        where = "step %d of %d (%s: %s)" % (i + 1, len(case["steps"]), st["what"], " ".join(st["args"][:-1]))
        chk.count("seq-step:" + st["what"].split(":")[0])
        chk.count("seq-exit:%s" % ("0" if r["rc"] == 0 else "nonzero"))
        if r["rc"] != 0:
            changed = sorted(k for k in set(pre) | set(post) if pre.get(k) != post.get(k))
            if st["expect"] == "fail":
                # a cause detected before writing (unmatched required path)
                if changed:
                    chk.violation("prewrite-exit-changed-files:yaml_set:seq", "%s: exit %d but files changed/appeared: %s" % (
                        where, r["rc"], changed), replayable(case))
                continue
            # the run failed on its own, possibly while writing (e.g. the YAML writer cannot emit a tagged number): only
            # the last clause applies - with --backup the target or the .bak holds the pre-image
            chk.count("seq:unplanned-failure" + (":files-changed" if changed else ""))
            if st["backup"] and post.get(tgt) != pre.get(tgt) and post.get(bak) != pre.get(tgt):
                chk.violation("fault-lost-original:%s:seq" % tag, "%s: exit %d, neither the target nor the .bak holds the bytes the "
                              "file had before this step" % (where, r["rc"]), replayable(case))
            if st["expect"] == "ok" and not changed and i > 0 and not _loads(pre.get(tgt)):
                # an earlier step of this sequence left a file the YAML loader refuses (ruamel's emitter, not modelled:
                # `key:  # comment` followed by an emptied mapping is written as `{}` on the next line); the refusal of
                # this step is then the honest outcome and nothing was touched
                chk.count("seq:earlier-step-left-unloadable-file")
                return
            if st["expect"] == "ok" and not changed:
                chk.disagreement("success-case-failed:%s:seq" % tag, "%s: expected a successful run, exit %d: %s" % (
                    where, r["rc"], r["stderr"][-160:]), replayable(case))
            return
        if st["expect"] == "fail":
            chk.disagreement("failure-case-succeeded:%s:seq" % tag, "%s: expected a refused run, exit 0" % where, replayable(case))
        if not st["backup"]:
            continue
        if post.get(bak) != pre.get(tgt):
            state = ("absent" if post.get(bak) is None else "stale" if post.get(bak) == pre.get(bak) else
                     "new-content" if post.get(bak) == post.get(tgt) else "other")
            chk.violation("backup-not-preimage:%s:seq:%s" % (tag, state),
                          "%s: exit 0 with --backup, the target was %s, but %s %s" % (
                              where, "rewritten with other bytes" if post.get(tgt) != pre.get(tgt) else "left with the same bytes", bak,
                              {"absent": "does not exist", "stale": "still holds what it held before this run, not this run's pre-image",
                               "new-content": "holds the NEW content", "other": "holds other bytes than the pre-image"}[state]),
                          replayable(case))
            return
        chk.count("seq:backup-is-preimage" + (":rewritten" if post.get(tgt) != pre.get(tgt) else ":same-bytes"))


def inject_cases(succ_results, tier, rng):
    """One case per (syscall name, ordinal) of every successful traced run."""
    out = []
    for case, res in succ_results:
        if res.get("timeout") or res.get("rc") != 0:
            continue
        counts = {}
        seq = []
        for ev in res["events"]:
            counts[ev["sys"]] = counts.get(ev["sys"], 0) + 1
            seq.append((ev["sys"], counts[ev["sys"]]))
        light = tier == "quick" and not (case["backup"] and case["doc"] in ("small", "json", "rot1"))
        for sysname, k in seq:
            reading = sysname in READS
            if light and reading:
                continue
            if tier == "quick" and not case["backup"] and case["doc"] not in ("small", "json", "rot1"):
                continue
            errs = ["ENOSPC", "EIO"] if tier != "quick" else [rng.choice(["ENOSPC", "EIO"])]
            for err in errs:
                c = dict(case)
                c["kind"] = "inject"
                c["inject"] = [sysname, err, k]
                c["succ_new"] = res["after"].get(case["target"], b"").hex() if res["after"].get(case["target"]) is not None else None
                out.append(c)
    return out


# --------------------------------------------------------------------------- model requests

def hexs(b):
    return None if b is None else b.hex()


def model_request(case, res, new_bytes):
    """The driver request describing this run; `new_bytes` is the text a successful run leaves."""
    d = res["dir"]
    tgt = os.path.join(d, case["target"])
    bak = tgt + ".bak"
    before = res["before"]
    fs = {tgt: hexs(before.get(case["target"])), bak: hexs(before.get(case["target"] + ".bak"))}
    orig = before.get(case["target"])
    oc = [orig.hex()] if orig is not None else []
    nc = [new_bytes.hex()] if new_bytes is not None else []
    oracle = {}
    if case["kind"] == "prewrite" and case["field"] != "outputExists":
        oracle[case["field"]] = False
    if case["tool"] == "yaml_set":
        return {"op": "C17.set", "t": tgt, "json": case.get("writer") == "setJson", "backup": case["backup"], "fs": fs,
                "oc": oc, "nc": nc, "oracle": oracle}
    if case["tool"] == "yaml_merge":
        ins = [os.path.join(d, i) for i in case.get("ins", [])]
        for i, name in zip(ins, case.get("ins", [])):
            fs.setdefault(i, hexs(before.get(name)))
        dest = "output" if (case.get("writer") == "output" or str(case.get("dest", "")).startswith("output")) else "overwrite"
        rc = res.get("rc", 0)
        return {"op": "C17.merge", "t": tgt, "dest": dest, "backup": case["backup"], "ins": ins, "fs": fs, "oc": oc, "nc": nc,
                "oracle": oracle, "mergeExit": max(0, rc - 1)}
    return {"op": "C17.rotate", "t": tgt, "backup": case["backup"], "changed": case.get("changed", True), "fs": fs,
            "oc": oc, "nc": nc}


# --------------------------------------------------------------------------- judging

def brief(case):
    c = {k: v for k, v in case.items() if k not in ("files", "succ_new")}
    c["files"] = {k: (v if v is None or len(v) < 200 else v[:80] + "...<%d chars>" % len(v)) for k, v in case["files"].items()}
    return c


def replayable(case):
    return {k: v for k, v in case.items()}


def judge_static(chk, case, res):
    """Checks that need no model: the property itself on the real files."""
    tgt, bak = case["target"], case["target"] + ".bak"
    before, after = res["before"], res["after"]
    tag = "%s/%s" % (case["tool"], case.get("cause") or case.get("writer"))
    if case["kind"] == "prewrite":
        if res["rc"] != 0 and before != after:
            changed = sorted(set(k for k in set(before) | set(after) if before.get(k) != after.get(k)))
            chk.violation("prewrite-exit-changed-files:%s:%s" % (case["tool"], case["cause"]),
                          "%s exit %d (%s) but files changed/appeared: %s" % (case["tool"], res["rc"], case["cause"], changed),
                          replayable(case))
        if case["cause"] == "output-exists":
            if after.get(tgt) != before.get(tgt):
                chk.violation("output-replaced-existing", "yaml-merge --output replaced an existing file (exit %d)" % res["rc"],
                              replayable(case))
            elif res["rc"] == 0:
                chk.violation("output-exists-accepted", "yaml-merge --output naming an existing file exited 0", replayable(case))
    elif case["kind"] == "success":
        if res["rc"] != 0:
            chk.disagreement("success-case-failed:" + tag, "expected a successful run, exit %d: %s" % (res["rc"], res["stderr"][-160:]),
                             replayable(case))
            return
        wrote = after.get(tgt) != before.get(tgt) or case.get("changed", True)
        if case["backup"] and wrote and case.get("writer") != "output":
            if after.get(bak) != before.get(tgt):
                chk.violation("backup-not-preimage:" + tag, "after a successful --backup run the .bak is not the pre-image",
                              replayable(case))
        if case.get("writer") == "rotate" and not case.get("changed", True):
            if before != after:
                chk.violation("rotate-wrote-without-secret", "eyaml-rotate-keys changed files though no value is encrypted",
                              replayable(case))
    elif case["kind"] == "inject":
        orig = before.get(tgt)
        if case["backup"] and case.get("writer") != "output":
            if after.get(tgt) != orig and after.get(bak) != orig:
                chk.violation("fault-lost-original:%s:%s" % (tag, case["inject"][0]),
                              "fault %s on call %d of %s: neither the target nor the .bak holds the original bytes (exit %d)" % (
                                  case["inject"][1], case["inject"][2], case["inject"][0], res["rc"]), replayable(case))
        if res["rc"] != 0 and case.get("writer") == "output" and False:
            pass


def is_prefix_canon(obs, model):
    """obs is a prefix of model, the last observed append possibly shorter."""
    if len(obs) > len(model):
        return False
    for i, t in enumerate(obs):
        m = model[i]
        if t == m:
            continue
        if i == len(obs) - 1 and t[0] == "A" and m[0] == "A" and t[1] == m[1] and t[2] <= m[2]:
            continue
        return False
    return True


def run(chk: core.Check):
    os.makedirs(SCRATCH_ROOT, exist_ok=True)
    if not os.path.exists(STRACE):
        raise core.Infra("strace not available")
    tier = chk.tier
    rng = random.Random(chk.seed)
    drv = core.Driver()
    workers = min(16, os.cpu_count() or 4)

    def run_all(cases):
        with cf.ThreadPoolExecutor(workers) as ex:
            return list(ex.map(run_case, cases))

    if chk.replay_in:
        rp = json.load(open(chk.replay_in))
        case = rp.get("case", rp)
        res = run_all([case])[0]
        print("replay: rc=%s before=%s after=%s" % (res.get("rc"), {k: len(v) for k, v in res.get("before", {}).items()},
                                                     {k: len(v) for k, v in res.get("after", {}).items()}))
        for i, r in enumerate(res.get("steps", []) if case["kind"] == "seq" else []):
            print("replay: step %d rc=%s pre=%s post=%s" % (i + 1, r["rc"], {k: len(v) for k, v in r["pre"].items()},
                                                            {k: len(v) for k, v in r["post"].items()}))
        stage1 = [case] if case["kind"] not in ("inject", "linked", "dumpfault", "seq") else []
        stage2 = [case] if case["kind"] == "inject" else []
        stage3 = [case] if case["kind"] == "linked" else []
        r1 = [res] if stage1 else []
        r2 = [res] if stage2 else []
        r3 = [res] if stage3 else []
        stage4 = [case] if case["kind"] == "dumpfault" else []
        stage5 = [case] if case["kind"] == "seq" else []
        r4 = [res] if stage4 else []
        r5 = [res] if stage5 else []
    else:
        stage1 = success_cases(tier) + multidoc_success_cases(tier) + prewrite_cases(tier)
        rng.shuffle(stage1)
        r1 = run_all(stage1)
        succ = [(c, r) for c, r in zip(stage1, r1) if c["kind"] == "success"]
        stage2 = inject_cases(succ, tier, rng)
        r2 = run_all(stage2)
        stage3 = linked_cases(tier)
        r3 = run_all(stage3)
        stage4 = dumpfault_cases(tier, rng)
        r4 = run_all(stage4)
        stage5 = seq_cases(tier, rng)
        r5 = run_all(stage5)

    # ---- (v) writer faults and (vi) sequences: direct checks of the property's clauses on the real files
    for case, res in list(zip(stage4, r4)) + list(zip(stage5, r5)):
        if res.get("timeout"):
            raise core.Infra("tool run timed out: " + json.dumps(brief(case))[:300])
        chk.count("kind:" + case["kind"])
        chk.count("tool:" + case["tool"])
        if case["kind"] == "dumpfault":
            chk.seen(("dumpfault", case["tool"], tuple(case["args"]), case["doc"], case["stale"], tuple(sorted(case["dumpfault"].items())))
                     if res.get("fired") else None)
            judge_dumpfault(chk, case, res)
        else:
            ok_steps = sum(1 for r in res["steps"] if r["rc"] == 0)
            chk.seen(("seq", json.dumps(case["files"], sort_keys=True), json.dumps(case["steps"], sort_keys=True)) if ok_steps else None)
            judge_seq(chk, case, res)

    # ---- (iv) symbolic links: direct check only (the model's file system has no links)
    for case, res in zip(stage3, r3):
        if res.get("timeout"):
            raise core.Infra("tool run timed out: " + json.dumps(brief(case))[:300])
        chk.seen(("linked", case["tool"], case["writer"], case["target_form"], case["stale_form"]) if res["pre"]["t"]["bytes"] is not None else None)
        chk.count("kind:linked")
        chk.count("tool:" + case["tool"])
        chk.count("exit:%s" % ("0" if res["rc"] == 0 else "nonzero"))
        chk.count("linked:target=" + case["target_form"])
        chk.count("linked:stale=" + case["stale_form"])
        chk.out_of_model += 1
        judge_linked(chk, case, res)

    allc = list(zip(stage1, r1)) + list(zip(stage2, r2))
    for case, res in allc:
        if res.get("timeout"):
            raise core.Infra("tool run timed out: " + json.dumps(brief(case))[:300])

    # ---- model requests (one batch)
    reqs, owners = [], []
    for case, res in allc:
        if case["kind"] == "inject":
            new = bytes.fromhex(case["succ_new"]) if case.get("succ_new") is not None else None
        else:
            new = res["after"].get(case["target"]) if res["rc"] == 0 else None
        reqs.append(model_request(case, res, new))
        owners.append((case, res))
        # the file-system semantics applied to the observed steps
        contents = {os.path.join(res["dir"], k): v for k, v in res["before"].items()}
        steps, inj_at = to_steps(res["events"], contents)
        res["steps"], res["inj_at"] = steps, inj_at
        watch = [os.path.join(res["dir"], w) for w in case["watch"]]
        fs = {w: hexs(res["before"].get(os.path.relpath(w, res["dir"]))) for w in watch}
        reqs.append({"op": "C17.exec", "fs": fs, "steps": [s for s in steps if s["k"] != "X" and s["p"] in watch]})
        owners.append(None)
    answers = drv.ask(reqs)

    for i in range(0, len(reqs), 2):
        case, res = owners[i]
        mo, ex = answers[i], answers[i + 1]
        d = res["dir"]
        watch = [os.path.join(d, w) for w in case["watch"]]
        tgt = os.path.join(d, case["target"])
        tag = "%s/%s" % (case["tool"], case.get("cause") or case.get("writer"))
        got_far = any(e["sys"] in ("openat", "open") for e in res["events"])
        key = (case["tool"], tuple(case["args"]), tuple(sorted(case["files"])), tuple(case.get("inject") or ()), case.get("doc"), case["stale"])
        chk.seen(key if got_far else None)
        chk.count("kind:" + case["kind"])
        chk.count("tool:" + case["tool"])
        chk.count("exit:%s" % ("0" if res["rc"] == 0 else "nonzero"))
        judge_static(chk, case, res)
        real_after = {w: hexs(res["after"].get(os.path.relpath(w, d))) for w in watch}
        obs = canon(res["steps"], watch)
        unexpected = [t for t in obs if t[0] == "X"]
        if unexpected:
            chk.disagreement("unexpected-syscall:" + tag, "syscall outside the model's step vocabulary: %s" % unexpected[:3], replayable(case))
        # (a) file-system semantics: model run over the observed steps == real bytes
        chk.disagreements_checked += 1
        if {w: ex["after"].get(w) for w in watch} != real_after:
            chk.disagreement("fs-semantics:" + tag, "the model file system applied to the observed steps differs from the real files",
                             replayable(case))
        mtrace = canon(mo["trace"], watch)
        if case["kind"] in ("success", "prewrite"):
            # (b) exit status and step list
            mexit = mo.get("exit", 0)
            if case["kind"] == "prewrite":
                if (mexit != 0) != (res["rc"] != 0):
                    chk.disagreement("exit-class:" + tag, "exit status %d, model %d" % (res["rc"], mexit), replayable(case))
                elif case["tool"] == "yaml_set" and mexit != res["rc"] and case["field"] not in ("applyOk",):
                    chk.disagreement("exit-code:" + tag, "exit status %d, model %d" % (res["rc"], mexit), replayable(case))
            if res["rc"] == 0 or case["kind"] == "prewrite":
                # an input that cannot even be opened: the model lists the attempted open, the
                # observation keeps successful calls only
                alt = mtrace[:-1] if (case.get("field") == "loadOk" and mtrace and mtrace[-1][0] == "R") else mtrace
                if obs != mtrace and obs != alt:
                    chk.disagreement("steps:" + tag, "canonical syscall sequence %s differs from the model's step list %s" % (
                        [t[:3] for t in obs][:14], [t[:3] for t in mtrace][:14]), replayable(case))
                if res["rc"] == 0 and {w: mo["after"].get(w) for w in watch} != real_after:
                    chk.disagreement("final-bytes:" + tag, "final bytes differ from the model's file system", replayable(case))
            if len(chk.samples) < 6 and case["kind"] == "success" and case["backup"]:
                chk.sample({"tool": case["tool"], "args": case["args"], "rc": res["rc"], "observed": [list(t) for t in obs],
                            "model": [list(t) for t in mtrace]})
        else:
            # (c) a faulted run: prefix of the model's list + flushes to open handles, or a full recovery
            chk.count("inject:%s" % case["inject"][0])
            inj = res["inj_at"]
            if inj is None:
                chk.count("inject:not-reached")
                continue
            pre = canon(res["steps"][:inj], watch)
            post_steps = [s for s in res["steps"][inj:] if s["p"] in watch and s["k"] not in ("S",)]
            recovered = res["rc"] == 0 and obs == mtrace
            if not recovered and res["rc"] == 0 and case["inject"][0] in READS:
                # os.path.exists() answers False when its stat call fails: the stale .bak is not
                # removed first (the model's `statOk = false`); everything else is unchanged
                recovered = obs == [t for t in mtrace if t[0] != "U"]
                if recovered:
                    chk.count("inject:exists-answered-false")
            if recovered:
                chk.count("inject:recovered")
            else:
                chk.count("inject:aborted" if res["rc"] != 0 else "inject:exit0-other")
                okp = is_prefix_canon(pre, mtrace)
                # what was open for writing at the fault
                openw = set()
                for s in res["steps"][:inj]:
                    if s["k"] == "W":
                        openw.add(s["p"])
                okc = all(s["k"] == "A" and s["p"] in openw for s in post_steps)
                if res["rc"] == 0:
                    chk.disagreement("fault-swallowed:%s:%s" % (tag, case["inject"][0]),
                                     "run exits 0 after an injected %s fault without completing the model's step list" % case["inject"][0],
                                     replayable(case))
                elif not okp:
                    chk.disagreement("fault-prefix:%s:%s" % (tag, case["inject"][0]),
                                     "steps before the fault %s are not a prefix of the model's list %s" % (pre[:12], mtrace[:12]),
                                     replayable(case))
                elif not okc:
                    chk.disagreement("fault-cleanup:%s:%s" % (tag, case["inject"][0]),
                                     "after the fault the tool performed steps other than flushes to open files: %s" % (
                                         [(s["k"], os.path.basename(s["p"])) for s in post_steps][:8]), replayable(case))
    chk.extra_cov["tool_runs"] = len(allc) + len(stage3) + len(stage4) + sum(len(c["steps"]) for c in stage5)
    chk.extra_cov["writer_fault_runs"] = len(stage4)
    chk.extra_cov["sequences"] = len(stage5)
    chk.extra_cov["linked_runs"] = len(stage3)
    chk.extra_cov["fault_injections"] = len(stage2)
    chk.notes.append("faults below the system-call level (torn pages, power loss) are outside the model")
    return chk
