"""C14 — parsing any text as a YAML Path ends in segments or a YAML Path error."""
from __future__ import annotations

import itertools
import json
import os
import random

from harness import core
from harness.props import parsing

RULE = ("every string of length <= L over the parser's 27 significant characters (L=4 quick, 5 thorough; "
        "separator inferred; both escape modes), every string of length <= 3 with the separator forced to '.' and '/', "
        "a model-based state cover (breadth-first search over the abstract states of the Lean parser model: one shortest text per "
        "state -- an id that is a keyword name only up to letter case or escaped edge blanks is a state of its own -- extended by every "
        "significant and 19 ordinary/non-ASCII characters, so every (state, character) transition is taken, and by escape + each of those), "
        "every search-keyword segment spelling (7 names x lower/upper/mixed case x plain/escaped blank, tab, backslash padding before and "
        "after the name x inverted x notation x parameters), "
        "the corpus of past failures, and seeded random longer strings mixing those characters, keyword names and "
        "non-ASCII text; bracketed element references and slice bounds in ~95 numeric spellings (every form int / float / complex / "
        "Fraction would read: signs, underscores, base prefixes, fractions, exponents past the double range, inf / nan names, "
        "non-ASCII digits) x padding x 10 contexts; demarcation pairs nested 30..1600+ levels deep (balanced, a closer short / "
        "too many, malformed innermost text, inside search terms and keyword parameters, between ordinary segments) and "
        "d-fold repetitions of every significant character and short segment.  Direct check on the real parser: the outcome is a segment list or a YAMLPathException "
        "(anything else, or a 5 s timeout, is a violation).  Correspondence: the outcome class (segments / YAML Path "
        "error) equals the Lean model's for ASCII texts.  distinct_nontrivial = distinct texts that parse to >= 2 segments.")

CORPUS = ["]", "a]", "a[1]]", ")]", "a[b[c]]", "[", "(", "a[b=~/x", "(a)+", "a[name()", "a['b", "a\\", "[.=~]", "[!!a=1]",
          "[=1]", "a.**b", "a[1:2]", "&a", "/&a/b", "a[&b]", "(a)-(b)&(c)", "[has_child(a)]x", "a[max(b)].c", "a['b']c'",
          "[+1]", "[ 1 ]", "[1_0]", "[\\ 1]", " ", "\t", "[\t1]"]


def corpus_cases():
    cases = [(t, "auto") for t in CORPUS]
    cases += [(t, m) for t in CORPUS for m in ("dot", "fslash")]
    d = os.path.join(core.CORPUS_DIR, "C14")
    if os.path.isdir(d):
        for fn in sorted(os.listdir(d)):
            try:
                c = json.load(open(os.path.join(d, fn)))
                cases.append((c["text"], c.get("sep", "auto")))
            except Exception:
                pass
    return cases


def widen(chk: core.Check):
    """Failing-input search after a broken obligation/correspondence: the thorough-tier case set
    (every string of length <= 5, the larger state cover with two-symbol extensions)."""
    chk.notes.append("widened search: thorough-tier case set")
    run(chk, tier="thorough")


def run(chk: core.Check, what="class", tier=None):
    core.use_repo()
    tier = tier or chk.tier
    if chk.replay_in:
        rp = json.load(open(chk.replay_in))
        c = rp.get("case", rp)
        cases = [(c["text"], c.get("sep", "auto"))]
        for (t, m) in cases:
            print("replay:", json.dumps({"text": t, "sep": m, "impl": parsing.impl_parse(t, m),
                                         "model": core.Driver().ask([{"op": "parse", "t": t, "sep": m}])[0]}))
        jobs = [(cases, what)]
    else:
        L = 4 if tier == "quick" else 5
        jobs = [(corpus_cases(), what)]
        # exhaustive: shard by the first two characters
        short = [(t, "auto") for t in parsing.exhaustive_texts(2)]
        short += [(t, m) for t in parsing.exhaustive_texts(3) for m in ("dot", "fslash")]
        jobs += [(c, what) for c in core.chunked(short, 16)]
        for a in parsing.ALPHABET:
            for b in parsing.ALPHABET:
                pre = a + b
                jobs.append(("EXH", pre, L, what))
        # model-based: one representative per abstract state of the parser model, extended by every
        # significant and several "ordinary" characters (every (state, character) transition)
        reps = parsing.state_cover(max_states=14000 if tier == "quick" else 40000,
                                   max_depth=14 if tier == "quick" else 18)
        chk.extra_cov["state_cover_states"] = len(reps)
        sc = []
        for r_ in reps:
            for a in parsing.ALPHABET + parsing.ODD:
                sc.append((r_ + a, "auto"))
        # two-symbol extensions whose first symbol is the escape: escape + every significant / odd character
        # (an escaped blank or tab is part of the segment text, unlike a plain one)
        for r_ in reps:
            for a in parsing.ALPHABET + parsing.ODD:
                sc.append((r_ + "\\" + a, "auto"))
        # keyword segments in every spelling of the keyword name (letter case, plain / escaped padding)
        kws = parsing.keyword_segment_texts()
        chk.extra_cov["keyword_spellings"] = len(kws)
        sc += [(t, "auto") for t in kws]
        if tier != "quick":
            rng2 = random.Random(chk.seed + 1)
            for r_ in reps:
                for _ in range(60):
                    sc.append((r_ + rng2.choice(parsing.ALPHABET) + rng2.choice(parsing.ALPHABET + parsing.ODD), "auto"))
        jobs += [(c, what) for c in core.chunked(sc, 64)]
        # element references / slice bounds in every numeric spelling; deeply nested and long repetitive texts
        num = parsing.numeric_index_texts()
        deep = parsing.deep_texts(random.Random(chk.seed + 2))
        chk.extra_cov["numeric_index_texts"] = len(num)
        chk.extra_cov["deep_texts"] = len(deep)
        jobs += [([(t, "auto") for t in c], what) for c in core.chunked(num, 64)]
        jobs += [([(t, "auto") for t in c], what) for c in core.chunked(deep, 256)]
        nrand = 60000 if tier == "quick" else 1500000
        rng = random.Random(chk.seed)
        rnd = []
        for _ in range(nrand):
            t = parsing.random_text(rng)
            rnd.append((t, rng.choice(["auto", "auto", "auto", "dot", "fslash"])))
        jobs += [(c, what) for c in core.chunked(rnd, 64)]
        chk.exhaustive = True
        chk.extra_cov["exhaustive_bound"] = "all strings of length <= %d over %d characters (separator inferred); length <= 3 with forced separators" % (L, len(parsing.ALPHABET))
    results = core.pmap(_job, jobs)
    seen_nontrivial = 0
    for stats, viol, disag, samples in results:
        chk.evaluations += stats["n"]
        seen_nontrivial += stats["nontrivial"]
        for k in ("ok", "ypath", "crash", "timeout"):
            chk.count("impl_outcome:" + k, stats[k])
        chk.out_of_model += stats["out_of_model"]
        for s in samples:
            chk.sample(s)
        for sig, w, case in viol:
            chk.violation(sig, w, case)
        for sig, w, case in disag:
            chk.disagreements_checked += 1
            chk.disagreement(sig, w, case)
    # texts are distinct by construction in the exhaustive part; random ones may repeat rarely
    chk.nontrivial_extra = seen_nontrivial
    return chk


def _job(job):
    if job[0] == "EXH":
        _, pre, L, what = job
        texts = [(pre + "".join(t), "auto") for n in range(1, L - 1) for t in itertools.product(parsing.ALPHABET, repeat=n)]
        return parsing.compare_chunk((texts, what))
    return parsing.compare_chunk(job)
